#!/usr/bin/env python3
"""Generates MANIFEST.json from the table below (kept in one place so that it stays valid)."""
import json, os
ROOT = os.path.dirname(os.path.dirname(os.path.abspath(__file__)))
props = [json.loads(l) for l in open(os.path.join(ROOT, 'properties.jsonl'))]

PBT = "property-based testing (proptest, tape-driven program generator) against "
CHECKS = {
 "C01": dict(
    technique=PBT + "a reference interpreter (differential oracle)",
    text="Generated programs (intent-typed, well-scoped, terminating by construction) are run through the real lexer/parser/resolver/runtime and compared value-by-value and ending-by-ending with an independent reference interpreter written from the documentation; unspecified zones are never asserted; an implementation run that does more than ten times the reference interpreter's step count (deterministic hook counter) is reported as not stopping. Held on everything generated; no claim about programs the generator cannot write.",
    note="Trusts the reference interpreter and reference static checker in harness/src/nsgen (restatement of docs/*.md), Rust's float formatting/parsing, and the fork-isolation layer."),
 "C02": dict(
    technique=PBT + "a reclamation-off run of the same program (differential oracle), debug build with poisoning",
    text="Each generated program is run with frame arena + string pool (reclamation on) and with a single arena (nothing reset or recycled); outputs and endings must agree and no crash may appear only with reclamation on. Hook counters measure that frame resets, pool returns and promotions really happened; a run with reclamation on that does more than twice the work of its baseline (deterministic statement + iteration count) has stopped following the program. A second stage passes process command builders through loops and function parameters and judges the argv/env/cwd/stdin a helper child receives with the C15 contract model.",
    note="A stale read is only visible when stale bytes reach an output, a condition or a trap; poisoning (debug assertions) and observation epilogues raise the odds."),
 "C03": dict(
    technique=PBT + "the unpruned run of the same program (differential oracle) + executed-statement log vs recomputed reachability",
    text="Each generated program is run with and without the resolver's optimisation plan on the same AST and facts; printed values and ending must be identical, and no statement the analysis calls unreachable may execute when nothing is pruned; a program that ends when every statement is executed but does more than twice that work with the plan is reported as not stopping. A bounded-exhaustive family of recursion cycles and call chains (2..6 functions, one member silently reading or assigning a variable of an enclosing scope, in three nesting contexts) checks the interprocedural summaries. Hook counters measure that the plan was non-empty and actually skipped something.",
    note="Runs ending in resource exhaustion are not compared; non-termination changes are out of reach."),
 "C04": dict(
    technique=PBT + "a reference interpreter with lexical environments; site-tagged literals",
    text="Programs built from a three-name pool with deep nesting, shadowing, redeclaration, recursion, mutual recursion, captures and forward calls are compared with a reference interpreter that resolves names lexically; literals encode their creation site so a wrong binding changes the output. Generated statements declare a local namesake of a variable that a callable function writes, call it and print the namesake; a scope-arrays stage does the same with nested arrays changed through paths.",
    note="Trusts the reference resolver/interpreter; programs that use a variable before its declaration executed (no documented meaning) are excluded by construction."),
 "C05": dict(
    technique=PBT + "a reference interpreter with by-value arrays; full dumps after every mutation (model-based history testing)",
    text="Histories of copy / nested-index write / push / pop / reverse / call / return over arrays, written as programs that dump all visible arrays after every mutation, are compared with a reference interpreter in which arrays are plain vectors copied on every read; an extra stage mixes this with the three-name scope profile (captured arrays changed through paths while a namesake is live in the caller).",
    note="Trusts the reference interpreter; array -> text conversion is unspecified and not asserted (values are compared structurally)."),
 "C06": dict(
    technique="bounded-exhaustive enumeration (sink x runtime type x route grid) + proptest compositions; crash oracle in an isolated child",
    text="Every combination of 88 sinks, 19 runtime values (the 7 runtime types plus extreme, fractional, negative, zero and NaN numbers, empty and multi-byte strings, empty and nested arrays) and 9 dynamic routes (plus special shapes) is generated; every program the static checker accepts must end normally or with a runtime diagnostic in the debug-assertion build. Random compositions of grid fragments inside loops, functions and branches extend it.",
    note="Only the routes and sinks in the tables of harness/src/c06.rs; process_result values need `true` to be spawnable."),
 "C08": dict(
    technique="generated recursion shapes x depth x build driven through the real naija binaries (subprocess fuzzing) with depth bisection",
    text="Run-time recursion cycles, source-nesting shapes and run-time data nesting are generated at depths 10^2..10^6 and run through the dev and release binaries with an 8 MiB stack; the process must exit by itself with a diagnostic, never die by a signal, and a recursion without a base case must never end with exit status 0; block nesting runs in three flavours and four cycles are handed over on standard input. Front-end native overflows are recorded as known findings per construct and build; any run-time-stage crash or new construct is a violation.",
    note="Depends on the two compiler profiles built here; arena exhaustion and watchdog hits are inconclusive."),
 "C11": dict(
    technique="stateful model-based property testing (proptest op histories against a shadow model with byte patterns)",
    text="Random histories of allocate / zeroed / grow / shrink / Vec and ArenaString growth / mark / reset / decommit / nested scratch borrow are executed against the real arena and a shadow model; after every op pointer range, alignment, disjointness, offset arithmetic, contents, zeroing and commit invariants are compared; touching bad memory is seen as a signal in the isolated child. Debug wrapper and raw release arena.",
    note="Generator respects the preconditions real callers respect (power-of-two alignment <= 4096, tail-only shrink, nested scratch use)."),
 "C12": dict(
    technique="bounded-exhaustive enumeration of alloc/free words on small pools + stateful model-based proptest on the real PoolSet",
    text="All alloc/free words up to length 10 over small pools and random long histories over the real 20-class pool set are checked against an abstract multiset model: size/class mapping, slot-boundary placement, exclusivity by address and byte pattern, reuse of free slots, conservation counters, fallback outside pooled memory and the ownership test at block boundaries.",
    note="Uses feature-gated wrappers to reach the crate-private Pool/PoolSet."),
 "C13": dict(
    technique="bounded-exhaustive enumeration + proptest against naive reference implementations",
    text="All haystack/needle pairs over a 3-letter alphabet (exhaustive) and structured generated strings (periodic, near-periodic, Fibonacci, Thue-Morse, multi-byte) go through find/replace/split/join against naive oracles; slice against a Vec<char> model; len/trim/case conversion against own loops and std; to_number against exact decimal spellings. Debug and optimised builds.",
    note="Trusts the naive oracles, std's string case conversion and float printing; 10 s watchdog turns hangs into failures."),
 "C17": dict(
    technique="property-based testing of the real binaries (generated input texts x delivery plans); oracle is a pure function of the text",
    text="Generated texts (0-12 lines, lengths around the 8 KiB buffer, multi-byte, with/without final newline) are delivered through a regular file, one pipe write, generated split points with pauses, or byte-by-byte to a script that calls read_line; the printed lines must equal the text's lines regardless of chunking, in dev and release builds.",
    note="No CR in inputs (terminator handling of CR is undocumented)."),
}

CHECKS.update({
 "C07": dict(
    technique="property-based testing (proptest token soup + token-level mutation of valid programs and repository scripts) with span/render invariants in an isolated child; libFuzzer byte-level target in the thorough tier",
    text="Token soup over a vocabulary of every keyword, punctuation, identifier, number/string/comment shape, whitespace kind and multi-byte character; 1-6 mutations (delete/duplicate/swap/insert/replace token, truncation at any character boundary, splice, CR/CRLF/tab line endings) of generated programs and of the repository's scripts; valid sized families. Lexing, parsing and static checking must return within the watchdog, every diagnostic/label span must be ordered, in range and on character boundaries, rendering must give valid UTF-8, and the real binary must not execute a text whose front end reported an error.",
    note="Texts <= 16 KiB; deep nesting belongs to C08; the resolver is exercised on parser-clean texts as the shipped pipelines do."),
 "C09": dict(
    technique="property-based testing with AST-level fault injection against a reference static checker (two-directional oracle) + exhaustive rule x context grid + bounded-exhaustive operator typing table",
    text="Valid generated programs must be accepted; the same programs with one injected violation (14 mutation operators covering every documented static rule, applied at generated positions and nesting contexts) must be rejected exactly when the reference static checker over the generator's own AST finds a broken rule, and some diagnostic must name that rule's category. An exhaustive grid of rule snippets in 8 nesting contexts complements it. A bounded-exhaustive operator typing table (every binary operator over 17 x 17 operand spellings of the five static types and two dynamically typed forms, unary operators, conditions, indexing, in 8 contexts) is checked against verdicts written down from the documented rules.",
    note="Generated programs: type errors are only asserted on literal/declared types; typing table: a null or dynamically typed operand excuses nothing; U6/U10 zones are not asserted; method arity on receivers the reference cannot type is not asserted; trusts harness/src/nsgen/resolve.rs."),
 "C10": dict(
    technique="metamorphic property-based testing (one token sequence, six generated layouts + redundant parentheses)",
    text="Each generated program (accepted or statically rejected) is rendered from its token list as canonical text, one line, one token per line, random separators (space/tab/LF/CR/CRLF), with `#` comments after any token, and padded - in half of the cases after renaming the declared identifiers to keyword-like names (`small`, `to`, `say`, `so`, `if`, `passes`, `tosay`, ...) -; the implementation's own lexer must return the same tokens for all, and acceptance, diagnostics multiset, printed values and ending must equal the canonical rendering. A parenthesised variant must behave identically.",
    note="Whitespace kinds limited to those the property names; comments never inside a multi-word keyword."),
 "C14": dict(
    technique="differential property-based testing: real binaries (3 input routes, dev+release) vs library pipeline with separate arenas; history testing through the playground entry point derived from wasm/src/lib.rs",
    text="Generated programs (accepted, failing at run time, with warnings, statically rejected; a quarter padded beyond 8/16/24 KiB with multi-byte characters across that offset) are run through the naija binary by file, --eval, stdin (in one or several writes) and by a script path that is a pipe, with white space or comment lines around the text; a further stage uses texts with about 256 x k diagnostics; and compared byte-for-byte (stdout) and by exit status with the library pipeline using fresh separate arenas. Histories of up to 8 runs over up to 4 programs are executed back to back in one process through a native build of the real playground entry point; every position must give the result the program gives alone in a fresh process.",
    note="The playground entry is derived at build time from wasm/src/lib.rs (wasm attributes stripped, HTML conversion = identity); if the derivation no longer applies the check exits 2."),
 "C15": dict(
    technique="property-based testing of generated builder scripts x host policies against an independent contract model; reporting helper child as spawn marker",
    text="Generated scripts build commands with adversarial arguments, environment overrides, cwd, stdin text and timeouts under generated host policies and small limits, as straight-line code, spread over loop iterations, or on parameters inside a function; a helper child reports the argv, environment, cwd and stdin it actually received. Either the command is refused with the documented runtime error and no child was spawned (exactly when the contract model says so), or the report equals the model byte for byte.",
    note="Needs process spawning in the sandbox; env-pair counting cases the documentation leaves open are discarded."),
 "C16": dict(
    technique="property-based testing of generated emission plans x capture policies x caps x poll intervals (sampled schedules) against a plan-derived expectation",
    text="A helper child executes generated emission plans (chunked stdout/stderr, delays, invalid UTF-8 as an impossible byte or as a truncated / overlong / surrogate / stray sequence at start, middle or end, exit code or signal, linger) under all nine capture policy pairs, caps at cap-1/cap/cap+1 around chunk and pipe sizes, poll intervals 1-50 ms and timeouts far above or below the run time, plus six fixed near-timeout cases and a 128 KiB standard input that the child never reads. Captured output must be complete and unmixed or the run must end with the documented error; after an error the child must be gone.",
    note="Thread interleavings are sampled, not enumerated (no schedule hooks); timing margins >= 10x, a missed margin is inconclusive."),
 "C18": dict(
    technique="generated parametric size families with threshold search guided by the limit warning (bounded search + proptest-chosen sizes), differential against a re-implementation of the staged limit comparison over measured counts",
    text="For each analysis limit a program family with analysis bait, a binding-sensitive kernel (nested calls and definitions, block-local namesake, capture, recursion) and a known output is sized just below, at and above the point where the resource-limit warning appears (verified from a committed hint or found by bisection), plus random sizes. At every size the program must be accepted and print the known output with and without the plan; all eleven limited quantities are measured through the public counting API (countable ones must equal the generator's own counts) and the staged comparison with the default caps must agree with the warning: present exactly when a quantity exceeds its cap, naming the first one in the documented order with that figure; above a limit exactly one `analysis` warning, no plan and nothing skipped; below it the bait warnings, a non-empty plan and skipped statements.",
    note="`cfg ops` and `ops in one function` equal the statement count and are shadowed by the statements limit; `functions` is shadowed from below by `summary events`; `cfg blocks` by `scopes` in the family used (reported in the evidence)."),
})

checks = []
for pid, c in sorted(CHECKS.items()):
    checks.append({
        "property_id": pid,
        "quick_cmd": f"./check {pid} --tier quick",
        "thorough_cmd": f"./check {pid} --tier thorough",
        "evidence_file": f"evidence/{pid}.json",
        "replay_cmd_template": f"./check {pid} --replay {{path}}",
        "engine": "nsverif",
        "level_claimed": {"category": "exploration", "text": c["text"], "design_ref": f"DESIGN.md §2 {pid}"},
        "level_note": c["note"],
        "technique": c["technique"],
    })

hooks = ["e59eb74", "a19afd7", "59a77eb", "d9a659f", "41a0e94"]
manifest = {
    "version": 1,
    "setup_cmd": "./setup.sh",
    "hooks": {
        "guard": "cargo feature `verif` of the naijascript crate (off by default)",
        "enable": "harness/Cargo.toml depends on naijascript = { path = \"/repo\", features = [\"verif\"] }; the naija binaries used by the subprocess checks are built with the feature off",
        "baseline_off_cmd": "cd /repo && (cargo nextest run --workspace --no-fail-fast --test-threads 8 --offline || cargo test --workspace --no-fail-fast --offline)",
        "source_commits": hooks,
        "add_only": True,
    },
    "engines": [{
        "name": "nsverif",
        "path": "harness/",
        "serves_properties": sorted(CHECKS.keys()),
        "kind_free_text": "Rust binary: proptest TestRunner + bounded-exhaustive enumerators + subprocess drivers, fork-per-case isolation with watchdog, 16 shard processes, tape-driven program generator (nsgen) with reference interpreter and reference static checker, evidence writer, known-findings matcher",
    }],
    "checks": checks,
    "notes": "See DESIGN.md. Open findings: known_findings.json (+ known/<ID>/ replays). Regression inputs of repaired defects: regress/<ID>/. Exit codes: 0 held, 1 VIOLATION, 2 infrastructure/inconclusive.",
    "not_applicable": [
        {"property_id": p["id"], "reason": "check not finished yet in this round (work in progress; see DESIGN.md §5 build order)"}
        for p in props if p["id"] not in CHECKS
    ],
}
json.dump(manifest, open(os.path.join(ROOT, 'MANIFEST.json'), 'w'), indent=1)
print("checks:", len(checks), "not_applicable:", len(manifest["not_applicable"]))
