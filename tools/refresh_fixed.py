#!/usr/bin/env python3
"""Rewrites the `fixed` list of known_findings.json from the `fix:` commits of /repo
(hash + property + what failed + replay), so that hashes stay right after a history edit."""
import json, subprocess
log = subprocess.run(['git', '-C', '/repo', 'log', '--reverse', '--format=%h %s', 'ec803c6..HEAD'], capture_output=True, text=True).stdout.strip().split('\n')
fixes = [(l.split(' ', 1)[0], l.split(' ', 1)[1]) for l in log if ' fix:' in ' ' + l.split(' ', 1)[1][:5] or l.split(' ', 1)[1].startswith('fix:')]
# subject keyword -> (property, what failed, replay)
TABLE = [
 ("long-needle substring search", "C13", "find/replace/split with a needle longer than 16 bytes panicked (index out of bounds in maximal_suffix), and with the bound corrected skipped occurrences or looped forever", "regress/C13/find-long-needle-*.json"),
 ("to_lowercase ignored", "C13", "to_lowercase ignored the Unicode Final_Sigma rule (\"ßΣ\" -> \"ßσ\")", "regress/C13/to-lowercase-final-sigma.json"),
 ("deeply nested bare blocks", "C08", "deeply nested bare `start ... end` blocks overflowed the native stack at run time (exec_stmt recursed without a stack check)", "regress/C08/runtime-nested-blocks*.json"),
 ("`add` with a dynamically typed operand", "C01", "`(a add b) divide 2` with parameters a, b was rejected: `add` with a dynamically typed operand was inferred as string/number", "regress/C01/add-dynamic-operands-rejected.json, regress/C09/add-dynamic-operands-rejected.json"),
 ("unary `minus`/`not`", "C01", "`minus a[0] minus 0` was rejected: unary minus/not on a dynamically typed operand had no inferred type", "regress/C01/unary-on-dynamic-rejected.json, regress/C09/unary-on-dynamic-rejected.json"),
 ("variable reads aliased", "C02", "a variable read returned a zero-copy alias of a pool slot / frame string that was recycled while still in use (`return s`, `return p`, `x add f()` with f assigning x, `s get s`)", "regress/C02/return-of-variable-aliases-recycled-slot.json, operand-read-before-call-that-overwrites.json, self-assignment.json"),
 ("string literals containing an escape", "C01", "a string literal containing an escape sequence was never interpolated (`\"a\\t{x}\"`)", "regress/C01/escape-blocks-interpolation.json"),
 ("parameter values stayed", "C02", "parameter values stayed on the frame arena; a push to an array parameter inside a loop was reclaimed by the loop's frame reset (garbage, SIGSEGV)", "regress/C02/array-parameter-regrown-inside-loop.json"),
 ("calls to functions that assign outer variables", "C03", "`make u get setx()` with u unused was pruned although setx assigns an outer variable", "regress/C03/capture-write-call-pruned.json"),
 ("a truncated capture", "C16", "when both captured streams exceeded the cap and stderr won the overflow flag, the truncated stdout was validated as complete and could be reported as invalid UTF-8 instead of the output-limit error", "regress/C16/both-over-cap-wrong-error.json"),
 ("function return types were inferred", "C01", "the return type of `return a` (parameter a) was inferred from an outer variable a, rejecting `f(1) minus 0`", "regress/C01/return-type-inferred-in-outer-scope.json, regress/C09/return-type-from-outer-scope.json"),
 ("a function's local-id range", "C03", "a function's local-id range did not cover locals declared after a nested function definition: liveness bitsets indexed out of bounds (resolver panic with >= 64 interleaved locals)", "regress/C03/interleaved-local-ids.json, regress/C07/interleaved-local-ids.json"),
 ("a callee's possible write", "C03", "an assignment followed by a call to a function that only may assign the same variable was reported unused and pruned (callee capture writes treated as definite definitions)", "regress/C03/may-write-killed-liveness.json"),
 ("a process command or result returned", "C06", "a process_command / process_result returned from a function pointed into the reset frame (SIGSEGV on use)", "regress/C06/host-value-returned-from-function.json"),
 ("dynamically typed values that do not fit", "C06", "dynamically typed values that do not fit an operator, condition, index, method or built-in argument hit unreachable!/assert!/unimplemented! in the runtime (about 15 sites); now the `Type mismatch` runtime error", "regress/C06/grid-*.json"),
 ("`comot`/`next` were accepted", "C09", "`comot`/`next` were accepted in a function defined inside a loop (loop depth not reset at the function boundary) and crashed at run time", "regress/C09/comot-in-function-inside-loop.json, next-in-function-inside-loop.json, regress/C06/comot-in-function-inside-loop.json"),
 ("calling a function above the declaration", "C06", "a hoisted call that runs above the `make` of a variable the function uses hit expect/unreachable! (variable has no slot yet); now the `Variable used before declaration` runtime error", "regress/C06/forward-call-*.json"),
 ("read_line dropped input", "C17", "read_line discarded everything after the first newline of a read chunk (piped/file input lost lines 2..n) and wrote past its buffer for lines over 8 KiB", "regress/C17/*.json"),
 ("skipped one byte after", "C07", "after `1.` the lexer skipped a single byte: `1.é` left the cursor inside the character (diagnostic spans off character boundaries, from_utf8_unchecked on a split sequence)", "regress/C07/number-dot-multibyte.json"),
 ("invalid escape of a multi-byte", "C07", "an invalid escape of a multi-byte character (`\"a\\éb\"`) split the character: bad span, wrong character appended, cursor mid-sequence", "regress/C07/invalid-escape-multibyte.json"),
 ("hidden by the calling statement's own write", "C03", "block-level liveness noted a statement's write before its callees' capture reads: in `x get \"x\" add f()` with f reading x, an earlier `x get \"a\"` in a preceding block was pruned and f saw the stale value", "regress/C03/callee-read-hidden-by-own-write.json"),
 ("wrong number of arguments on a dynamically typed receiver", "C06", "a built-in method with the wrong number of arguments on a dynamically typed receiver (`x.slice(1)`, `x.push()`) indexed a missing argument (panic); now the `Invalid parameter count` runtime error", "regress/C06/method-arity-on-dynamic-receiver.json, push-without-argument-on-dynamic-receiver.json"),
 ("accepted an operand of a statically wrong type", "C09", "`and`/`or` with a null or dynamically typed operand skipped the check of the other operand: `null or 1`, `\"s\" and null`, `[1] or x[0]` were accepted (then `null or 1` always fails at run time and `1 or null` silently prints false)", "regress/C09/logical-operand-excused-by-null*.json"),
 ("classified as unable to fail and pruned", "C03", "operators, method calls and captured-variable reads on dynamically typed values were classed pure/non-trapping, so an unused `make u get a minus 1` was pruned together with the runtime error it raises", "regress/C03/dynamic-type-error-in-dead-store.json, captured-read-before-declaration-in-dead-store.json"),
]
out = []
for h, subj in fixes:
    hit = [t for t in TABLE if t[0] in subj]
    if len(hit) != 1:
        print("UNMAPPED fix commit:", h, subj)
        continue
    _, prop, what, replay = hit[0]
    out.append(f"fixed: property={prop} {h} {what}; replay {replay}")
d = json.load(open('/verif/known_findings.json'))
d['fixed'] = out
json.dump(d, open('/verif/known_findings.json', 'w'), indent=1, ensure_ascii=False)
print(len(out), "fixed records")
