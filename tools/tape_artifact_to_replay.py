#!/usr/bin/env python3
"""Converts a libFuzzer artifact of the `tape` target into a replay file for C01..C05."""
import sys, json
data = open(sys.argv[1], 'rb').read()
profile = ["general", "reclaim", "prune", "scope", "arrays"][data[0] % 5]
print(json.dumps({"property": sys.argv[2] if len(sys.argv) > 2 else "C01", "stage": "fuzz-triage", "input": {"tape": data[1:].hex(), "profile": profile}}))
