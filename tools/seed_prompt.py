"""Writes the task text for a seeding sub-agent: seed_prompt.py <ID> [round]. From round 2 on, the one-line
descriptions of the changes already kept for that property (seeded/<ID>-*/meta.json, field `change` only - nothing
about the checks) are listed so that the new changes differ from them."""
import json,sys,glob
pid=sys.argv[1]
rnd=int(sys.argv[2]) if len(sys.argv)>2 else 1
earlier=[json.load(open(f))['change'] for f in sorted(glob.glob(f'/verif/seeded/{pid}-*/meta.json'))] if rnd>1 else []
avoid=""
if earlier:
    avoid="\n\nEarlier rounds already produced the following changes for this property; yours must be in DIFFERENT mechanisms (different functions and a different kind of mistake), ideally touching parts of the statement or of the quantifier text that these do not touch:\n"+"".join(f"  - {c}\n" for c in earlier)
for l in open('/verif/properties.jsonl'):
    p=json.loads(l)
    if p['id']==pid: break
prop=json.dumps({k:p[k] for k in ('id','title','statement','quantifier','why_tests_cant','anchors')},indent=1,ensure_ascii=False)
print(f"""You are helping to evaluate a verification effort by producing realistic *breaking changes* ("seeded defects") for an open-source Rust project. You work ONLY inside your own scratch git worktree of the project at /tmp/seed-{pid} (branch-less checkout of the current HEAD of xosnrdev/naijascript: a small tree-walk interpreter for the Pidgin-English scripting language NaijaScript - lexer, Pratt parser, resolver/static checker with CFG/liveness analyses, runtime on a custom bump/scratch arena allocator, child-process support). Do not read or write anything under /verif or /repo, and do not look at other /tmp/seed-* directories. There is no network; build with `cargo ... --offline` inside your worktree (its own target/ directory; nightly toolchain is selected by rust-toolchain.toml). Start from README.md, docs/*.md and the source layout under src/.

Here is ONE semantic property that the project is supposed to satisfy (this record is everything you are given about the verification effort):

{prop}

{avoid}
YOUR TASK: produce TWO different, independent changes to the project's source (each a small patch to files under src/ - not to tests, docs or Cargo files) such that, for each change:
  1. the project still compiles (`cargo build --offline` and `cargo build --offline --release`, no new warnings needed to be avoided but no errors);
  2. the ENTIRE existing test-suite still passes, unedited: `cargo test --workspace --no-fail-fast --offline` (run it; all test binaries must report 0 failed);
  3. the change makes the property above FALSE for some inputs (a genuine violation of the statement as written, not merely a style/perf change and not a violation of some other property only);
  4. the violation needs something specific to manifest - prefer changes that ordinary use would NOT expose at once: a particular multi-step sequence of operations, an unusual but legitimate input (boundary size, multi-byte text, deep nesting level, specific operator mix), a particular interleaving/timing, a fault at a particular point, or two cooperating sites that each look fine alone. Think of the kind of plausible mistake a maintainer could make in a refactoring or an optimisation ("off by one at a boundary", "forgot to copy/promote in one path", "condition inverted for one enum variant", "cache not invalidated", "wrong operand order for a non-commutative case", "check moved after the use").  The two changes should be in different functions/mechanisms and differ in how hard they are to trigger.
  5. you provide a demonstration: a small NaijaScript program (`demo.ns`, run with `cargo run --offline --bin naija -- demo.ns`, optionally with stdin / a tiny shell driver `demo.sh`) or a Rust test file (`demo_test.rs` that can be dropped into tests/ and run with `cargo test --offline --test demo_test`) that FAILS (wrong output / crash / wrong exit status, as appropriate for the property) with the change applied and PASSES on the unchanged tree. State the expected output on the unchanged tree and the observed output with the change.

Deliverables (write them under /tmp/seed-{pid}/OUT/, one sub-directory per change: OUT/1/ and OUT/2/):
  - patch.diff  : `git diff` of the change against the unchanged HEAD (apply-able with `git apply` from the repository root; only that one change);
  - the demonstration file(s) (demo.ns and/or demo.sh and/or demo_test.rs);
  - NOTES.md : which sentence of the property the change breaks; what exactly is needed for it to manifest; the commands you ran and their results (test-suite summary line counts with the change applied; demo result with and without the change).
Work method: make change 1, run the full test-suite, run the demo, save `git diff > OUT/1/patch.diff`, then `git checkout -- .` (keep OUT/ - it is untracked), verify the demo passes on the clean tree, then do change 2 the same way. Leave the worktree clean (no applied change) at the end, but keep OUT/. If a candidate change makes an existing test fail, pick another one rather than weakening the test. Do not spend effort on hiding the change stylistically; realism of the mistake and specificity of the trigger are what matter.

Final answer: a short summary of both changes (file/function, what breaks, trigger) and confirmation that the deliverables exist.""")
