#!/usr/bin/env python3
"""Hand-made sensitivity mutation: replace OLD by NEW (exactly one occurrence) in /repo/<file>, run
the given checks (quick tier), revert.  usage: mutate.py <file> <old> <new> ID [ID...]"""
import subprocess, sys, time
f, old, new, ids = sys.argv[1], sys.argv[2], sys.argv[3], sys.argv[4:]
path = '/repo/' + f
if subprocess.run(['git', '-C', '/repo', 'diff', '--quiet']).returncode != 0:
    sys.exit('/repo is not clean')
s = open(path).read()
if s.count(old) != 1:
    sys.exit(f'pattern occurs {s.count(old)} times')
open(path, 'w').write(s.replace(old, new))
try:
    b = subprocess.run(['cargo', 'build', '--offline'], capture_output=True, text=True, cwd='/repo')
    if b.returncode != 0:
        print('DOES NOT COMPILE'); print(b.stderr[-800:])
    else:
        for i in ids:
            t = time.time()
            r = subprocess.run(['/verif/check', i, '--tier', 'quick'], capture_output=True, text=True, cwd='/verif')
            sigs = [l[4:150] for l in r.stdout.split('\n') if l.startswith('--- ')][:3]
            print(f'[{i}] exit={r.returncode} {time.time()-t:.0f}s', ' || '.join(sigs))
finally:
    subprocess.run(['git', '-C', '/repo', 'checkout', '--', f])
    # the binaries under /verif/target now contain the mutation: rebuild from the restored tree
    subprocess.run(['/verif/build.sh', 'all'], capture_output=True, cwd='/verif')
