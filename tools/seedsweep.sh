#!/bin/bash
# Runs every quick check under several VERIF_SEED values on the unchanged tree (through ./check,
# so binaries are rebuilt from /repo first). usage: tools/seedsweep.sh 2 3 4 ...  (log: out/seedsweep.log)
cd /verif
for seed in "$@"; do
  for id in C01 C02 C03 C04 C05 C06 C07 C08 C09 C10 C11 C12 C13 C14 C15 C16 C17 C18; do
    out=$(VERIF_SEED=$seed ./check $id 2>&1); code=$?
    echo "seed=$seed $id exit=$code $(echo "$out" | grep -E "^C[0-9]+ quick" | cut -c1-90) $(echo "$out" | grep -E "^(--- |INFRA|INCONCL)" | head -2 | cut -c1-200 | tr '\n' ' ')"
    if [ $code -ne 0 ]; then mkdir -p out/sweep-fail/$seed-$id; cp -r out/replays/$id out/sweep-fail/$seed-$id/ 2>/dev/null; echo "$out" | tail -60 > out/sweep-fail/$seed-$id/output.txt; fi
  done
done
echo SWEEP-DONE
