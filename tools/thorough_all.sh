#!/bin/bash
# Runs the thorough tier of the given checks one after the other on the unchanged tree.
# usage: tools/thorough_all.sh C01 C02 ...   (log: out/thorough.log; per check out/thorough-<ID>.log)
cd /verif
for id in "$@"; do
  START=$(date +%s)
  ./check $id --tier thorough > out/thorough-$id.log 2>&1; code=$?
  echo "$id exit=$code $(( $(date +%s) - START ))s $(grep -a -E "^C[0-9]+ thorough" out/thorough-$id.log | cut -c1-110) $(grep -a -E "^(--- |INFRA|INCONCL|KNOWN)" out/thorough-$id.log | sort | uniq -c | head -3 | cut -c1-160 | tr '\n' ' ')"
done
echo THOROUGH-DONE
