#!/usr/bin/env bash
# Confirms a seeded change in its scratch worktree: applies, builds, runs the repository's test-suite,
# runs the demo with and without the change. usage: confirm_seed.sh /tmp/seed-C04 1
set -u
WT="$1"; N="$2"; D="$WT/OUT/$N"
cd "$WT" || exit 2
git checkout -q -- . ; git apply --check "$D/patch.diff" || { echo "PATCH DOES NOT APPLY"; exit 1; }
echo "== clean tree demo"; if [ -f "$D/demo.sh" ]; then sh "$D/demo.sh" >/tmp/demo-clean.txt 2>&1; echo "exit=$?"; else cargo run -q --offline --bin naija -- "$D/demo.ns" >/tmp/demo-clean.txt 2>&1; echo "exit=$?"; fi; tail -3 /tmp/demo-clean.txt
git apply "$D/patch.diff"
echo "== build"; cargo build --offline 2>&1 | grep -E "^error|Finished" | head -3
echo "== tests with the change"; cargo test --workspace --no-fail-fast --offline 2>&1 | grep -E "^test result" | awk '{p+=$4; f+=$6} END {print "passed",p,"failed",f}'
echo "== demo with the change"; if [ -f "$D/demo.sh" ]; then sh "$D/demo.sh" >/tmp/demo-mut.txt 2>&1; echo "exit=$?"; else cargo run -q --offline --bin naija -- "$D/demo.ns" >/tmp/demo-mut.txt 2>&1; echo "exit=$?"; fi; tail -3 /tmp/demo-mut.txt
git checkout -q -- .
cmp -s /tmp/demo-clean.txt /tmp/demo-mut.txt && echo "DEMO OUTPUT IDENTICAL (demo does not distinguish)" || echo "demo output differs"
