#!/usr/bin/env bash
# Confirms a seeded change in its scratch worktree: applies, builds, runs the repository's test-suite,
# runs the demo with and without the change. usage: confirm_seed.sh /tmp/seed-C04 1
set -u
WT="$1"; N="$2"; D="$WT/OUT/$N"
cd "$WT" || exit 2
git checkout -q -- . ; git apply --check "$D/patch.diff" || { echo "PATCH DOES NOT APPLY"; exit 1; }
rundemo() {
  if [ -f "$D/demo.sh" ]; then sh "$D/demo.sh" >"$1" 2>&1; echo "exit=$?";
  elif [ -f "$D/demo.ns" ]; then cargo run -q --offline --bin naija -- "$D/demo.ns" >"$1" 2>&1; echo "exit=$?";
  else cp "$D/demo_test.rs" tests/demo_test.rs; [ -f "$D/demo.ns" ] && cp "$D/demo.ns" tests/; cargo test -q --offline --features verif --test demo_test >"$1" 2>&1; echo "exit=$?"; rm -f tests/demo_test.rs; fi
}
echo "== clean tree demo"; rundemo /tmp/demo-clean.$$.txt; tail -3 /tmp/demo-clean.$$.txt
git apply "$D/patch.diff"
echo "== build"; cargo build --offline 2>&1 | grep -E "^error|Finished" | head -3
echo "== tests with the change"; cargo test --workspace --no-fail-fast --offline 2>&1 | grep -E "^test result" | awk '{p+=$4; f+=$6} END {print "passed",p,"failed",f}'
echo "== demo with the change"; rundemo /tmp/demo-mut.$$.txt; tail -3 /tmp/demo-mut.$$.txt
git checkout -q -- .
cmp -s /tmp/demo-clean.$$.txt /tmp/demo-mut.$$.txt && echo "DEMO OUTPUT IDENTICAL (demo does not distinguish)" || echo "demo output differs"
rm -f /tmp/demo-clean.$$.txt /tmp/demo-mut.$$.txt
