#!/usr/bin/env bash
# Applies a seeded patch to /repo, runs the given checks (quick tier), reverts. usage: try_seed.sh <patch> C04 [C01 ...]
set -u
PATCH="$1"; shift
cd /repo && git diff --quiet || { echo "/repo is not clean"; exit 2; }
git -C /repo apply "$PATCH" || exit 2
for ID in "$@"; do
  START=$(date +%s)
  OUT=$(cd /verif && timeout 1500 ./check "$ID" --tier quick 2>&1); CODE=$?; pkill -x nsverif 2>/dev/null
  echo "[$ID] exit=$CODE in $(( $(date +%s) - START ))s :: $(echo "$OUT" | grep -E "^--- " | head -3 | cut -c1-160 | tr '\n' ' ')"
done
git -C /repo checkout -- .
# the binaries under /verif/target now contain the change: rebuild them from the restored tree
(cd /verif && ./build.sh all > out/build-after-seed.log 2>&1) || echo "rebuild after revert FAILED (out/build-after-seed.log)"
