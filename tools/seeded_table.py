#!/usr/bin/env python3
"""Prints the DESIGN.md 6.6 table from seeded/*/meta.json."""
import json, glob, os
rows = []
for f in sorted(glob.glob(os.path.join(os.path.dirname(__file__), '..', 'seeded', '*', 'meta.json'))):
    m = json.load(open(f))
    esc = lambda t: t.replace('|', '\\|')
    caught = '; '.join(f"**{k}**: {esc(v)}" for k, v in m['caught_by'].items())
    rows.append(f"| {m['id']} | {m['change']} | {m['needs_to_manifest']} | {caught} |")
print("| seed | change (file / mechanism) | needs, in order to manifest | caught by (quick tier, seed 1) |")
print("|---|---|---|---|")
print('\n'.join(rows))
