#!/usr/bin/env python3
"""Prints the DESIGN.md 6.6 table from seeded/*/meta.json; with --update rewrites it in DESIGN.md
between the seeded-table markers."""
import json, glob, os, sys
root = os.path.join(os.path.dirname(os.path.abspath(__file__)), '..')
rows = []
esc = lambda t: t.replace('|', '\\|')
for f in sorted(glob.glob(os.path.join(root, 'seeded', '*', 'meta.json'))):
    m = json.load(open(f))
    caught = '; '.join(f"**{k}**: {esc(v)}" for k, v in m['caught_by'].items())
    rows.append(f"| {m['id']} | {esc(m['change'])} | {esc(m['needs_to_manifest'])} | {caught} |")
table = "| seed | change (file / mechanism) | needs, in order to manifest | caught by (quick tier, seed 1) |\n|---|---|---|---|\n" + '\n'.join(rows) + '\n'
if '--update' in sys.argv:
    p = os.path.join(root, 'DESIGN.md')
    s = open(p).read()
    a = s.index('<!-- seeded-table:begin')
    a = s.index('\n', a) + 1
    b = s.index('<!-- seeded-table:end -->')
    open(p, 'w').write(s[:a] + table + s[b:])
    print(f"{len(rows)} rows written")
else:
    sys.stdout.write(table)
