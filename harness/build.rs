//! Derives a native copy of the web playground's entry point (wasm/src/lib.rs::run_source)
//! so that C14 tests the real file, not a hand-written replica: the wasm-only attributes are
//! stripped and the ANSI -> HTML conversion is replaced by the identity. If the file no longer
//! has the expected shape, `DERIVED` is false and the C14 check reports an infrastructure
//! error (exit 2) instead of silently testing something else.

use std::path::PathBuf;

fn main() {
    let repo = std::env::var("VERIF_REPO").unwrap_or_else(|_| "/repo".to_string());
    let src_path = PathBuf::from(&repo).join("wasm/src/lib.rs");
    println!("cargo:rerun-if-changed={}", src_path.display());
    println!("cargo:rerun-if-env-changed=VERIF_REPO");
    let out = PathBuf::from(std::env::var("OUT_DIR").unwrap()).join("playground.rs");
    let stub = "pub const DERIVED: bool = false;\npub fn run_source(_src: &str, _filename: &str) -> String { String::new() }\n";
    let Ok(text) = std::fs::read_to_string(&src_path) else {
        std::fs::write(&out, stub).unwrap();
        return;
    };
    let mut ok = true;
    let mut t = text;
    for (pat, rep) in [
        ("#![cfg(target_family = \"wasm\")]", ""),
        ("use wasm_bindgen::prelude::*;", ""),
        ("#[wasm_bindgen]", ""),
        ("ansi_to_html::convert(ansi).unwrap()", "ansi.to_string()"),
    ] {
        if !t.contains(pat) {
            ok = false;
        }
        t = t.replace(pat, rep);
    }
    if !t.contains("pub fn run_source(src: &str, filename: &str) -> String") {
        ok = false;
    }
    if ok {
        std::fs::write(&out, format!("pub const DERIVED: bool = true;\n{t}")).unwrap();
    } else {
        std::fs::write(&out, stub).unwrap();
    }
}
