//! Fork-per-case isolation with a watchdog.
//!
//! Several defects in the code under test abort the process without unwinding
//! (debug UB-precondition checks, native stack overflow, `assert!` inside
//! `extern` frames), so a case is never run in the driver process. The shard
//! processes are single-threaded, which makes `fork()` safe here.
//!
//! Protocol on the result pipe: frames `[tag u8][len u32 LE][payload]`.
//! Tag `R` = a result frame written by the case body, tag `P` = panic message
//! written by the global panic hook right before `_exit(101)`.

use std::io::Write as _;
use std::os::fd::RawFd;
use std::sync::atomic::{AtomicI32, Ordering};
use std::time::{Duration, Instant};

static CHILD_FD: AtomicI32 = AtomicI32::new(-1);

#[derive(Debug, Clone, PartialEq, Eq)]
pub enum End {
    /// Child called `_exit(code)` (0 = body returned normally, 101 = panic).
    Exited(i32),
    /// Child was killed by a signal (SIGSEGV, SIGABRT, ...).
    Signaled(i32),
    /// Watchdog fired; the child was SIGKILLed.
    Timeout,
}

#[derive(Debug, Clone)]
pub struct Iso {
    pub frames: Vec<Vec<u8>>,
    pub panic: Option<String>,
    pub end: End,
    /// tail of what the child wrote to stderr (abort messages of the runtime land here)
    pub stderr: String,
}

impl Iso {
    pub fn clean(&self) -> bool {
        self.end == End::Exited(0) && self.panic.is_none()
    }

    /// Short, location-free description of an abnormal end.
    pub fn crash_kind(&self) -> Option<String> {
        if let Some(p) = &self.panic {
            return Some(format!("panic: {}", normalise_panic(p)));
        }
        match self.end {
            End::Exited(0) => None,
            End::Exited(c) => Some(format!("exit {c}")),
            End::Signaled(s) => {
                // aborts that std reports on stderr without unwinding
                if self.stderr.contains("memory allocation of") {
                    Some("memory allocation of N bytes failed (abort)".to_string())
                } else if self.stderr.contains("has overflowed its stack") {
                    Some(format!("native stack overflow ({})", signal_name(s)))
                } else {
                    // first non-empty stderr line (e.g. std's "unsafe precondition(s) violated" abort)
                    let line = self
                        .stderr
                        .lines()
                        .map(str::trim)
                        .find(|l| !l.is_empty() && !l.starts_with("note:") && !l.starts_with("stack backtrace"))
                        .unwrap_or("");
                    if line.is_empty() {
                        Some(format!("signal {}", signal_name(s)))
                    } else {
                        Some(format!("signal {}: {}", signal_name(s), normalise_panic(line)))
                    }
                }
            }
            End::Timeout => Some("timeout".to_string()),
        }
    }
}

pub fn signal_name(s: i32) -> String {
    match s {
        libc::SIGSEGV => "SIGSEGV".into(),
        libc::SIGABRT => "SIGABRT".into(),
        libc::SIGBUS => "SIGBUS".into(),
        libc::SIGILL => "SIGILL".into(),
        libc::SIGFPE => "SIGFPE".into(),
        libc::SIGKILL => "SIGKILL".into(),
        libc::SIGTRAP => "SIGTRAP".into(),
        n => format!("SIG{n}"),
    }
}

/// Removes numbers that vary with the input from panic messages so that one
/// defect has one message (e.g. index-out-of-bounds lengths).
pub fn normalise_panic(msg: &str) -> String {
    let first = msg.lines().next().unwrap_or("");
    let mut out = String::with_capacity(first.len());
    let mut in_digits = false;
    for ch in first.chars() {
        if ch.is_ascii_digit() {
            if !in_digits {
                out.push('N');
                in_digits = true;
            }
        } else {
            in_digits = false;
            out.push(ch);
        }
    }
    if out.len() > 160 {
        let mut cut = 160;
        while !out.is_char_boundary(cut) {
            cut -= 1;
        }
        out.truncate(cut);
    }
    out
}

/// Installs the process-wide panic hook. Must be called once at start-up of
/// every process that uses [`run`].
pub fn install_panic_hook() {
    let default = std::panic::take_hook();
    std::panic::set_hook(Box::new(move |info| {
        let fd = CHILD_FD.load(Ordering::Relaxed);
        if fd >= 0 {
            let msg = if let Some(s) = info.payload().downcast_ref::<&str>() {
                (*s).to_string()
            } else if let Some(s) = info.payload().downcast_ref::<String>() {
                s.clone()
            } else {
                "<non-string panic payload>".to_string()
            };
            // first line: message plus the source file of the panic (no line number: signatures
            // must survive unrelated edits)
            let file = info.location().map_or("?", |l| l.file());
            let file = file.strip_prefix("/repo/").unwrap_or(file);
            // "/rustc/<commit hash>/library/..." -> "library/..."
            let file = file.strip_prefix("/rustc/").and_then(|f| f.split_once('/')).map_or(file, |(_, rest)| rest);
            let mut lines = msg.lines();
            let mut msg = format!("{} (in {file})", lines.next().unwrap_or(""));
            for l in lines {
                msg.push('\n');
                msg.push_str(l);
            }
            write_frame_fd(fd, b'P', msg.as_bytes());
            unsafe { libc::_exit(101) };
        }
        default(info);
    }));
}

fn write_all_fd(fd: RawFd, mut buf: &[u8]) {
    while !buf.is_empty() {
        let n = unsafe { libc::write(fd, buf.as_ptr().cast(), buf.len()) };
        if n < 0 {
            let e = std::io::Error::last_os_error();
            if e.kind() == std::io::ErrorKind::Interrupted {
                continue;
            }
            return;
        }
        buf = &buf[n as usize..];
    }
}

fn write_frame_fd(fd: RawFd, tag: u8, payload: &[u8]) {
    let mut head = [0u8; 5];
    head[0] = tag;
    head[1..5].copy_from_slice(&(payload.len() as u32).to_le_bytes());
    write_all_fd(fd, &head);
    write_all_fd(fd, payload);
}

/// Handle given to the case body for streaming result frames to the parent.
pub struct Out {
    fd: RawFd,
}

impl Out {
    pub fn frame(&mut self, payload: &[u8]) {
        write_frame_fd(self.fd, b'R', payload);
    }
}

/// Options for one isolated run.
#[derive(Clone, Copy)]
pub struct Opts {
    pub timeout: Duration,
    /// Keep the child's stdout/stderr attached (default: /dev/null).
    pub keep_stdio: bool,
}

impl Default for Opts {
    fn default() -> Self {
        Self { timeout: Duration::from_secs(10), keep_stdio: false }
    }
}

/// Runs `body` in a forked child and collects its frames.
pub fn run<F: FnOnce(&mut Out)>(opts: Opts, body: F) -> Iso {
    let mut fds = [0 as RawFd; 2];
    if unsafe { libc::pipe(fds.as_mut_ptr()) } != 0 {
        panic!("pipe failed: {}", std::io::Error::last_os_error());
    }
    let (rd, wr) = (fds[0], fds[1]);
    // anonymous file that receives the child's stderr
    let efd = unsafe { libc::memfd_create(c"nsverif-child-stderr".as_ptr(), 0) };
    // Flush our own buffered stdout so the child does not re-emit it.
    let _ = std::io::stdout().flush();
    let pid = unsafe { libc::fork() };
    if pid < 0 {
        panic!("fork failed: {}", std::io::Error::last_os_error());
    }
    if pid == 0 {
        // Child.
        unsafe { libc::close(rd) };
        CHILD_FD.store(wr, Ordering::Relaxed);
        if !opts.keep_stdio {
            let devnull = unsafe { libc::open(c"/dev/null".as_ptr(), libc::O_RDWR) };
            if devnull >= 0 {
                unsafe {
                    libc::dup2(devnull, 1);
                    libc::dup2(if efd >= 0 { efd } else { devnull }, 2);
                    libc::dup2(devnull, 0);
                }
            }
        }
        let mut out = Out { fd: wr };
        body(&mut out);
        let _ = std::io::stdout().flush();
        unsafe { libc::_exit(0) };
    }
    // Parent.
    unsafe { libc::close(wr) };
    let deadline = Instant::now() + opts.timeout;
    let mut buf: Vec<u8> = Vec::new();
    let mut timed_out = false;
    let mut chunk = [0u8; 65536];
    loop {
        let now = Instant::now();
        if now >= deadline {
            timed_out = true;
            break;
        }
        let left = (deadline - now).as_millis().min(i32::MAX as u128) as i32;
        let mut pfd = libc::pollfd { fd: rd, events: libc::POLLIN, revents: 0 };
        let r = unsafe { libc::poll(&mut pfd, 1, left.max(1)) };
        if r < 0 {
            let e = std::io::Error::last_os_error();
            if e.kind() == std::io::ErrorKind::Interrupted {
                continue;
            }
            break;
        }
        if r == 0 {
            continue;
        }
        let n = unsafe { libc::read(rd, chunk.as_mut_ptr().cast(), chunk.len()) };
        if n < 0 {
            let e = std::io::Error::last_os_error();
            if e.kind() == std::io::ErrorKind::Interrupted {
                continue;
            }
            break;
        }
        if n == 0 {
            break; // EOF: child closed the pipe (exited)
        }
        buf.extend_from_slice(&chunk[..n as usize]);
    }
    unsafe { libc::close(rd) };
    if timed_out {
        unsafe { libc::kill(pid, libc::SIGKILL) };
    }
    let mut status = 0i32;
    loop {
        let r = unsafe { libc::waitpid(pid, &mut status, 0) };
        if r < 0 && std::io::Error::last_os_error().kind() == std::io::ErrorKind::Interrupted {
            continue;
        }
        break;
    }
    let end = if timed_out {
        End::Timeout
    } else if libc::WIFSIGNALED(status) {
        End::Signaled(libc::WTERMSIG(status))
    } else {
        End::Exited(libc::WEXITSTATUS(status))
    };
    let mut stderr = String::new();
    if efd >= 0 {
        let size = unsafe { libc::lseek(efd, 0, libc::SEEK_END) };
        if size > 0 {
            // head (where the abort message is) and tail
            let read_at = |off: i64, want: usize| -> String {
                let mut ebuf = vec![0u8; want];
                let n = unsafe { libc::pread(efd, ebuf.as_mut_ptr().cast(), want, off) };
                if n > 0 { String::from_utf8_lossy(&ebuf[..n as usize]).into_owned() } else { String::new() }
            };
            let size = size as usize;
            if size <= 8192 {
                stderr = read_at(0, size);
            } else {
                stderr = read_at(0, 4096);
                stderr.push_str("\n[...]\n");
                stderr.push_str(&read_at((size - 4096) as i64, 4096));
            }
        }
        unsafe { libc::close(efd) };
    }
    let mut frames = Vec::new();
    let mut panic = None;
    let mut i = 0usize;
    while i + 5 <= buf.len() {
        let tag = buf[i];
        let len = u32::from_le_bytes([buf[i + 1], buf[i + 2], buf[i + 3], buf[i + 4]]) as usize;
        if i + 5 + len > buf.len() {
            break;
        }
        let payload = buf[i + 5..i + 5 + len].to_vec();
        match tag {
            b'R' => frames.push(payload),
            b'P' => panic = Some(String::from_utf8_lossy(&payload).into_owned()),
            _ => {}
        }
        i += 5 + len;
    }
    Iso { frames, panic, end, stderr }
}
