//! Per-shard bookkeeping: counters, classes, samples, failures, known findings.

use std::collections::{BTreeMap, BTreeSet};
use std::path::PathBuf;

use serde_json::{Value as J, json};

use crate::findings::Known;

#[derive(Debug, Clone, Copy, PartialEq, Eq)]
pub enum Tier {
    Quick,
    Thorough,
}

impl Tier {
    pub fn as_str(self) -> &'static str {
        match self {
            Tier::Quick => "quick",
            Tier::Thorough => "thorough",
        }
    }
    pub fn parse(s: &str) -> Tier {
        if s == "thorough" { Tier::Thorough } else { Tier::Quick }
    }
    /// Picks the work size for this tier.
    pub fn pick<T>(self, quick: T, thorough: T) -> T {
        match self {
            Tier::Quick => quick,
            Tier::Thorough => thorough,
        }
    }
}

/// A property failure, already reduced to a signature.
#[derive(Debug, Clone)]
pub struct Failure {
    /// `kind | normalised message | semantic class` (property id is added by the ctx).
    pub sig: String,
    /// Human readable description (expected vs actual).
    pub what: String,
    /// Everything needed to re-run the oracle on this input.
    pub input: J,
}

#[derive(Debug, Clone)]
pub enum Outcome {
    Pass,
    /// Case not comparable (unspecified zone, resource exhaustion, ...).
    Discard(&'static str),
    Fail(Failure),
}

#[derive(Debug, Clone)]
pub struct Violation {
    pub sig: String,
    pub what: String,
    pub replay: PathBuf,
}

pub struct ShardCtx {
    pub prop: String,
    pub tier: Tier,
    pub seed: u64,
    pub shard: u32,
    pub of: u32,
    pub known: Known,
    pub out_dir: PathBuf,

    pub evaluations: u64,
    pub nontrivial: BTreeSet<u64>,
    pub classes: BTreeMap<String, u64>,
    pub discards: BTreeMap<String, u64>,
    pub known_hits: BTreeMap<String, u64>,
    pub samples: Vec<J>,
    pub sample_classes: BTreeSet<String>,
    pub violations: Vec<Violation>,
    pub notes: Vec<String>,
    pub exhaustive: Option<bool>,
    pub inconclusive: u64,
    /// While true (proptest is shrinking) nothing is counted.
    pub frozen: bool,
    /// shrink budget of the next proptest stage (expensive oracles lower it)
    pub max_shrink_iters: u32,
}

impl ShardCtx {
    pub fn new(prop: &str, tier: Tier, seed: u64, shard: u32, of: u32, out_dir: PathBuf) -> Self {
        Self {
            prop: prop.to_string(),
            tier,
            seed,
            shard,
            of,
            known: Known::load(prop),
            out_dir,
            evaluations: 0,
            nontrivial: BTreeSet::new(),
            classes: BTreeMap::new(),
            discards: BTreeMap::new(),
            known_hits: BTreeMap::new(),
            samples: Vec::new(),
            sample_classes: BTreeSet::new(),
            violations: Vec::new(),
            notes: Vec::new(),
            exhaustive: None,
            inconclusive: 0,
            frozen: false,
            max_shrink_iters: 1500,
        }
    }

    /// Seed for a named stage of this shard (pure function of VERIF_SEED, shard, name).
    pub fn stage_seed(&self, stage: &str) -> u64 {
        let mut h = crate::util::Fnv::new();
        h.write_u64(self.seed);
        h.write_u64(u64::from(self.shard));
        h.write(stage.as_bytes());
        h.finish()
    }

    pub fn eval(&mut self) {
        if !self.frozen {
            self.evaluations += 1;
        }
    }

    pub fn evals(&mut self, n: u64) {
        if !self.frozen {
            self.evaluations += n;
        }
    }

    pub fn nontrivial(&mut self, hash: u64) {
        if !self.frozen {
            self.nontrivial.insert(hash);
        }
    }

    pub fn class(&mut self, name: &str) {
        if !self.frozen {
            *self.classes.entry(name.to_string()).or_insert(0) += 1;
        }
    }

    pub fn class_n(&mut self, name: &str, n: u64) {
        if !self.frozen {
            *self.classes.entry(name.to_string()).or_insert(0) += n;
        }
    }

    pub fn discard(&mut self, why: &str) {
        if !self.frozen {
            *self.discards.entry(why.to_string()).or_insert(0) += 1;
        }
    }

    /// Keeps the first sample of each sample-class (bounded).
    pub fn sample(&mut self, class: &str, v: J) {
        if self.frozen || self.samples.len() >= 6 || self.sample_classes.contains(class) {
            return;
        }
        self.sample_classes.insert(class.to_string());
        self.samples.push(json!({"class": class, "case": v}));
    }

    pub fn note(&mut self, s: impl Into<String>) {
        self.notes.push(s.into());
    }

    pub fn full_sig(&self, sig: &str) -> String {
        format!("{}|{}", self.prop, sig)
    }

    /// True when the failure matches an open known finding (and counts the hit).
    pub fn is_known(&mut self, f: &Failure) -> bool {
        let full = self.full_sig(&f.sig);
        if let Some(id) = self.known.matches(&full) {
            if !self.frozen {
                *self.known_hits.entry(id).or_insert(0) += 1;
            }
            true
        } else {
            false
        }
    }

    /// Records a new violation: writes the replay file and remembers it.
    pub fn violation(&mut self, stage: &str, f: &Failure) {
        let full = self.full_sig(&f.sig);
        if self.violations.iter().any(|v| v.sig == full) {
            return;
        }
        let dir = self.out_dir.join("replays").join(&self.prop);
        let _ = std::fs::create_dir_all(&dir);
        let mut h = crate::util::Fnv::new();
        h.write(full.as_bytes());
        let path = dir.join(format!("{:016x}.json", h.finish()));
        let doc = json!({
            "property": self.prop,
            "stage": stage,
            "signature": full,
            "what": f.what,
            "seed": self.seed,
            "input": f.input,
        });
        let _ = std::fs::write(&path, serde_json::to_vec_pretty(&doc).unwrap());
        if let Some(src) = f.input.get("source").and_then(J::as_str) {
            let _ = std::fs::write(path.with_extension("ns"), src);
        }
        self.violations.push(Violation { sig: full, what: f.what.clone(), replay: path });
    }

    /// Handles an outcome from a non-proptest (enumerated / replayed) case.
    pub fn handle(&mut self, stage: &str, outcome: Outcome) {
        match outcome {
            Outcome::Pass => {}
            Outcome::Discard(why) => self.discard(why),
            Outcome::Fail(f) => {
                if !self.is_known(&f) {
                    self.violation(stage, &f);
                }
            }
        }
    }

    pub fn to_json(&self) -> J {
        json!({
            "prop": self.prop,
            "shard": self.shard,
            "evaluations": self.evaluations,
            "nontrivial": self.nontrivial.iter().copied().collect::<Vec<u64>>(),
            "classes": self.classes,
            "discards": self.discards,
            "known_hits": self.known_hits,
            "samples": self.samples,
            "notes": self.notes,
            "exhaustive": self.exhaustive,
            "inconclusive": self.inconclusive,
            "violations": self.violations.iter().map(|v| json!({
                "sig": v.sig, "what": v.what, "replay": v.replay.to_string_lossy(),
            })).collect::<Vec<_>>(),
        })
    }
}
