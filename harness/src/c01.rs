//! C01 - Program results equal the documented language semantics.
//! Generated `general`-profile programs, implementation in mode FP vs reference interpreter R.

use serde_json::Value as J;

use crate::ctx::{Outcome, ShardCtx};
use crate::driver::Check;
use crate::pipeline::Mode;
use crate::progs::*;

pub struct C01;

pub const PROFILE: &str = "general";

pub fn check_case(ctx: &mut ShardCtx, tape: &[u8], profile: &str) -> Outcome {
    let p = prepare(tape, profile);
    ctx.eval();
    let r = match preflight(ctx, &p) {
        Ok(r) => r,
        Err(o) => return o,
    };
    classify_features(ctx, &p.features);
    // R's step count bounds the work only when R followed the program to its end
    let budget = if r.ambiguous.is_none() { budget_for(r.stats.steps) } else { WORK_BUDGET };
    let res = run_impl_budget(&p.source, &[Mode::FP], false, budget, &[]);
    let obs = match &res[0] {
        crate::pipeline::ModeResult::Ok(o) => o,
        crate::pipeline::ModeResult::Crash(c) => {
            if is_arena_exhaustion(c) {
                ctx.inconclusive += 1;
                return Outcome::Discard("U8 arena exhaustion");
            }
            if c == "timeout" {
                ctx.inconclusive += 1;
                return Outcome::Discard("U8 watchdog");
            }
            if is_work_budget(c) && r.ambiguous.is_some() {
                return Outcome::Discard("U8 work budget (reference stopped at an unspecified zone)");
            }
            if is_work_budget(c) {
                // R finished within 200 k steps; the implementation did 3 M units of work and was still going
                return fail(
                    format!("runs-on|reference ends {}", ending_name(&r.ending)),
                    format!(
                        "the reference interpreter ends ({}) after {} steps and {} values; the implementation was still running after {budget} executed statements + loop iterations",
                        ending_name(&r.ending),
                        r.stats.steps,
                        r.output.len()
                    ),
                    tape,
                    profile,
                    &p.source,
                );
            }
            return fail(
                format!("crash|{c}"),
                format!("the interpreter crashed ({c}) on a valid program; reference ends {} after {} values", ending_name(&r.ending), r.output.len()),
                tape,
                profile,
                &p.source,
            );
        }
    };
    if obs.accepted() && is_resource_ending(obs) {
        return Outcome::Discard("U8 implementation stack budget");
    }
    // non-trivial: >= 3 printed values or an error ending, and >= 2 feature kinds exercised
    let kinds = [
        r.stats.loop_iterations > 0,
        r.stats.calls > 0,
        r.stats.string_ops > 0,
        r.stats.array_ops > 0,
        r.stats.interpolations > 0,
    ]
    .iter()
    .filter(|b| **b)
    .count();
    let nontrivial =
        (r.output.len() >= 3 || matches!(r.ending, crate::nsgen::refint::Ending::Error(_))) && kinds >= 2;
    if nontrivial {
        ctx.nontrivial(source_hash(&p.source));
        ctx.sample("non-trivial program", J::String(p.source.clone()));
    }
    if matches!(r.ending, crate::nsgen::refint::Ending::Error(_)) {
        ctx.class(&format!("ends with runtime error: {}", ending_name(&r.ending)));
    }
    if let Some(zone) = r.ambiguous {
        ctx.discard(&format!("unspecified zone (prefix still compared): {zone}"));
    }
    match compare_with_reference(&r, obs, "FP") {
        Ok(()) => Outcome::Pass,
        Err((sig, what)) => fail(sig, what, tape, profile, &p.source),
    }
}

impl Check for C01 {
    fn id(&self) -> &'static str {
        "C01"
    }
    fn rule(&self) -> String {
        "Programs are generated from a choice tape (proptest Vec<u8>, 0..700 bytes) by the intent-typed \
         `general` profile of nsgen (plus smaller stages with the `scope` and `reclaim` profiles) (numbers, strings with escapes and placeholders, booleans, null, nested \
         arrays, redeclaration, blocks, if/else, counter loops with comot/next, recursive / mutually recursive / \
         nested / forward-referenced functions, all documented built-ins and methods, planted runtime errors), \
         printed to source text and run through lexer+parser+resolver+runtime (frame arena, pool, optimisation \
         plan). Oracle: the reference interpreter R over nsgen's own AST; every printed value, their count and \
         the ending are compared. Non-trivial: R printed >= 3 values or ended in a runtime error, and at least two \
         of {loop iteration, user call, string op, array op, interpolation} happened at run time (measured by R). \
         Distinct by source text. Runs entering an unspecified zone (U-list) are compared up to that point only."
            .into()
    }
    fn assumptions(&self) -> Vec<String> {
        vec![
            "the reference interpreter R (harness/src/nsgen/refint.rs) restates docs/*.md; unspecified zones U1-U10 are never asserted".into(),
            "number -> text uses the shortest round-trip decimal (Rust `{}`), non-finite and -0 excluded".into(),
            "string ordering is by code point; boolean/null ordering and array -> text are unspecified".into(),
        ]
    }
    fn shard(&self, ctx: &mut ShardCtx) {
        let cases = ctx.tier.pick(9_000, 120_000);
        crate::prop::run(ctx, "general", cases, tape_strategy(700), |ctx, tape| {
            check_case(ctx, tape, PROFILE)
        });
        // name reuse, deep nesting and captures are part of "all well-formed programs" as well
        let n_scope = ctx.tier.pick(3_000, 40_000);
        crate::prop::run(ctx, "scope", n_scope, tape_strategy(700), |ctx, tape| check_case(ctx, tape, "scope"));
        let n_reclaim = ctx.tier.pick(2_000, 30_000);
        crate::prop::run(ctx, "reclaim", n_reclaim, tape_strategy(700), |ctx, tape| check_case(ctx, tape, "reclaim"));
        tape_triage(ctx, check_case);
    }
    fn replay(&self, ctx: &mut ShardCtx, _stage: &str, input: &J) -> Outcome {
        if let Some(src) = input.get("raw_source").and_then(J::as_str) {
            return check_raw(src, input);
        }
        match tape_from_input(input) {
            Some((tape, profile)) => check_case(ctx, &tape, &profile),
            None => Outcome::Discard("unreadable replay input"),
        }
    }
}

/// Regression inputs written by hand: `raw_source` plus the expected printed values
/// (display form, one string per value) and expected runtime error message (or null).
pub fn check_raw(src: &str, input: &J) -> Outcome {
    let res = run_impl(src, &[Mode::FP], false);
    let mk = |sig: String, what: String| {
        Outcome::Fail(crate::ctx::Failure {
            sig,
            what: format!("{what}\n--- program ---\n{src}"),
            input: input.clone(),
        })
    };
    let obs = match &res[0] {
        crate::pipeline::ModeResult::Ok(o) => o,
        crate::pipeline::ModeResult::Crash(c) => return mk(format!("crash|{c}"), format!("crash: {c}")),
    };
    if !obs.accepted() {
        let first = obs.front_errors().first().map(|d| d.text()).unwrap_or_default();
        return mk("reject|raw".into(), format!("rejected: {first}"));
    }
    let want: Vec<String> = input
        .get("expect_output")
        .and_then(J::as_array)
        .map(|a| a.iter().filter_map(J::as_str).map(str::to_string).collect())
        .unwrap_or_default();
    let got: Vec<String> = obs.output.iter().map(crate::pipeline::NVal::show).collect();
    if want != got {
        return mk("mismatch|output|raw".into(), format!("expected {want:?}, got {got:?}"));
    }
    let want_err = input.get("expect_error").and_then(J::as_str);
    if want_err != obs.rt_error() {
        return mk("mismatch|ending|raw".into(), format!("expected ending {want_err:?}, got {:?}", obs.rt_error()));
    }
    Outcome::Pass
}
