//! C08 - Running out of depth is reported, not a native crash.
//!
//! Subject: the shipped `naija` binary (dev and release builds) with `RLIMIT_STACK` = 8 MiB.
//! Generator: recursion shapes x depth x build -
//!   (A) run-time recursion cycles assembled from a grammar of "ways to get from one
//!       evaluation to the next" (1..4 functions, bounded-deep or unbounded),
//!   (B) source-nesting shapes that never recurse at run time,
//!   (C) data nested at run time by a loop and then copied / printed / joined / passed ...
//! Oracle: the process ends by itself with status 0 or 1, and status 1 comes with a
//! diagnostic on stdout. Death by SIGSEGV/SIGBUS, or SIGABRT with "has overflowed its
//! stack", is a violation; its signature is `native-crash|<stage>|<construct>|<build>` where
//! the stage says whether anything had been executed (a marker is printed first).
//! Every crash is bisected to the smallest crashing depth, and the signature is taken there.

use std::ffi::OsString;
use std::time::Duration;

use proptest::prelude::*;
use proptest::strategy::ValueTree;
use proptest::test_runner::TestRunner;
use serde_json::{Value as J, json};

use crate::ctx::{Failure, Outcome, ShardCtx, Tier};
use crate::driver::{Bin, Check, ShardSpec};
use crate::proc::{self, Build, End, TempDir};
use crate::util::{Fnv, hash_str};

pub struct C08;

const MAX_SOURCE: usize = 8 << 20;
const TIMEOUT_S: u64 = 60;
/// Printed by the first statement of every program; the source spells it in two halves so
/// that a diagnostic quoting the source line can never be mistaken for it.
const MARKER: &[u8] = b"M4RK";
const MARKER_STMT: &str = "shout(\"M4\" add \"RK\")\n";
/// Data nesting is built by `a get [a]`, which copies: O(depth^2) time and arena space.
const MAX_DATA_DEPTH: u64 = 3500;
/// Upper end of the search for the depth at which the guard starts to fire.
const EDGE_MAX_DEPTH: u64 = 262_144;
/// Operations whose implementation recurses natively over nested data.
const EDGE_OPS: [DataOp; 8] = [
    DataOp::Print,
    DataOp::Copy,
    DataOp::ToString,
    DataOp::Join,
    DataOp::Interp,
    DataOp::Pass,
    DataOp::Push,
    DataOp::IndexStore,
];

// ------------------------------------------------------------------ shapes --

#[derive(Debug, Clone, Copy, PartialEq, Eq)]
pub enum Nest {
    Paren,
    UnaryChain,
    BinaryLeft,
    BinaryRight,
    ArrayLiteral,
    IndexNesting,
    IndexChain,
    CallArgs,
    MethodChain,
    Blocks,
    Ifs,
    ElseChain,
    Loops,
    FunctionDefs,
    MixedExpr,
    MixedStmt,
}

pub const NESTS: [Nest; 16] = [
    Nest::Paren,
    Nest::UnaryChain,
    Nest::BinaryLeft,
    Nest::BinaryRight,
    Nest::ArrayLiteral,
    Nest::IndexNesting,
    Nest::IndexChain,
    Nest::CallArgs,
    Nest::MethodChain,
    Nest::Blocks,
    Nest::Ifs,
    Nest::ElseChain,
    Nest::Loops,
    Nest::FunctionDefs,
    Nest::MixedExpr,
    Nest::MixedStmt,
];

impl Nest {
    pub fn name(self) -> &'static str {
        match self {
            Nest::Paren => "paren-nesting",
            Nest::UnaryChain => "unary-chain",
            Nest::BinaryLeft => "binary-left-deep",
            Nest::BinaryRight => "binary-right-deep",
            Nest::ArrayLiteral => "array-literal-nesting",
            Nest::IndexNesting => "index-nesting",
            Nest::IndexChain => "index-chain",
            Nest::CallArgs => "call-argument-nesting",
            Nest::MethodChain => "method-chain",
            Nest::Blocks => "block-nesting",
            Nest::Ifs => "if-nesting",
            Nest::ElseChain => "else-chain",
            Nest::Loops => "loop-nesting",
            Nest::FunctionDefs => "function-definition-nesting",
            Nest::MixedExpr => "mixed-expression-nesting",
            Nest::MixedStmt => "mixed-statement-nesting",
        }
    }

    fn parse(s: &str) -> Option<Nest> {
        NESTS.iter().copied().find(|n| n.name() == s)
    }
}

/// How the body of one function of a cycle reaches the next function.
#[derive(Debug, Clone, Copy, PartialEq, Eq)]
pub enum Link {
    OperandRight,
    OperandLeft,
    UserArg,
    Cond,
    LoopCond,
    Index,
    ArrayLit,
    Receiver,
    BuiltinArg,
    Interp,
    Push,
    Unary,
    AndOp,
    StmtCall,
    /// `return f()` directly (a cycle made only of TailCall / MakeCall / StmtCall links and
    /// not bounded uses zero-argument functions, so that no other expression is evaluated)
    TailCall,
    /// `make t get f()` then `return t`
    MakeCall,
    /// `typeof(f())`: a built-in that accepts any value
    TypeofArg,
    /// `shout(f())`
    ShoutArg,
    /// the call sits inside k nested bare blocks
    Blocks(u16),
    /// ... inside k nested `if to say`
    Ifs(u16),
    /// ... inside k nested `jasi` loops
    Loops(u16),
}

impl Link {
    pub fn name(self) -> &'static str {
        match self {
            Link::OperandRight => "operand-right",
            Link::OperandLeft => "operand-left",
            Link::UserArg => "user-call-argument",
            Link::Cond => "if-condition",
            Link::LoopCond => "loop-condition",
            Link::Index => "index",
            Link::ArrayLit => "array-literal-element",
            Link::Receiver => "method-receiver",
            Link::BuiltinArg => "builtin-argument",
            Link::Interp => "interpolated-result",
            Link::Push => "method-argument",
            Link::Unary => "unary-operand",
            Link::AndOp => "logical-operand",
            Link::StmtCall => "expression-statement",
            Link::TailCall => "bare-return-call",
            Link::MakeCall => "declaration-initialiser",
            Link::TypeofArg => "typeof-argument",
            Link::ShoutArg => "shout-argument",
            Link::Blocks(_) => "nested-blocks",
            Link::Ifs(_) => "nested-ifs",
            Link::Loops(_) => "nested-loops",
        }
    }

    fn k(self) -> u16 {
        match self {
            Link::Blocks(k) | Link::Ifs(k) | Link::Loops(k) => k,
            _ => 0,
        }
    }

    fn to_json(self) -> J {
        json!({"link": self.name(), "k": self.k()})
    }

    fn from_json(j: &J) -> Option<Link> {
        let k = j.get("k").and_then(J::as_u64).unwrap_or(0) as u16;
        Some(match j.get("link")?.as_str()? {
            "operand-right" => Link::OperandRight,
            "operand-left" => Link::OperandLeft,
            "user-call-argument" => Link::UserArg,
            "if-condition" => Link::Cond,
            "loop-condition" => Link::LoopCond,
            "index" => Link::Index,
            "array-literal-element" => Link::ArrayLit,
            "method-receiver" => Link::Receiver,
            "builtin-argument" => Link::BuiltinArg,
            "interpolated-result" => Link::Interp,
            "method-argument" => Link::Push,
            "unary-operand" => Link::Unary,
            "logical-operand" => Link::AndOp,
            "expression-statement" => Link::StmtCall,
            "bare-return-call" => Link::TailCall,
            "declaration-initialiser" => Link::MakeCall,
            "typeof-argument" => Link::TypeofArg,
            "shout-argument" => Link::ShoutArg,
            "nested-blocks" => Link::Blocks(k),
            "nested-ifs" => Link::Ifs(k),
            "nested-loops" => Link::Loops(k),
            _ => return None,
        })
    }

    /// Statements of a function body that evaluate `call` (a numeric expression) and
    /// return a number.
    fn body(self, call: &str, out: &mut String) {
        let nest = |out: &mut String, k: u16, open: &str, close: &str| {
            out.push_str("make r get 0\n");
            for _ in 0..k {
                out.push_str(open);
            }
            out.push_str(&format!("r get {call}\n"));
            for _ in 0..k {
                out.push_str(close);
            }
            out.push_str("return r\n");
        };
        match self {
            Link::OperandRight => out.push_str(&format!("return 1 add {call}\n")),
            Link::OperandLeft => out.push_str(&format!("return {call} times 2\n")),
            Link::UserArg => out.push_str(&format!("return idf({call})\n")),
            Link::Cond => out.push_str(&format!("if to say ({call} na 0) start return 0 end\nreturn 1\n")),
            Link::LoopCond => out.push_str(&format!("jasi ({call} pass 0) start comot end\nreturn 0\n")),
            Link::Index => out.push_str(&format!("make t get [0, 0]\nreturn t[{call} times 0]\n")),
            Link::ArrayLit => out.push_str(&format!("make t get [n, {call}]\nreturn t[1]\n")),
            Link::Receiver => out.push_str(&format!("return {call}.abs()\n")),
            Link::BuiltinArg => out.push_str(&format!("return to_string({call}).len()\n")),
            Link::Interp => out.push_str(&format!("make t get {call}\nmake s get \"v{{t}}\"\nreturn s.len()\n")),
            Link::Push => out.push_str(&format!("make t get []\nt.push({call})\nreturn t[0]\n")),
            Link::Unary => out.push_str(&format!("return minus {call}\n")),
            Link::AndOp => {
                out.push_str(&format!("if to say (true and ({call} na 0)) start return 0 end\nreturn 1\n"));
            }
            Link::StmtCall => out.push_str(&format!("{call}\nreturn 0\n")),
            Link::TailCall => out.push_str(&format!("return {call}\n")),
            Link::MakeCall => out.push_str(&format!("make t get {call}\nreturn t\n")),
            Link::TypeofArg => out.push_str(&format!("make kind get typeof({call})\nreturn kind.len()\n")),
            Link::ShoutArg => out.push_str(&format!("shout({call})\nreturn 0\n")),
            Link::Blocks(k) => nest(out, k, "start\n", "end\n"),
            Link::Ifs(k) => nest(out, k, "if to say (true) start\n", "end\n"),
            Link::Loops(k) => nest(out, k, "jasi (true) start\n", "comot\nend\n"),
        }
    }
}

#[derive(Debug, Clone, Copy, PartialEq, Eq)]
pub enum DataOp {
    BuildOnly,
    Copy,
    Print,
    Join,
    ToString,
    Interp,
    Pass,
    Return,
    CompareDynamic,
    Push,
    IndexStore,
    Reverse,
    Pop,
    TypeOf,
}

pub const DATA_OPS: [DataOp; 14] = [
    DataOp::BuildOnly,
    DataOp::Copy,
    DataOp::Print,
    DataOp::Join,
    DataOp::ToString,
    DataOp::Interp,
    DataOp::Pass,
    DataOp::Return,
    DataOp::CompareDynamic,
    DataOp::Push,
    DataOp::IndexStore,
    DataOp::Reverse,
    DataOp::Pop,
    DataOp::TypeOf,
];

impl DataOp {
    pub fn name(self) -> &'static str {
        match self {
            DataOp::BuildOnly => "build",
            DataOp::Copy => "copy",
            DataOp::Print => "print",
            DataOp::Join => "join",
            DataOp::ToString => "to_string",
            DataOp::Interp => "interpolate",
            DataOp::Pass => "pass-to-function",
            DataOp::Return => "return-from-function",
            DataOp::CompareDynamic => "compare",
            DataOp::Push => "push",
            DataOp::IndexStore => "store-into-element",
            DataOp::Reverse => "reverse",
            DataOp::Pop => "pop",
            DataOp::TypeOf => "typeof",
        }
    }

    fn parse(s: &str) -> Option<DataOp> {
        DATA_OPS.iter().copied().find(|o| o.name() == s)
    }
}

#[derive(Debug, Clone, PartialEq, Eq)]
pub enum Shape {
    /// (B) source nesting; `variant` picks the operator / callee / method
    Nest { kind: Nest, variant: u8 },
    /// (A) f0 -> f1 -> ... -> f0, function i reaching the next one through `links[i]`
    Cycle { links: Vec<Link>, bounded: bool },
    /// (C) an array nested `depth` deep by a loop, then used
    Data { op: DataOp },
    /// (D) guard-edge probe: recursion `depth` deep through `link`, whose base case uses an
    /// array nested `data_depth` deep (native recursion that never passes the stack probe).
    /// Run right below the depth at which the runtime starts to report "Stack overflow",
    /// this measures the head-room the guard leaves for unguarded native recursion.
    Edge { link: Link, op: DataOp, data_depth: u64 },
    /// (A') an unbounded cycle whose program is handed to `naija -` on standard input (another
    /// entry path above the point where the runtime anchors its stack budget)
    Stdin { links: Vec<Link> },
}

const BUILD_DATA: &str = "make a get [0]\nmake i get 0\njasi (i small pass %D%) start\n    a get [a]\n    i get i add 1\nend\n";

fn rep(out: &mut String, s: &str, n: u64) {
    out.reserve(s.len() * n as usize);
    for _ in 0..n {
        out.push_str(s);
    }
}

impl Shape {
    /// Construct name used in signatures (deterministic, parameter free).
    pub fn construct(&self) -> String {
        match self {
            Shape::Nest { kind, .. } => kind.name().to_string(),
            Shape::Cycle { links, .. } => {
                let names: Vec<&str> = links.iter().map(|l| l.name()).collect();
                format!("recursion({})", names.join("+"))
            }
            Shape::Data { op } => format!("nested-data-{}", op.name()),
            Shape::Edge { op, .. } => format!("guard-edge-{}", op.name()),
            Shape::Stdin { links } => {
                let names: Vec<&str> = links.iter().map(|l| l.name()).collect();
                format!("stdin:recursion({})", names.join("+"))
            }
        }
    }

    /// A recursion without a base case (the depth parameter is unused; it cannot end normally).
    pub fn is_unbounded(&self) -> bool {
        matches!(self, Shape::Cycle { bounded: false, .. } | Shape::Stdin { .. })
    }

    pub fn family(&self) -> &'static str {
        match self {
            Shape::Nest { .. } => "B source nesting",
            Shape::Cycle { bounded: true, .. } => "A recursion cycle (bounded-deep)",
            Shape::Cycle { bounded: false, .. } => "A recursion cycle (unbounded)",
            Shape::Data { .. } => "C run-time data nesting",
            Shape::Edge { .. } => "D guard-edge probe",
            Shape::Stdin { .. } => "A recursion cycle (unbounded, program on standard input)",
        }
    }

    /// Does the depth parameter change the program?
    pub fn uses_depth(&self) -> bool {
        !self.is_unbounded()
    }

    pub fn max_depth(&self) -> u64 {
        match self {
            Shape::Data { .. } => MAX_DATA_DEPTH,
            Shape::Cycle { .. } | Shape::Stdin { .. } => 1_000_000,
            Shape::Edge { .. } => EDGE_MAX_DEPTH,
            Shape::Nest { .. } => {
                // largest depth whose source stays within MAX_SOURCE (linear estimate)
                let a = self.source(1000).len() as f64;
                let b = self.source(2000).len() as f64;
                let per = ((b - a) / 1000.0).max(1.0);
                let base = (a - 1000.0 * per).max(0.0);
                ((((MAX_SOURCE as f64) - base - 64.0) / per / 1.02) as u64).min(1_000_000)
            }
        }
    }

    pub fn to_json(&self) -> J {
        match self {
            Shape::Nest { kind, variant } => json!({"family": "nest", "construct": kind.name(), "variant": variant}),
            Shape::Cycle { links, bounded } => json!({
                "family": "cycle", "bounded": bounded,
                "links": links.iter().map(|l| l.to_json()).collect::<Vec<_>>()}),
            Shape::Data { op } => json!({"family": "data", "op": op.name()}),
            Shape::Edge { link, op, data_depth } => json!({
                "family": "guard-edge", "link": link.to_json(), "op": op.name(), "data_depth": data_depth}),
            Shape::Stdin { links } => json!({
                "family": "cycle-stdin", "links": links.iter().map(|l| l.to_json()).collect::<Vec<_>>()}),
        }
    }

    pub fn from_json(j: &J) -> Option<Shape> {
        match j.get("family")?.as_str()? {
            "nest" => Some(Shape::Nest {
                kind: Nest::parse(j.get("construct")?.as_str()?)?,
                variant: j.get("variant")?.as_u64()? as u8,
            }),
            "cycle" => {
                let mut links = Vec::new();
                for l in j.get("links")?.as_array()? {
                    links.push(Link::from_json(l)?);
                }
                if links.is_empty() {
                    return None;
                }
                Some(Shape::Cycle { links, bounded: j.get("bounded")?.as_bool()? })
            }
            "cycle-stdin" => {
                let mut links = Vec::new();
                for l in j.get("links")?.as_array()? {
                    links.push(Link::from_json(l)?);
                }
                if links.is_empty() {
                    return None;
                }
                Some(Shape::Stdin { links })
            }
            "data" => Some(Shape::Data { op: DataOp::parse(j.get("op")?.as_str()?)? }),
            "guard-edge" => Some(Shape::Edge {
                link: Link::from_json(j.get("link")?)?,
                op: DataOp::parse(j.get("op")?.as_str()?)?,
                data_depth: j.get("data_depth")?.as_u64()?,
            }),
            _ => None,
        }
    }

    /// The program text (first statement prints the marker).
    pub fn source(&self, depth: u64) -> String {
        if let Shape::Stdin { links } = self {
            return Shape::Cycle { links: links.clone(), bounded: false }.source(depth);
        }
        let mut s = String::from(MARKER_STMT);
        let d = depth;
        match self {
            Shape::Nest { kind, variant } => {
                let v = *variant as usize;
                match kind {
                    Nest::Paren => {
                        s.push_str("make x get ");
                        rep(&mut s, "(", d);
                        s.push('1');
                        rep(&mut s, ")", d);
                        s.push_str("\nshout(x)\n");
                    }
                    Nest::UnaryChain => {
                        let (op, leaf) = [("not ", "true"), ("minus ", "1")][v % 2];
                        s.push_str("make x get ");
                        rep(&mut s, op, d);
                        s.push_str(leaf);
                        s.push_str("\nshout(x)\n");
                    }
                    Nest::BinaryLeft => {
                        let (leaf, op) = BIN_OPS[v % BIN_OPS.len()];
                        s.push_str("make x get ");
                        s.push_str(leaf);
                        rep(&mut s, &format!(" {op} {leaf}"), d);
                        s.push_str("\nshout(x)\n");
                    }
                    Nest::BinaryRight => {
                        let (leaf, op) = BIN_OPS[v % BIN_OPS.len()];
                        s.push_str("make x get ");
                        rep(&mut s, &format!("{leaf} {op} ("), d);
                        s.push_str(leaf);
                        rep(&mut s, ")", d);
                        s.push_str("\nshout(x)\n");
                    }
                    Nest::ArrayLiteral => {
                        s.push_str("make x get ");
                        rep(&mut s, "[", d);
                        s.push('1');
                        rep(&mut s, "]", d);
                        s.push_str("\nshout(x.len())\n");
                    }
                    Nest::IndexNesting => {
                        s.push_str("make a get [0]\nmake x get ");
                        rep(&mut s, "a[", d);
                        s.push('0');
                        rep(&mut s, "]", d);
                        s.push_str("\nshout(x)\n");
                    }
                    Nest::IndexChain => {
                        s.push_str(&BUILD_DATA.replace("%D%", &d.to_string()));
                        s.push_str("make x get a");
                        rep(&mut s, "[0]", d);
                        s.push_str("\nshout(typeof(x))\n");
                    }
                    Nest::CallArgs => {
                        let callee = ["idf", "to_string", "typeof"][v % 3];
                        s.push_str("do idf(v) start return v end\nmake x get ");
                        rep(&mut s, &format!("{callee}("), d);
                        s.push('1');
                        rep(&mut s, ")", d);
                        s.push_str("\nshout(x)\n");
                    }
                    Nest::MethodChain => {
                        let (recv, m) =
                            [("\" a \"", ".trim()"), ("(1)", ".abs()"), ("\"a\"", ".to_uppercase()")][v % 3];
                        s.push_str("make x get ");
                        s.push_str(recv);
                        rep(&mut s, m, d);
                        s.push_str("\nshout(x)\n");
                    }
                    Nest::Blocks => match v % 3 {
                        // bare blocks only
                        0 => {
                            rep(&mut s, "start ", d);
                            s.push_str("shout(1) ");
                            rep(&mut s, "end ", d);
                            s.push('\n');
                        }
                        // every level has a statement *after* its inner block (it runs on the way back)
                        1 => {
                            s.push_str("make bt get 0\n");
                            rep(&mut s, "start ", d);
                            s.push_str("shout(1) ");
                            rep(&mut s, "bt get 1 end ", d);
                            s.push('\n');
                        }
                        // every level starts with a function definition (nothing is evaluated for it)
                        _ => {
                            rep(&mut s, "start do bd() start end ", d);
                            s.push_str("shout(1) ");
                            rep(&mut s, "end ", d);
                            s.push('\n');
                        }
                    },
                    Nest::Ifs => {
                        rep(&mut s, "if to say (true) start ", d);
                        s.push_str("shout(1) ");
                        rep(&mut s, "end ", d);
                        s.push('\n');
                    }
                    Nest::ElseChain => {
                        s.push_str("make n get 0\n");
                        rep(&mut s, "if to say (n na 1) start end if not so start ", d);
                        s.push_str("shout(1) ");
                        rep(&mut s, "end ", d);
                        s.push('\n');
                    }
                    Nest::Loops => {
                        rep(&mut s, "jasi (true) start ", d);
                        s.push_str("shout(1) ");
                        rep(&mut s, "comot end ", d);
                        s.push('\n');
                    }
                    Nest::FunctionDefs => {
                        // variant 0: definitions only; variant 1: every level calls the next
                        let chained = v % 2 == 1;
                        for i in 0..d {
                            s.push_str(&format!("do g{i}() start "));
                        }
                        s.push_str("shout(1) ");
                        for i in (0..d).rev() {
                            if chained && i + 1 < d {
                                s.push_str(&format!("g{}() ", i + 1));
                            }
                            s.push_str("end ");
                        }
                        if chained && d > 0 {
                            s.push_str("\ng0()");
                        }
                        s.push('\n');
                    }
                    Nest::MixedExpr => {
                        const OPEN: [&str; 5] = ["(", "minus ", "1 add (", "idf(", "["];
                        const CLOSE: [&str; 5] = [")", "", ")", ")", "][0]"];
                        s.push_str("do idf(v) start return v end\nmake x get ");
                        for i in 0..d as usize {
                            s.push_str(OPEN[(i + v) % 5]);
                        }
                        s.push('1');
                        for i in (0..d as usize).rev() {
                            s.push_str(CLOSE[(i + v) % 5]);
                        }
                        s.push_str("\nshout(typeof(x))\n");
                    }
                    Nest::MixedStmt => {
                        const OPEN: [&str; 4] = [
                            "start ",
                            "if to say (true) start ",
                            "jasi (true) start ",
                            "if to say (n na 1) start end if not so start ",
                        ];
                        const CLOSE: [&str; 4] = ["end ", "end ", "comot end ", "end "];
                        s.push_str("make n get 0\n");
                        for i in 0..d as usize {
                            s.push_str(OPEN[(i + v) % 4]);
                        }
                        s.push_str("shout(1) ");
                        for i in (0..d as usize).rev() {
                            s.push_str(CLOSE[(i + v) % 4]);
                        }
                        s.push('\n');
                    }
                }
            }
            Shape::Cycle { links, bounded }
                if !*bounded && links.iter().all(|l| matches!(l, Link::TailCall | Link::MakeCall | Link::StmtCall)) =>
            {
                // zero-argument functions: the call is the only expression in the body
                let m = links.len();
                for (i, link) in links.iter().enumerate() {
                    s.push_str(&format!("do f{i}() start\n"));
                    link.body(&format!("f{}()", (i + 1) % m), &mut s);
                    s.push_str("end\n");
                }
                s.push_str("shout(f0())\n");
            }
            Shape::Cycle { links, bounded } => {
                s.push_str("do idf(v) start return v end\n");
                let m = links.len();
                for (i, link) in links.iter().enumerate() {
                    s.push_str(&format!("do f{i}(n) start\n"));
                    if *bounded {
                        s.push_str(&format!("if to say (n pass {d}) start return 0 end\n"));
                    }
                    link.body(&format!("f{}(n add 1)", (i + 1) % m), &mut s);
                    s.push_str("end\n");
                }
                s.push_str("shout(f0(0))\n");
            }
            Shape::Data { op } => {
                let build = BUILD_DATA.replace("%D%", &d.to_string());
                match op {
                    DataOp::BuildOnly => s.push_str(&format!("{build}shout(a.len())\n")),
                    DataOp::Copy => s.push_str(&format!("{build}make b get a\nshout(b.len())\n")),
                    DataOp::Print => s.push_str(&format!("{build}shout(a)\n")),
                    DataOp::Join => s.push_str(&format!("{build}shout(a.join(\",\").len())\n")),
                    DataOp::ToString => s.push_str(&format!("{build}shout(to_string(a).len())\n")),
                    DataOp::Interp => s.push_str(&format!("{build}make t get \"{{a}}\"\nshout(t.len())\n")),
                    DataOp::Pass => {
                        s.push_str(&format!("do g(v) start return v.len() end\n{build}shout(g(a))\n"));
                    }
                    DataOp::Return => s.push_str(&format!(
                        "do g(v) start make w get [v] return w end\n{build}make r get g(a)\nshout(r.len())\n"
                    )),
                    DataOp::CompareDynamic => s.push_str(&format!(
                        "do eq(p, q) start return p na q end\n{build}make b get a\nshout(eq(a, b))\n"
                    )),
                    DataOp::Push => s.push_str(&format!("{build}make c get []\nc.push(a)\nshout(c.len())\n")),
                    DataOp::IndexStore => {
                        s.push_str(&format!("{build}make c get [0]\nc[0] get a\nshout(c.len())\n"));
                    }
                    DataOp::Reverse => s.push_str(&format!("{build}a.reverse()\nshout(a.len())\n")),
                    DataOp::Pop => s.push_str(&format!("{build}make b get a.pop()\nshout(typeof(b))\n")),
                    DataOp::TypeOf => s.push_str(&format!("{build}shout(typeof(a))\n")),
                }
            }
            Shape::Edge { link, op, data_depth } => {
                s.push_str(&BUILD_DATA.replace("%D%", &data_depth.to_string()));
                s.push_str("do idf(v) start return v end\n");
                s.push_str("do g(v) start make w get [v] return w.len() end\n");
                s.push_str("do f0(n) start\n");
                s.push_str(&format!("if to say (n pass {d}) start\n"));
                s.push_str(match op {
                    DataOp::Print => "shout(a)\n",
                    DataOp::Copy => "make b get a\nshout(b.len())\n",
                    DataOp::ToString => "shout(to_string(a).len())\n",
                    DataOp::Join => "shout(a.join(\",\").len())\n",
                    DataOp::Interp => "make t get \"{a}\"\nshout(t.len())\n",
                    DataOp::Pass | DataOp::Return => "shout(g(a))\n",
                    DataOp::Push => "make c get []\nc.push(a)\nshout(c.len())\n",
                    DataOp::IndexStore => "make c get [0]\nc[0] get a\nshout(c.len())\n",
                    // no native recursion over the data: the payload-free twin
                    _ => "shout(a.len())\n",
                });
                s.push_str("return 0\nend\n");
                link.body("f0(n add 1)", &mut s);
                s.push_str("end\nshout(f0(0))\n");
            }
            Shape::Stdin { .. } => unreachable!("handled above"),
        }
        s
    }
}

const BIN_OPS: [(&str, &str); 6] =
    [("1", "add"), ("1", "minus"), ("1", "times"), ("true", "and"), ("false", "or"), ("\"s\"", "add")];

// ------------------------------------------------------------------ oracle --

#[derive(Debug, Clone, Copy, PartialEq, Eq)]
pub enum Stage {
    /// the marker was not printed: parser / resolver / analysis, nothing executed
    FrontEnd,
    /// the marker was printed: the program was running
    RunTime,
}

impl Stage {
    pub fn name(self) -> &'static str {
        match self {
            Stage::FrontEnd => "front-end",
            Stage::RunTime => "run-time",
        }
    }
}

#[derive(Debug, Clone, PartialEq, Eq)]
pub enum Verdict {
    /// exit status 0
    Completed,
    /// exit status 1 with a diagnostic (its first line)
    Diagnosed(String),
    /// native stack overflow / segmentation fault
    Crash { stage: Stage, signal: String, stderr: String },
    /// exit status 1 without any diagnostic, or another unexpected status
    BadExit { stage: Stage, what: String },
    ArenaExhausted,
    /// a Rust panic that is not about depth (other properties' business)
    Panic(String),
    Timeout,
    Infra(&'static str),
}

fn first_diagnostic(plain: &[u8]) -> Option<String> {
    let text = String::from_utf8_lossy(&plain[..plain.len().min(1 << 20)]);
    for line in text.lines() {
        let l = line.trim_start();
        if l.starts_with("error[") || l.starts_with("error:") {
            let mut t: String = l.chars().take(80).collect();
            if let Some(i) = t.find("-->") {
                t.truncate(i);
            }
            return Some(t.trim_end().to_string());
        }
    }
    None
}

/// Runs the program of (shape, depth) on one build and classifies how the process ended.
pub fn evaluate(shape: &Shape, depth: u64, build: Build) -> Verdict {
    let exe = proc::naija_path(build);
    if !exe.is_file() {
        return Verdict::Infra("naija binary missing");
    }
    let src = shape.source(depth);
    if src.len() > MAX_SOURCE {
        return Verdict::Infra("source over 8 MiB");
    }
    let Ok(dir) = TempDir::new("c08") else { return Verdict::Infra("cannot create temp dir") };
    let path = dir.file("deep.ns");
    if std::fs::write(&path, &src).is_err() {
        return Verdict::Infra("cannot write program");
    }
    drop(src);
    let mut run = proc::Run::new(&exe);
    if matches!(shape, Shape::Stdin { .. }) {
        run.args = vec![OsString::from("-")];
        run.stdin = proc::StdinPlan::Pipe(vec![proc::Chunk {
            bytes: std::fs::read(&path).unwrap_or_default(),
            pause_ms: 0,
        }]);
    } else {
        run.args = vec![OsString::from(&path)];
    }
    run.timeout = Duration::from_secs(TIMEOUT_S);
    run.stack_bytes = 8 << 20;
    // A diagnostic quotes the offending source line, which can be megabytes long.
    run.max_capture = 24 << 20;
    let out = match proc::run(&run) {
        Ok(o) => o,
        Err(_) => return Verdict::Infra("cannot start naija"),
    };
    drop(dir);
    let stage = if proc::contains(&out.stdout, MARKER) { Stage::RunTime } else { Stage::FrontEnd };
    let err_text = proc::excerpt(&out.stderr, 300);
    let overflow = proc::contains(&out.stderr, b"has overflowed its stack");
    let alloc_failed = proc::contains(&out.stderr, b"memory allocation of")
        || proc::contains(&out.stderr, b"arena capacity exceeded")
        || proc::contains(&out.stderr, b"capacity overflow");
    let panicked = proc::contains(&out.stderr, b"panicked at");
    match out.end {
        End::Timeout => Verdict::Timeout,
        End::Signaled(sig) => {
            let name = crate::isolate::signal_name(sig);
            if overflow || sig == libc::SIGSEGV || sig == libc::SIGBUS {
                Verdict::Crash { stage, signal: name, stderr: err_text }
            } else if alloc_failed {
                Verdict::ArenaExhausted
            } else if panicked {
                Verdict::Panic(panic_message(&out.stderr))
            } else {
                // killed by something else (SIGABRT without a message, SIGILL, ...): a crash
                Verdict::Crash { stage, signal: name, stderr: err_text }
            }
        }
        End::Exited(0) => Verdict::Completed,
        End::Exited(1) => match first_diagnostic(&proc::strip_ansi(&out.stdout[..out.stdout.len().min(4 << 20)])) {
            Some(d) => Verdict::Diagnosed(d),
            None => Verdict::BadExit {
                stage,
                what: format!(
                    "exit status 1 without a diagnostic; stdout {:?}; stderr {err_text:?}",
                    proc::excerpt(&out.stdout, 200)
                ),
            },
        },
        End::Exited(code) => {
            if alloc_failed {
                Verdict::ArenaExhausted
            } else if panicked {
                Verdict::Panic(panic_message(&out.stderr))
            } else {
                Verdict::BadExit { stage, what: format!("exit status {code}; stderr {err_text:?}") }
            }
        }
    }
}

fn panic_message(stderr: &[u8]) -> String {
    let text = String::from_utf8_lossy(&stderr[..stderr.len().min(4096)]);
    let mut lines = text.lines().skip_while(|l| !l.contains("panicked at"));
    let _ = lines.next();
    crate::isolate::normalise_panic(lines.next().unwrap_or("").trim())
}

fn input_json(shape: &Shape, depth: u64, build: Build, bisected: Option<u64>) -> J {
    let mut j = json!({"shape": shape.to_json(), "depth": depth, "build": build.name()});
    if let Some(b) = bisected {
        j["bisected_min_depth"] = json!(b);
    }
    j
}

fn failure_of(shape: &Shape, depth: u64, build: Build, bisected: Option<u64>, v: &Verdict) -> Option<Failure> {
    let construct = shape.construct();
    let b = build.name();
    let depth_txt = if shape.uses_depth() { format!("depth {depth}") } else { "unbounded recursion".to_string() };
    let least = bisected.map_or(String::new(), |m| format!(" (smallest crashing depth found by bisection: {m})"));
    match v {
        Verdict::Crash { stage, signal, stderr } => Some(Failure {
            sig: format!("native-crash|{}|{construct}|{b}", stage.name()),
            what: format!(
                "{b} naija died by {signal} at the {} stage ({}) on {construct}, {depth_txt}{least}; stderr: {stderr}",
                stage.name(),
                if *stage == Stage::FrontEnd { "nothing had been executed" } else { "the program was running" },
            ),
            input: input_json(shape, depth, build, bisected),
        }),
        // a recursion without a base case cannot end normally: the depth error was lost
        Verdict::Completed if shape.is_unbounded() => Some(Failure {
            sig: format!("unbounded-recursion-ended-normally|{construct}|{b}"),
            what: format!(
                "{b} naija on {construct}: the recursion has no base case, yet the run ended with exit status 0 and no diagnostic (the 'Stack overflow' error was swallowed)"
            ),
            input: input_json(shape, depth, build, bisected),
        }),
        Verdict::BadExit { stage, what } => Some(Failure {
            sig: format!("bad-exit|{}|{construct}|{b}", stage.name()),
            what: format!("{b} naija on {construct}, {depth_txt}: {what}"),
            input: input_json(shape, depth, build, bisected),
        }),
        _ => None,
    }
}

fn case_hash(shape: &Shape, depth: u64, build: Build) -> u64 {
    hash_str(&input_json(shape, depth, build, None).to_string())
}

// --------------------------------------------------------------- generators --

fn link_strategy() -> impl Strategy<Value = Link> {
    let k = prop::sample::select(vec![1u16, 2, 5, 20, 80, 250, 600]);
    prop_oneof![
        2 => Just(Link::OperandRight),
        1 => Just(Link::OperandLeft),
        2 => Just(Link::UserArg),
        2 => Just(Link::Cond),
        1 => Just(Link::LoopCond),
        2 => Just(Link::Index),
        2 => Just(Link::ArrayLit),
        2 => Just(Link::Receiver),
        2 => Just(Link::BuiltinArg),
        2 => Just(Link::Interp),
        1 => Just(Link::Push),
        1 => Just(Link::Unary),
        1 => Just(Link::AndOp),
        1 => Just(Link::StmtCall),
        2 => Just(Link::TailCall),
        1 => Just(Link::MakeCall),
        2 => Just(Link::TypeofArg),
        1 => Just(Link::ShoutArg),
        3 => k.clone().prop_map(Link::Blocks),
        2 => k.clone().prop_map(Link::Ifs),
        2 => k.prop_map(Link::Loops),
    ]
}

fn cycle_strategy() -> impl Strategy<Value = Shape> {
    (prop::collection::vec(link_strategy(), 1..=4), prop::bool::weighted(0.6))
        .prop_map(|(links, bounded)| Shape::Cycle { links, bounded })
}

/// One generated value (no shrinking: C08 reduces by bisecting the depth instead).
fn sample<S: Strategy>(runner: &mut TestRunner, s: &S) -> S::Value {
    s.new_tree(runner).expect("strategy cannot reject").current()
}

/// `n` depths on a log scale between 10^2 and min(10^6, cap), one per stratum, ascending.
fn ladder(runner: &mut TestRunner, n: u32, cap: u64) -> Vec<u64> {
    let lo = 2.0f64;
    let hi = (cap.max(101) as f64).log10().min(6.0);
    let mut v = Vec::new();
    for i in 0..n {
        let frac = f64::from(sample(runner, &(0u32..10_000))) / 10_000.0;
        let e = lo + (hi - lo) * (f64::from(i) + frac) / f64::from(n);
        v.push((10f64.powf(e).round() as u64).clamp(1, cap));
    }
    v.sort_unstable();
    v.dedup();
    v
}

pub struct Unit {
    pub shape: Shape,
    pub build: Build,
    pub depths: Vec<u64>,
}

/// The complete work list of a run: a pure function of (seed, tier), identical in every
/// shard; shard i takes the units with index = i mod shards.
pub fn work_list(seed: u64, tier: Tier) -> Vec<Unit> {
    let mut h = Fnv::new();
    h.write_u64(seed);
    h.write(b"C08 work list");
    let mut runner = TestRunner::new(crate::prop::config(1, h.finish()));
    let mut shapes: Vec<Shape> = Vec::new();
    // (B) every construct; the operator / callee / method variant is generated
    for round in 0..tier.pick(1u32, 6) {
        for kind in NESTS {
            let variant = if round == 0 { sample(&mut runner, &(0u8..6)) } else { round as u8 - 1 };
            let s = Shape::Nest { kind, variant };
            if !shapes.contains(&s) {
                shapes.push(s);
            }
        }
    }
    // block nesting in its three flavours, always (bare; statement after the inner block;
    // function definition before it)
    for variant in 0..3u8 {
        let s = Shape::Nest { kind: Nest::Blocks, variant };
        if !shapes.contains(&s) {
            shapes.push(s);
        }
    }
    // (C) every operation on nested data
    for op in DATA_OPS {
        shapes.push(Shape::Data { op });
    }
    // (D) guard-edge probes: every natively recursive data operation, reached through a
    // generated link, over data nested 2500..3500 deep
    let edge_links = prop::sample::select(vec![
        Link::OperandRight,
        Link::UserArg,
        Link::Cond,
        Link::ArrayLit,
        Link::Receiver,
        Link::BuiltinArg,
        Link::Interp,
        Link::StmtCall,
        Link::Blocks(5),
        Link::Loops(2),
    ]);
    for _ in 0..tier.pick(1, 4) {
        for op in EDGE_OPS {
            let link = sample(&mut runner, &edge_links);
            let data_depth = sample(&mut runner, &(2500u64..=MAX_DATA_DEPTH));
            let s = Shape::Edge { link, op, data_depth };
            if !shapes.contains(&s) {
                shapes.push(s);
            }
        }
    }
    // (A) cycles from the grammar; the single-link cycles first so that every link is met
    let singles: [Link; 21] = [
        Link::OperandRight,
        Link::OperandLeft,
        Link::UserArg,
        Link::Cond,
        Link::LoopCond,
        Link::Index,
        Link::ArrayLit,
        Link::Receiver,
        Link::BuiltinArg,
        Link::Interp,
        Link::Push,
        Link::Unary,
        Link::AndOp,
        Link::StmtCall,
        Link::TailCall,
        Link::MakeCall,
        Link::TypeofArg,
        Link::ShoutArg,
        Link::Blocks(600),
        Link::Ifs(600),
        Link::Loops(600),
    ];
    // cycles whose only expression is the call itself (zero-argument functions): both tiers
    for links in [
        vec![Link::TailCall],
        vec![Link::TailCall, Link::TailCall],
        vec![Link::MakeCall],
        vec![Link::StmtCall],
        vec![Link::TailCall, Link::StmtCall, Link::MakeCall],
        // the recursive call as the argument of a built-in that accepts any value
        vec![Link::TypeofArg],
        vec![Link::ShoutArg],
        vec![Link::BuiltinArg],
        vec![Link::TypeofArg, Link::TailCall],
    ] {
        shapes.push(Shape::Cycle { links, bounded: false });
    }
    // the same kind of program handed over on standard input
    for links in [
        vec![Link::TailCall],
        vec![Link::OperandRight],
        vec![Link::Cond, Link::OperandLeft],
        vec![Link::UserArg, Link::Interp],
    ] {
        shapes.push(Shape::Stdin { links });
    }
    if tier == Tier::Thorough {
        for l in singles {
            for bounded in [true, false] {
                shapes.push(Shape::Cycle { links: vec![l], bounded });
            }
        }
    }
    let cycles = cycle_strategy();
    let wanted = tier.pick(32usize, 370);
    let mut made = 0;
    let mut tries = 0;
    while made < wanted && tries < wanted * 20 {
        tries += 1;
        let s = sample(&mut runner, &cycles);
        if !shapes.contains(&s) {
            shapes.push(s);
            made += 1;
        }
    }
    let mut units = Vec::new();
    for shape in shapes {
        let n = match &shape {
            Shape::Nest { .. } => tier.pick(4, 6),
            Shape::Data { .. } => tier.pick(3, 5),
            Shape::Cycle { bounded: true, .. } => tier.pick(3, 5),
            Shape::Cycle { bounded: false, .. } | Shape::Stdin { .. } => 1,
            Shape::Edge { .. } => 0,
        };
        let depths = if n == 0 {
            Vec::new() // the depths of a guard-edge probe are found by searching for the edge
        } else if shape.uses_depth() {
            ladder(&mut runner, n, shape.max_depth())
        } else {
            vec![0]
        };
        for build in Build::BOTH {
            units.push(Unit { shape: shape.clone(), build, depths: depths.clone() });
        }
    }
    units
}

// -------------------------------------------------------------- shard work --

fn count(ctx: &mut ShardCtx, shape: &Shape, depth: u64, build: Build, v: &Verdict) {
    ctx.eval();
    ctx.class(&format!("family {}", shape.family()));
    ctx.class(&format!("build {}", build.name()));
    let outcome = match v {
        Verdict::Completed => "too shallow (completed)".to_string(),
        Verdict::Diagnosed(d) => format!("reported: {d}"),
        Verdict::Crash { stage, .. } => format!("native crash at {} stage", stage.name()),
        Verdict::BadExit { .. } => "bad exit".to_string(),
        Verdict::ArenaExhausted => "arena exhausted".to_string(),
        Verdict::Panic(_) => "panic unrelated to depth".to_string(),
        Verdict::Timeout => "watchdog timeout".to_string(),
        Verdict::Infra(_) => "not run".to_string(),
    };
    ctx.class(&format!("outcome {outcome}"));
    if matches!(v, Verdict::Diagnosed(_) | Verdict::Crash { .. } | Verdict::BadExit { .. }) {
        ctx.nontrivial(case_hash(shape, depth, build));
        ctx.sample(
            &format!("{} / {outcome}", shape.family()),
            json!({"shape": shape.to_json(), "depth": depth, "build": build.name(), "outcome": outcome}),
        );
    }
}

fn is_crash(v: &Verdict) -> bool {
    matches!(v, Verdict::Crash { .. })
}

/// Smallest crashing depth in (lo, hi], given that `hi` crashes (`at_hi`) and `lo` does not.
fn bisect(
    ctx: &mut ShardCtx,
    shape: &Shape,
    build: Build,
    mut lo: u64,
    mut hi: u64,
    at_hi: Verdict,
) -> (u64, Verdict) {
    let mut at = at_hi;
    while hi - lo > (hi / 50).max(1) {
        let mid = lo + (hi - lo) / 2;
        let v = evaluate(shape, mid, build);
        count(ctx, shape, mid, build, &v);
        ctx.class("bisection run");
        if is_crash(&v) {
            hi = mid;
            at = v;
        } else {
            lo = mid;
        }
    }
    (hi, at)
}

/// For an unknown crash of a multi-function cycle: is one of its links alone enough?
fn reduce_cycle(ctx: &mut ShardCtx, shape: &Shape, depth: u64, build: Build) -> Option<(Shape, Verdict)> {
    let Shape::Cycle { links, bounded } = shape else { return None };
    if links.len() < 2 {
        return None;
    }
    for l in links {
        let single = Shape::Cycle { links: vec![*l], bounded: *bounded };
        let v = evaluate(&single, depth, build);
        count(ctx, &single, depth, build, &v);
        ctx.class("reduction run");
        if is_crash(&v) {
            return Some((single, v));
        }
    }
    None
}

/// (D): finds the deepest recursion that still completes (with a payload that does not
/// recurse natively), then runs the real payload at and right below that depth, where the
/// native stack is as full as the guard allows.
fn run_edge_unit(ctx: &mut ShardCtx, shape: &Shape, build: Build) {
    let Shape::Edge { link, .. } = shape else { return };
    let twin = Shape::Edge { link: *link, op: DataOp::BuildOnly, data_depth: 1 };
    let report = |ctx: &mut ShardCtx, sh: &Shape, depth: u64, v: &Verdict| {
        if let Some(f) = failure_of(sh, depth, build, None, v) {
            ctx.handle("search", Outcome::Fail(f));
        }
    };
    // edge = largest depth at which the twin completes
    let (mut lo, mut hi) = (1u64, EDGE_MAX_DEPTH);
    let v = evaluate(&twin, lo, build);
    count(ctx, &twin, lo, build, &v);
    if v != Verdict::Completed {
        report(ctx, &twin, lo, &v);
        ctx.discard("guard-edge probe: recursion of depth 1 does not complete");
        return;
    }
    while hi - lo > 1 {
        let mid = lo + (hi - lo) / 2;
        let v = evaluate(&twin, mid, build);
        count(ctx, &twin, mid, build, &v);
        ctx.class("edge search run");
        match v {
            Verdict::Completed => lo = mid,
            Verdict::Diagnosed(_) => hi = mid,
            other => {
                // a crash (or anything else) while looking for the edge: report, stop
                report(ctx, &twin, mid, &other);
                if !matches!(other, Verdict::Crash { .. } | Verdict::BadExit { .. }) {
                    ctx.discard("guard-edge probe: edge search inconclusive");
                }
                return;
            }
        }
    }
    let edge = lo;
    if hi == EDGE_MAX_DEPTH {
        ctx.discard("guard-edge probe: no Stack overflow report up to the search limit");
        return;
    }
    let mut probes: Vec<u64> =
        vec![edge / 2, edge - edge / 10, edge.saturating_sub(16), edge.saturating_sub(4), edge - 1, edge];
    probes.retain(|&k| k >= 1);
    probes.sort_unstable();
    probes.dedup();
    let mut lowest_crash: Option<(u64, Verdict)> = None;
    for k in probes {
        let v = evaluate(shape, k, build);
        count(ctx, shape, k, build, &v);
        ctx.class("edge probe run");
        match &v {
            Verdict::Completed | Verdict::Diagnosed(_) => {}
            Verdict::Crash { .. } => {
                if lowest_crash.is_none() {
                    lowest_crash = Some((k, v.clone()));
                }
            }
            Verdict::BadExit { .. } => report(ctx, shape, k, &v),
            Verdict::ArenaExhausted => ctx.discard("arena exhausted (inconclusive)"),
            Verdict::Panic(_) => ctx.discard("panic unrelated to depth (other properties)"),
            Verdict::Timeout => {
                ctx.discard("watchdog timeout (inconclusive)");
                ctx.inconclusive += 1;
            }
            Verdict::Infra(why) => {
                ctx.discard(why);
                ctx.inconclusive += 1;
            }
        }
    }
    if let Some((k_low, v_low)) = lowest_crash {
        // Prefer a replay depth inside the crashing window over its lower end.
        let k_mid = k_low + (edge - k_low) / 2;
        let v_mid = evaluate(shape, k_mid, build);
        count(ctx, shape, k_mid, build, &v_mid);
        if is_crash(&v_mid) {
            report(ctx, shape, k_mid, &v_mid);
        } else {
            report(ctx, shape, k_low, &v_low);
        }
    }
}

fn run_unit(ctx: &mut ShardCtx, unit: &Unit) {
    let (shape, build) = (&unit.shape, unit.build);
    if let Shape::Edge { .. } = shape {
        run_edge_unit(ctx, shape, build);
        return;
    }
    let mut last_ok = 0u64;
    let mut excluded: Option<String> = None;
    for &depth in &unit.depths {
        if let Some(sig) = &excluded {
            ctx.class(&format!("excluded: deeper than a confirmed {sig}"));
            continue;
        }
        let v = evaluate(shape, depth, build);
        count(ctx, shape, depth, build, &v);
        match &v {
            Verdict::Completed if shape.is_unbounded() => {
                if let Some(f) = failure_of(shape, depth, build, None, &v) {
                    ctx.handle("search", Outcome::Fail(f));
                }
            }
            Verdict::Completed | Verdict::Diagnosed(_) => last_ok = depth,
            Verdict::ArenaExhausted => {
                ctx.discard("arena exhausted (inconclusive)");
                if matches!(shape, Shape::Data { .. }) {
                    excluded = Some("arena exhaustion".into());
                }
            }
            Verdict::Panic(msg) => {
                ctx.discard("panic unrelated to depth (other properties)");
                ctx.note(format!("{}: panic not about depth: {msg}", shape.construct()));
            }
            Verdict::Timeout => {
                ctx.discard("watchdog timeout (inconclusive)");
                ctx.inconclusive += 1;
                excluded = Some("watchdog timeout".into());
            }
            Verdict::Infra(why) => {
                ctx.discard(why);
                if *why != "source over 8 MiB" {
                    ctx.inconclusive += 1;
                }
            }
            Verdict::BadExit { .. } => {
                if let Some(f) = failure_of(shape, depth, build, None, &v) {
                    ctx.handle("search", Outcome::Fail(f));
                }
            }
            Verdict::Crash { .. } => {
                // Where does it start, and what does it look like there?
                let (min_depth, at_min) = if shape.uses_depth() {
                    bisect(ctx, shape, build, last_ok, depth, v.clone())
                } else {
                    (depth, v.clone())
                };
                let mut reports: Vec<Failure> = Vec::new();
                if let Some(f) = failure_of(shape, min_depth, build, Some(min_depth), &at_min) {
                    reports.push(f);
                }
                if let Some(f) = failure_of(shape, depth, build, Some(min_depth), &v)
                    && reports.iter().all(|r| r.sig != f.sig)
                {
                    reports.push(f);
                }
                for mut f in reports {
                    let full = ctx.full_sig(&f.sig);
                    if ctx.known.matches(&full).is_none() {
                        // Unknown: try to name a single link, and give the replay some margin
                        // above the threshold so that it reproduces reliably.
                        if let Some((single, sv)) = reduce_cycle(ctx, shape, depth, build)
                            && let Some(sf) = failure_of(&single, depth, build, None, &sv)
                        {
                            f = sf;
                        } else if shape.uses_depth() {
                            let margin = (min_depth + min_depth / 2).min(depth.max(min_depth));
                            let mv = evaluate(shape, margin, build);
                            count(ctx, shape, margin, build, &mv);
                            if let Some(mf) = failure_of(shape, margin, build, Some(min_depth), &mv)
                                && mf.sig == f.sig
                            {
                                f = mf;
                            }
                        }
                    }
                    let sig = f.sig.clone();
                    ctx.handle("search", Outcome::Fail(f));
                    excluded = Some(sig);
                }
            }
        }
    }
}

impl Check for C08 {
    fn id(&self) -> &'static str {
        "C08"
    }

    fn rule(&self) -> String {
        format!(
            "Generated: recursion shape x depth x build, each run as `naija FILE` with RLIMIT_STACK = 8 MiB. \
             (A) run-time recursion cycles over 1..4 functions sampled from a grammar of links - the next call sits \
             in an operand (left/right), a user-call argument, an if or loop condition, an index, an array literal, \
             a method receiver, a built-in or method argument, next to an interpolation, under unary/logical \
             operators, as a statement, or inside k nested blocks / ifs / loops (k up to 600) - bounded-deep \
             (depth = recursion bound) or unbounded; (B) every source-nesting construct ({}) with a generated \
             operator/callee variant; (C) an array nested by a run-time loop and then used ({}). Depths: one \
             log-uniform pick per stratum of 10^2..10^6, capped by source size <= 8 MiB (B) or {MAX_DATA_DEPTH} (C: \
             building the data copies, O(depth^2)); (D) guard-edge probes: recursion through a generated link whose base \
             case runs a natively recursive operation on data nested 2500..{MAX_DATA_DEPTH} deep - the depth at which the \
             runtime starts to report Stack overflow is found by bisection and the operation is run at and right below \
             it (edge, -1, -4, -16, -10%, -50%), i.e. with as little native stack left as the guard allows. The first statement prints a marker, so a crash is attributed \
             to the front-end (marker absent) or run-time stage. Every crash is bisected to the smallest crashing \
             depth and the signature is taken both there and at the generated depth; deeper depths of a unit whose \
             crash signature is confirmed are excluded (counted). Non-trivial: a run in which something was \
             reported (diagnostic, crash or bad exit) - runs that simply complete are 'too shallow'. Distinct by \
             hash of (shape, depth, build).",
            NESTS.iter().map(|n| n.name()).collect::<Vec<_>>().join(", "),
            DATA_OPS.iter().map(|o| o.name()).collect::<Vec<_>>().join(", "),
        )
    }

    fn assumptions(&self) -> Vec<String> {
        vec![
            "only the two compiler profiles built here (dev, release) on this toolchain are examined; stack use per level differs elsewhere".into(),
            "native crash = killed by SIGSEGV/SIGBUS, by SIGABRT with 'has overflowed its stack', or by any other signal without a panic message".into(),
            "arena exhaustion ('memory allocation of N bytes failed', 'arena capacity exceeded') and watchdog timeouts (60 s) are inconclusive, not violations".into(),
            "a Rust panic whose message is not about depth (e.g. an unreachable!() on a dynamically typed operand) belongs to other properties and is discarded here".into(),
            format!("run-time data nesting deeper than {MAX_DATA_DEPTH} cannot be built within the 256 MiB arena (each `a get [a]` copies), so deeper data is unexplored"),
            "crash thresholds move by a fraction of a percent between runs (environment, ASLR); known findings are confirmed at >= 3x their bisected threshold, and a run that completes near a threshold counts as too shallow".into(),
        ]
    }

    fn plan(&self, _tier: Tier) -> Vec<ShardSpec> {
        (0..16).map(|_| ShardSpec { bin: Bin::Dbg }).collect()
    }

    fn shard(&self, ctx: &mut ShardCtx) {
        proc::require_binaries();
        let units = work_list(ctx.seed, ctx.tier);
        let total = units.len();
        for (i, unit) in units.iter().enumerate() {
            if (i as u32) % ctx.of == ctx.shard {
                run_unit(ctx, unit);
            }
        }
        if ctx.shard == 0 {
            ctx.note(format!("work list: {total} (shape, build) units, split over {} shards", ctx.of));
        }
    }

    fn replay(&self, _ctx: &mut ShardCtx, _stage: &str, input: &J) -> Outcome {
        let (Some(shape), Some(depth), Some(build)) = (
            Shape::from_json(&input["shape"]),
            input["depth"].as_u64(),
            input["build"].as_str().and_then(Build::parse),
        ) else {
            return Outcome::Discard("unreadable replay input");
        };
        let bisected = input["bisected_min_depth"].as_u64();
        let v = evaluate(&shape, depth, build);
        match &v {
            Verdict::Completed if shape.is_unbounded() => {
                match failure_of(&shape, depth, build, bisected, &v) {
                    Some(f) => Outcome::Fail(f),
                    None => Outcome::Pass,
                }
            }
            Verdict::Completed | Verdict::Diagnosed(_) => Outcome::Pass,
            Verdict::Crash { .. } | Verdict::BadExit { .. } => match failure_of(&shape, depth, build, bisected, &v) {
                Some(f) => Outcome::Fail(f),
                None => Outcome::Pass,
            },
            Verdict::ArenaExhausted => Outcome::Discard("arena exhausted (inconclusive)"),
            Verdict::Panic(_) => Outcome::Discard("panic unrelated to depth (other properties)"),
            Verdict::Timeout => Outcome::Discard("watchdog timeout (inconclusive)"),
            Verdict::Infra(why) => Outcome::Discard(why),
        }
    }
}
