//! C10 - Layout is insignificant: whitespace and comments never change meaning.
//!
//! Metamorphic: one token sequence, K = 6 renderings (canonical, single line, one token per
//! line, random separators from space/tab/LF/CR/CRLF, `#` comments after any token, padded).
//! All renderings must lex to the same tokens, be accepted or rejected alike with the same
//! multiset of diagnostics, and print the same values with the same ending. Separately,
//! wrapping sub-expressions in redundant parentheses must not change behaviour.

use proptest::prelude::*;
use serde_json::{Value as J, json};

use crate::c09::{Injection, OPS, inject};
use crate::codec::{Dec, Enc};
use crate::ctx::{Failure, Outcome, ShardCtx};
use crate::driver::Check;
use crate::isolate;
use crate::nsgen::ast::*;
use crate::nsgen::build::generate;
use crate::nsgen::print::{LAYOUTS, Layout, LayoutStats, Tok, render_layout, tokens};
use crate::nsgen::tape::Tape;
use crate::pipeline::{Mode, Obs, RunOpts, Stage, run_source};
use crate::progs::{CASE_TIMEOUT, is_arena_exhaustion, profile_by_name, show_vals, tape_strategy};
use crate::util::{Fnv, hash_str, hex, show, unhex};

pub struct C10;

/// Token stream of the implementation's own lexer, spans dropped.
fn lex_fingerprint(src: &str) -> (u64, u32) {
    use naijascript::arena::Arena;
    use naijascript::syntax::scanner::Lexer;
    let arena = Arena::new(64 << 20).expect("arena");
    let mut h = Fnv::new();
    let mut n = 0u32;
    for t in Lexer::new(src, &arena) {
        h.write(format!("{:?}", t.token).as_bytes());
        h.write(b"\x1f");
        n += 1;
    }
    (h.finish(), n)
}

struct Seen {
    lex: (u64, u32),
    obs: Obs,
}

fn run_texts(texts: &[String]) -> Result<Vec<Seen>, String> {
    let iso = isolate::run(isolate::Opts { timeout: CASE_TIMEOUT, ..Default::default() }, |out| {
        for t in texts {
            let lex = lex_fingerprint(t);
            let obs = run_source(t, RunOpts::new(Mode::FP));
            let mut e = Enc::default();
            e.u64(lex.0);
            e.u32(lex.1);
            e.bytes(&obs.encode());
            out.frame(&e.buf);
        }
    });
    if !iso.clean() || iso.frames.len() != texts.len() {
        return Err(format!(
            "{} (after {} of {} renderings)",
            iso.crash_kind().unwrap_or_else(|| "missing frames".into()),
            iso.frames.len(),
            texts.len()
        ));
    }
    let mut out = Vec::new();
    for f in &iso.frames {
        let mut d = Dec::new(f);
        let lex = (d.u64().unwrap_or(0), d.u32().unwrap_or(0));
        let obs = d.bytes().and_then(|b| Obs::decode(&b)).ok_or("undecodable frame")?;
        out.push(Seen { lex, obs });
    }
    Ok(out)
}

fn diag_multiset(o: &Obs) -> Vec<(u8, String, String)> {
    let mut v: Vec<(u8, String, String)> = o
        .front
        .iter()
        .chain(o.runtime.iter())
        .map(|d| (d.severity, d.code.clone(), d.message.clone()))
        .collect();
    v.sort();
    v
}

fn compare(a: &Seen, an: &str, b: &Seen, bn: &str) -> Result<(), (String, String)> {
    if a.lex != b.lex {
        return Err((
            format!("tokens-differ|{bn}"),
            format!("the lexer returns different tokens for `{an}` ({} tokens) and `{bn}` ({} tokens)", a.lex.1, b.lex.1),
        ));
    }
    if a.obs.stage != b.obs.stage {
        return Err((
            format!("acceptance-differs|{bn}"),
            format!("`{an}`: {:?}, `{bn}`: {:?}", a.obs.stage, b.obs.stage),
        ));
    }
    if diag_multiset(&a.obs) != diag_multiset(&b.obs) {
        return Err((
            format!("diagnostics-differ|{bn}"),
            format!("`{an}`: {:?}\n`{bn}`: {:?}", diag_multiset(&a.obs), diag_multiset(&b.obs)),
        ));
    }
    if a.obs.output != b.obs.output || a.obs.rt_error() != b.obs.rt_error() {
        return Err((
            format!("behaviour-differs|{bn}"),
            format!(
                "`{an}`: {} ending {:?}\n`{bn}`: {} ending {:?}",
                show_vals(&a.obs.output),
                a.obs.rt_error(),
                show_vals(&b.obs.output),
                b.obs.rt_error()
            ),
        ));
    }
    Ok(())
}

fn layout_name(l: Layout) -> &'static str {
    match l {
        Layout::Canonical => "canonical",
        Layout::SingleLine => "single-line",
        Layout::TokenPerLine => "token-per-line",
        Layout::RandomSeparators => "random-separators",
        Layout::Comments => "comments",
        Layout::Padded => "padded",
    }
}

/// Wraps sub-expressions in redundant parentheses (never an l-value or a statement head).
fn paren_expr(e: &Expr, t: &mut Tape) -> Expr {
    let inner = match e {
        Expr::Unary(op, x) => Expr::Unary(*op, Box::new(paren_expr(x, t))),
        Expr::Binary(op, l, r) => Expr::Binary(*op, Box::new(paren_expr(l, t)), Box::new(paren_expr(r, t))),
        Expr::Array(items) => Expr::Array(items.iter().map(|x| paren_expr(x, t)).collect()),
        Expr::Index(a, i) => Expr::Index(Box::new(paren_expr(a, t)), Box::new(paren_expr(i, t))),
        Expr::Call(n, args) => Expr::Call(n.clone(), args.iter().map(|x| paren_expr(x, t)).collect()),
        Expr::Method(r, n, args) => {
            // in-place methods need their variable receiver untouched
            let recv = if matches!(n.as_str(), "push" | "pop" | "reverse") { (**r).clone() } else { paren_expr(r, t) };
            Expr::Method(Box::new(recv), n.clone(), args.iter().map(|x| paren_expr(x, t)).collect())
        }
        Expr::Paren(x) => Expr::Paren(Box::new(paren_expr(x, t))),
        other => other.clone(),
    };
    if t.chance(1, 2) { Expr::Paren(Box::new(inner)) } else { inner }
}

fn paren_head(e: &Expr, t: &mut Tape) -> Expr {
    // statement-leading expression: keep the head identifier, parenthesise arguments only
    match e {
        Expr::Call(n, args) => Expr::Call(n.clone(), args.iter().map(|x| paren_expr(x, t)).collect()),
        Expr::Method(r, n, args) => {
            Expr::Method(r.clone(), n.clone(), args.iter().map(|x| paren_expr(x, t)).collect())
        }
        other => other.clone(),
    }
}

fn paren_block(b: &Block, t: &mut Tape) -> Block {
    b.iter()
        .map(|s| match s {
            Stmt::Make(n, e) => Stmt::Make(n.clone(), e.as_ref().map(|e| paren_expr(e, t))),
            Stmt::Assign(n, e) => Stmt::Assign(n.clone(), paren_expr(e, t)),
            Stmt::AssignIndex(target, e) => {
                // only the index expressions of the target
                fn tgt(e: &Expr, t: &mut Tape) -> Expr {
                    match e {
                        Expr::Index(a, i) => Expr::Index(Box::new(tgt(a, t)), Box::new(paren_expr(i, t))),
                        other => other.clone(),
                    }
                }
                Stmt::AssignIndex(tgt(target, t), paren_expr(e, t))
            }
            Stmt::If(c, th, el) => {
                Stmt::If(paren_expr(c, t), paren_block(th, t), el.as_ref().map(|b| paren_block(b, t)))
            }
            Stmt::Loop(c, b) => Stmt::Loop(paren_expr(c, t), paren_block(b, t)),
            Stmt::Block(b) => Stmt::Block(paren_block(b, t)),
            Stmt::FuncDef(f) => Stmt::FuncDef(FuncDef {
                name: f.name.clone(),
                params: f.params.clone(),
                body: paren_block(&f.body, t),
            }),
            Stmt::Return(e) => Stmt::Return(e.as_ref().map(|e| paren_expr(e, t))),
            Stmt::Expr(e) => Stmt::Expr(paren_head(e, t)),
            other => other.clone(),
        })
        .collect()
}

#[derive(Debug, Clone)]
pub struct Case {
    pub tape: Vec<u8>,
    pub layout_tape: Vec<u8>,
    pub injection: Option<(u8, u16, u8)>,
    /// non-zero: declared identifiers are renamed to keyword-like names (nsgen::rename)
    pub rename: u64,
}

fn check_case(ctx: &mut ShardCtx, c: &Case) -> Outcome {
    let (mut program, _) = generate(&c.tape, profile_by_name("general"));
    if let Some((op, site, variant)) = c.injection {
        let _ = inject(&mut program, &Injection { op, site, variant });
    }
    if c.rename != 0 {
        let original = program.clone();
        // half of the time: pick two declared identifiers that are adjacent in the token stream
        // (end of one statement, start of the next) and make them `small` / `pass...` or
        // `if` / `to...`, `not...`
        let mut forced: Vec<(String, &'static str)> = Vec::new();
        if c.rename % 2 == 0 {
            let decl = crate::nsgen::rename::declared_names(&program);
            let t0 = tokens(&program);
            let words: Vec<&Tok> = t0.iter().filter(|t| !matches!(t, Tok::Brk(_))).collect();
            let pairs: Vec<(&String, &String)> = words
                .windows(2)
                .filter_map(|w| match (w[0], w[1]) {
                    (Tok::Word(a), Tok::Word(b)) if a != b && decl.contains(a) && decl.contains(b) => Some((a, b)),
                    _ => None,
                })
                .collect();
            if !pairs.is_empty() {
                let k = (c.rename / 2) as usize;
                let (a, b) = pairs[k % pairs.len()];
                const FOLLOW_SMALL: [&str; 4] = ["passes", "password", "pass_", "passe"];
                const FOLLOW_IF: [&str; 6] = ["tosay", "to", "notso", "nots", "to_", "not_"];
                if (k / pairs.len()) % 3 != 0 {
                    forced = vec![(a.clone(), "small"), (b.clone(), FOLLOW_SMALL[(k / 7) % 4])];
                } else {
                    forced = vec![(a.clone(), "if"), (b.clone(), FOLLOW_IF[(k / 7) % 6])];
                }
            }
        }
        let n = crate::nsgen::rename::rename_tricky(&mut program, c.rename, &forced);
        // `small` directly in front of the operator `pass` would *be* the keyword `small pass`
        let t = tokens(&program);
        let clash = t.windows(2).any(|w| matches!((&w[0], &w[1]), (Tok::Word(a), Tok::Word(b)) if a == "small" && b == "pass"));
        if clash {
            program = original;
        } else if n > 0 {
            ctx.class("identifiers renamed to keyword-like names");
        }
    }
    let toks = tokens(&program);
    {
        // a keyword piece at the end of one statement, a word that extends the keyword's next
        // word at the start of the following one (`... small` / `passes ...`)
        let words: Vec<&Tok> = toks.iter().filter(|t| !matches!(t, Tok::Brk(_))).collect();
        let hazard = words.windows(2).any(|w| match (w[0], w[1]) {
            (Tok::Word(a), Tok::Word(b)) => {
                (a == "small" && b.starts_with("pass")) || (a == "if" && (b.starts_with("to") || b.starts_with("not")))
            }
            _ => false,
        });
        if hazard {
            ctx.class("keyword piece followed by a word extending the keyword's next word");
        }
    }
    let mut lt = Tape::new(&c.layout_tape);
    let mut texts = Vec::new();
    let mut stats: Vec<LayoutStats> = Vec::new();
    for l in LAYOUTS {
        let (text, st) = render_layout(&toks, l, &mut lt);
        texts.push(text);
        stats.push(st);
    }
    // redundant parentheses: a seventh rendering with a different token sequence
    let paren_program = Program { body: paren_block(&program.body, &mut lt) };
    let paren_text = crate::nsgen::print::to_source(&paren_program);
    ctx.eval();
    let input = json!({
        "tape": hex(&c.tape),
        "layout_tape": hex(&c.layout_tape),
        "injection": c.injection.map(|(a, b, d)| json!([a, b, d])),
        "rename": c.rename,
        "source": texts[0],
    });
    let mut all = texts.clone();
    all.push(paren_text.clone());
    let seen = match run_texts(&all) {
        Ok(s) => s,
        Err(crash) => {
            if is_arena_exhaustion(&crash) || crash.starts_with("timeout") {
                ctx.inconclusive += 1;
                return Outcome::Discard("U8 arena exhaustion / watchdog");
            }
            // a crash is C06/C07's matter unless it depends on the layout; attribute it here only
            // when the canonical rendering alone runs fine
            let alone = run_texts(&texts[..1]);
            if alone.is_ok() {
                return Outcome::Fail(Failure {
                    sig: format!("crash-depends-on-layout|{}", crate::isolate::normalise_panic(&crash)),
                    what: format!("canonical rendering runs, another rendering crashes: {crash}\n--- canonical ---\n{}", texts[0]),
                    input,
                });
            }
            return Outcome::Discard("crash independent of layout (see C06/C07)");
        }
    };
    let accepted = seen[0].obs.stage == Stage::Ran;
    ctx.class(if accepted { "program accepted" } else { "program rejected" });
    let mut nontrivial = false;
    for (i, st) in stats.iter().enumerate() {
        if st.gaps_differing >= 5 && (st.comments > 0 || st.crs > 0) || st.split_multi > 0 {
            nontrivial = true;
            ctx.class(&format!("non-trivial rendering: {}", layout_name(LAYOUTS[i])));
        }
        if st.comments > 0 {
            ctx.class("rendering with comments");
        }
        if st.crs > 0 {
            ctx.class("rendering with CR");
        }
        if st.split_multi > 0 {
            ctx.class("multi-word keyword split by non-space whitespace");
        }
    }
    if nontrivial {
        ctx.nontrivial(hash_str(&texts.concat()));
        ctx.sample("rendering", J::String(show(&texts[3])));
        ctx.sample("rendering with comments", J::String(show(&texts[4])));
    }
    for i in 1..LAYOUTS.len() {
        if let Err((sig, what)) = compare(&seen[0], "canonical", &seen[i], layout_name(LAYOUTS[i])) {
            return Outcome::Fail(Failure {
                sig,
                what: format!("{what}\n--- canonical ---\n{}\n--- {} ---\n{}", texts[0], layout_name(LAYOUTS[i]), show(&texts[i])),
                input,
            });
        }
    }
    // parentheses: tokens differ by construction; acceptance, diagnostics and behaviour must not
    let p = &seen[LAYOUTS.len()];
    let same = p.obs.stage == seen[0].obs.stage
        && diag_multiset(&p.obs) == diag_multiset(&seen[0].obs)
        && p.obs.output == seen[0].obs.output
        && p.obs.rt_error() == seen[0].obs.rt_error();
    if paren_text != texts[0] {
        ctx.class("redundant parentheses added");
    }
    if !same {
        return Outcome::Fail(Failure {
            sig: "redundant-parentheses-change-behaviour".into(),
            what: format!(
                "canonical: {:?} {} {:?}\nparenthesised: {:?} {} {:?}\n--- canonical ---\n{}\n--- parenthesised ---\n{}",
                seen[0].obs.stage,
                show_vals(&seen[0].obs.output),
                seen[0].obs.rt_error(),
                p.obs.stage,
                show_vals(&p.obs.output),
                p.obs.rt_error(),
                texts[0],
                paren_text
            ),
            input,
        });
    }
    Outcome::Pass
}

impl Check for C10 {
    fn id(&self) -> &'static str {
        "C10"
    }

    fn rule(&self) -> String {
        "Programs from the `general` profile (accepted) and the same programs with one C09 injection (mostly rejected) are \
         turned into a token list and rendered in 6 layouts: canonical; single line; one token per line (multi-word keywords \
         split across lines); random separators drawn from space, tab, LF, CR, CRLF and runs of them at every gap (none where \
         the lexer needs none); `#` comments with arbitrary text (quotes, keywords, `#`, multi-byte) after any token, terminated \
         by LF, CR, CRLF or end of input; leading/trailing padding. All random layout choices come from a second proptest tape. \
         Oracle (metamorphic): the implementation's own lexer returns the same tokens for every rendering; acceptance, the \
         multiset of (severity, code, message) and, for accepted programs, printed values and ending are equal to the canonical \
         rendering. A seventh rendering wraps random sub-expressions in redundant parentheses and must behave identically. \
         Non-trivial: a rendering that differs from single spaces in >= 5 gaps and contains a comment or a CR, or splits a \
         multi-word keyword with non-space whitespace. Distinct by the concatenated renderings."
            .into()
    }

    fn assumptions(&self) -> Vec<String> {
        vec![
            "whitespace kinds are those the property names (space, tab, LF, CR, CRLF); comments are never placed between the words of a multi-word keyword".into(),
            "the layout engine inserts a separator exactly where two adjacent tokens would otherwise fuse (word-word, number-word, integer followed by `.`)".into(),
        ]
    }

    fn shard(&self, ctx: &mut ShardCtx) {
        ctx.max_shrink_iters = 100; // every evaluation runs several renderings / subprocesses
        let n = ctx.tier.pick(600, 10_000);
        let rename = || prop_oneof![1 => Just(0u64), 1 => 1u64..u64::MAX];
        let plain = (tape_strategy(500), tape_strategy(600), rename())
            .prop_map(|(tape, layout_tape, rename)| Case { tape, layout_tape, injection: None, rename });
        crate::prop::run(ctx, "accepted", n, plain, check_case);
        let injected = (tape_strategy(400), tape_strategy(600), 0..OPS, any::<u16>(), any::<u8>(), rename()).prop_map(
            |(tape, layout_tape, op, site, variant, rename)| Case {
                tape,
                layout_tape,
                injection: Some((op, site, variant)),
                rename,
            },
        );
        crate::prop::run(ctx, "injected", n / 2, injected, check_case);
    }

    fn replay(&self, ctx: &mut ShardCtx, _stage: &str, input: &J) -> Outcome {
        let (Some(tape), Some(lt)) = (
            input.get("tape").and_then(J::as_str).map(unhex),
            input.get("layout_tape").and_then(J::as_str).map(unhex),
        ) else {
            return Outcome::Discard("unreadable replay input");
        };
        let injection = input.get("injection").and_then(J::as_array).map(|a| {
            (
                a[0].as_u64().unwrap_or(0) as u8,
                a[1].as_u64().unwrap_or(0) as u16,
                a[2].as_u64().unwrap_or(0) as u8,
            )
        });
        let rename = input.get("rename").and_then(J::as_u64).unwrap_or(0);
        check_case(ctx, &Case { tape, layout_tape: lt, injection, rename })
    }
}
