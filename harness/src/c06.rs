//! C06 - An accepted program can never crash the interpreter.
//!
//! (1) Bounded-exhaustive grid: sink x runtime type x route. A *route* smuggles a value of a
//! given runtime type into a dynamically typed expression; a *sink* is an operator, condition,
//! index, method or built-in position that consumes it.
//! (2) proptest: random compositions of routes and sinks (several per program, nested in
//! loops / functions), and programs of the intent-typed profiles with injected ill-typed uses.
//! Oracle: a program the front end accepts ends `Ok` (normally or with a runtime diagnostic);
//! panic / abort / signal = violation.

use proptest::prelude::*;
use serde_json::{Value as J, json};

use crate::ctx::{Failure, Outcome, ShardCtx};
use crate::driver::Check;
use crate::pipeline::{Mode, ModeResult, RunOpts, run_modes};
use crate::progs::{CASE_TIMEOUT, is_arena_exhaustion};
use crate::util::hash_str;

pub struct C06;

pub const TYPES: [(&str, &str); 24] = [
    ("number", "5"),
    ("string", "\"s\""),
    ("boolean", "true"),
    ("null", "null"),
    ("array", "[1, \"e\"]"),
    ("process_command", "command(\"true\")"),
    ("process_result", "command(\"true\").run()"),
    // further values of the same types (appended: composed replays index into this table):
    // magnitudes, signs, fractions, non-finite numbers, empty / multi-byte / long text, array shapes
    ("number:1e35", "100000000000000000000000000000000000"),
    ("number:-1e32", "(0 minus 100000000000000000000000000000000)"),
    ("number:1e-35", "0.00000000000000000000000000000000001"),
    ("number:2.5", "2.5"),
    ("number:-1", "(0 minus 1)"),
    ("number:0", "0"),
    ("number:NaN", "\"x\".to_number()"),
    ("number:huge-literal", "9999999999999999999999999999999999999999999999999999999999999999999999999999999999999999999999999999999999999999999999999999999999999999999999999999999999999999999999999999999999999999999999999999999999999999999999999999999999999999999999999999999999999999999999999999999999999999999999999999999999999999999999999999999999999999"),
    ("string:empty", "\"\""),
    ("string:multi-byte", "\"\u{e9}\u{4e16}\u{1f30e}\""),
    ("array:empty", "[]"),
    ("array:nested", "[[1], [\"e\", [null]]]"),
    // small whole numbers: as an index they sit at, just below and just above the length of the
    // short arrays the sinks use; 2^32 and 2^53 are the edges of integer conversions
    ("number:1", "1"),
    ("number:2", "2"),
    ("number:3", "3"),
    ("number:2^32", "4294967296"),
    ("number:2^53", "9007199254740992"),
];

/// A route: prelude statements and the expression through which the value is visible.
/// `$V` is replaced by the value literal. The expression must be statically dynamic
/// (or of a type the sink accepts) so that the checker lets the program through.
pub struct Route {
    pub name: &'static str,
    pub prelude: &'static str,
    /// expression that evaluates to the value
    pub expr: &'static str,
    /// when the sink must run inside a function body: (header, footer, call)
    pub wrap: Option<(&'static str, &'static str)>,
}

pub const ROUTES: [Route; 9] = [
    Route { name: "parameter", prelude: "", expr: "p", wrap: Some(("do w(p) start", "end\nw($V)")) },
    Route { name: "array-element", prelude: "make arr get [$V]", expr: "arr[0]", wrap: None },
    Route { name: "pop-result", prelude: "make arr get [$V]", expr: "arr.pop()", wrap: None },
    Route {
        name: "mixed-return",
        prelude: "do g(c) start\n    if to say (c) start\n        return $V\n    end\n    return [[0]]\nend",
        expr: "g(true)",
        wrap: None,
    },
    Route { name: "nested-element", prelude: "make arr get [[$V]]", expr: "arr[0][0]", wrap: None },
    Route {
        name: "dynamic-variable",
        prelude: "make arr get [$V]\nmake t get arr[0]",
        expr: "t",
        wrap: None,
    },
    Route {
        name: "captured-reassigned",
        prelude: "make x get 0\ndo h() start\n    x get $V\nend\nh()",
        expr: "x",
        wrap: None,
    },
    Route {
        name: "reassigned-other-type",
        prelude: "make x get \"str\"\nx get $V",
        expr: "x",
        wrap: None,
    },
    Route {
        name: "redeclared-after-capture",
        prelude: "make x get 0",
        expr: "x",
        wrap: Some(("do r() start", "end\nmake x get $V\nr()")),
    },
];

/// Sinks: statements with the hole `$E` (the routed expression). `$L` = an l-value holding
/// the routed value (a variable), created on demand by `make lv get $E`.
pub const SINKS: &[(&str, &str)] = &[
    ("add-left-num", "shout($E add 1)"),
    ("add-right-num", "shout(1 add $E)"),
    ("add-left-str", "shout($E add \"s\")"),
    ("add-right-str", "shout(\"s\" add $E)"),
    ("add-both", "shout($E add $E)"),
    ("minus-left", "shout($E minus 1)"),
    ("minus-right", "shout(1 minus $E)"),
    ("times-left", "shout($E times 2)"),
    ("times-right", "shout(2 times $E)"),
    ("divide-left", "shout($E divide 2)"),
    ("divide-right", "shout(2 divide $E)"),
    ("mod-left", "shout($E mod 2)"),
    ("mod-right", "shout(2 mod $E)"),
    ("eq-left-num", "shout($E na 1)"),
    ("eq-right-num", "shout(1 na $E)"),
    ("eq-left-str", "shout($E na \"s\")"),
    ("eq-left-bool", "shout($E na true)"),
    ("eq-left-null", "shout($E na null)"),
    ("eq-left-arr", "shout($E na [1])"),
    ("eq-both", "shout($E na $E)"),
    ("gt-left", "shout($E pass 1)"),
    ("gt-right", "shout(1 pass $E)"),
    ("gt-left-str", "shout($E pass \"a\")"),
    ("lt-left", "shout($E small pass 1)"),
    ("lt-right", "shout(1 small pass $E)"),
    ("lt-both", "shout($E small pass $E)"),
    ("and-left", "shout($E and true)"),
    ("and-right", "shout(true and $E)"),
    ("or-left", "shout($E or false)"),
    ("or-right", "shout(false or $E)"),
    ("unary-minus", "shout(minus $E)"),
    ("unary-not", "shout(not $E)"),
    ("if-condition", "if to say ($E) start\n    shout(1)\nend"),
    ("if-else-condition", "if to say ($E) start\n    shout(1)\nend\nif not so start\n    shout(2)\nend"),
    ("loop-condition", "jasi ($E) start\n    comot\nend"),
    ("index-base", "shout($E[0])"),
    ("index-base-nested", "shout($E[0][0])"),
    ("index-value", "shout([1, 2][$E])"),
    ("assign-index-base", "make lv get $E\nlv[0] get 1\nshout(lv)"),
    ("assign-index-base-nested", "make lv get [$E]\nlv[0][0] get 1\nshout(lv)"),
    ("assign-index-value", "make a2 get [1, 2]\na2[$E] get 1\nshout(a2)"),
    ("assign-index-rhs", "make a2 get [1, 2]\na2[0] get $E\nshout(a2)"),
    ("recv-len", "shout($E.len())"),
    ("recv-push", "make lv get $E\nlv.push(1)\nshout(lv)"),
    ("recv-pop", "make lv get $E\nshout(lv.pop())"),
    ("recv-reverse", "make lv get $E\nlv.reverse()\nshout(lv)"),
    ("recv-push-nested", "make lv get [$E]\nlv[0].push(1)\nshout(lv)"),
    ("recv-join", "shout($E.join(\",\"))"),
    ("recv-slice", "shout($E.slice(0, 1))"),
    ("recv-to_uppercase", "shout($E.to_uppercase())"),
    ("recv-to_lowercase", "shout($E.to_lowercase())"),
    ("recv-find", "shout($E.find(\"a\"))"),
    ("recv-replace", "shout($E.replace(\"a\", \"b\"))"),
    ("recv-trim", "shout($E.trim())"),
    ("recv-to_number", "shout($E.to_number())"),
    ("recv-split", "shout($E.split(\",\"))"),
    ("recv-abs", "shout($E.abs())"),
    ("recv-sqrt", "shout($E.sqrt())"),
    ("recv-floor", "shout($E.floor())"),
    ("recv-round", "shout($E.round())"),
    ("recv-arg", "make lv get $E\nlv.arg(\"a\")\nshout(typeof(lv))"),
    ("recv-env", "make lv get $E\nlv.env(\"K\", \"v\")\nshout(typeof(lv))"),
    ("recv-cwd", "make lv get $E\nlv.cwd(\"/\")\nshout(typeof(lv))"),
    ("recv-timeout_ms", "make lv get $E\nlv.timeout_ms(50)\nshout(typeof(lv))"),
    ("recv-stdout_capture", "make lv get $E\nlv.stdout_capture()\nshout(typeof(lv))"),
    ("recv-run", "shout(typeof($E.run()))"),
    ("recv-stdout", "shout($E.stdout())"),
    ("recv-exit_code", "shout($E.exit_code())"),
    ("recv-success", "shout($E.success())"),
    ("recv-unknown-method", "shout($E.frobnicate())"),
    ("arg-slice-start", "shout(\"abc\".slice($E, 2))"),
    ("arg-slice-end", "shout(\"abc\".slice(0, $E))"),
    ("arg-find", "shout(\"abc\".find($E))"),
    ("arg-replace-from", "shout(\"abc\".replace($E, \"x\"))"),
    ("arg-replace-to", "shout(\"abc\".replace(\"a\", $E))"),
    ("arg-split", "shout(\"a,b\".split($E))"),
    ("arg-join", "shout([1, 2].join($E))"),
    ("arg-push", "make a2 get [1]\na2.push($E)\nshout(a2)"),
    ("arg-timeout_ms", "make c2 get command(\"true\")\nc2.timeout_ms($E)\nshout(typeof(c2))"),
    ("arg-env-key", "make c2 get command(\"true\")\nc2.env($E, \"v\")\nshout(typeof(c2))"),
    ("arg-cwd", "make c2 get command(\"true\")\nc2.cwd($E)\nshout(typeof(c2))"),
    ("builtin-shout", "shout($E)"),
    ("builtin-typeof", "shout(typeof($E))"),
    ("builtin-to_string", "shout(to_string($E))"),
    ("builtin-command", "shout(typeof(command($E)))"),
    ("builtin-read_line", "shout(read_line($E))"),
    ("interpolation", "make lv get $E\nshout(\"<{lv}>\")"),
    ("user-call-arg", "do id(q) start\n    return q\nend\nshout(id($E))"),
    // wrong number of arguments for a built-in method on a dynamically typed receiver
    ("arity-len-1", "shout($E.len(1))"),
    ("arity-slice-1", "shout($E.slice(1))"),
    ("arity-slice-3", "shout($E.slice(0, 1, 2))"),
    ("arity-find-0", "shout($E.find())"),
    ("arity-replace-1", "shout($E.replace(\"a\"))"),
    ("arity-split-0", "shout($E.split())"),
    ("arity-join-0", "shout($E.join())"),
    ("arity-push-0", "make lv get $E\nlv.push()\nshout(lv)"),
    ("arity-push-2", "make lv get $E\nlv.push(1, 2)\nshout(lv)"),
    ("arity-pop-1", "make lv get $E\nshout(lv.pop(1))"),
    ("arity-abs-1", "shout($E.abs(1))"),
    ("arity-arg-0", "make lv get $E\nlv.arg()\nshout(typeof(lv))"),
    ("arity-env-1", "make lv get $E\nlv.env(\"K\")\nshout(typeof(lv))"),
    ("arity-run-1", "shout(typeof($E.run(1)))"),
    ("arity-stdout-1", "shout($E.stdout(1))"),
    // the value only reaches the sink on a LATER evaluation (first evaluation is well typed)
    ("loop-condition-second-eval", "make q get [$E, true]\nmake n get 0\njasi (q.pop()) start\n    n get n add 1\n    if to say (n pass 3) start\n        comot\n    end\n    shout(1)\nend"),
    ("loop-condition-reassigned", "make lv get [true, $E]\nmake c get lv[0]\nmake n get 0\njasi (c) start\n    n get n add 1\n    if to say (n pass 3) start\n        comot\n    end\n    c get lv[1]\nend"),
    ("if-condition-in-loop", "make q get [$E, true, false]\nmake n get 0\njasi (n small pass 3) start\n    n get n add 1\n    if to say (q.pop()) start\n        shout(n)\n    end\nend"),
    ("operand-in-loop", "make q get [$E, 1, 2]\nmake n get 0\njasi (n small pass 3) start\n    n get n add 1\n    shout(q.pop() times 2)\nend"),
    ("and-operand-in-loop", "make q get [$E, true]\nmake n get 0\njasi (n small pass 2) start\n    n get n add 1\n    shout(true and q.pop())\nend"),
    ("index-in-loop", "make q get [$E, [1]]\nmake n get 0\njasi (n small pass 2) start\n    n get n add 1\n    make e get q.pop()\n    shout(e[0])\nend"),
    ("method-in-recursion", "make q get [$E, \"ab\", \"cd\"]\ndo rec(n) start\n    if to say (n small pass 1) start\n        return 0\n    end\n    make e get q.pop()\n    shout(e.len())\n    return rec(n minus 1)\nend\nshout(rec(3))"),
];

/// Special shapes that do not fit the (route, sink) product.
pub const SPECIALS: [(&str, &str); 12] = [
    ("member-without-call", "make n get 5\nshout(\"B4\")\nmake m get n.abs\nshout(\"AF\")"),
    ("member-without-call-stmt", "make n get 5\nshout(\"B4\")\nn.abs\nshout(\"AF\")"),
    ("call-of-call", "do f() start\n    return 1\nend\nshout(\"B4\")\nshout(f()())\nshout(\"AF\")"),
    ("call-of-variable", "make n get 5\nshout(\"B4\")\nshout(n())\nshout(\"AF\")"),
    ("call-of-index", "make a get [1]\nshout(\"B4\")\nshout(a[0](1))\nshout(\"AF\")"),
    ("assign-index-of-call", "do f() start\n    return [1]\nend\nshout(\"B4\")\nf()[0] get 2\nshout(\"AF\")"),
    ("push-on-call-result", "do f() start\n    return [1]\nend\nshout(\"B4\")\nf().push(2)\nshout(\"AF\")"),
    ("push-on-literal", "shout(\"B4\")\n[1].push(2)\nshout(\"AF\")"),
    ("comot-in-function-inside-loop", "make i get 0\njasi (i small pass 2) start\n    i get i add 1\n    do f() start\n        comot\n    end\n    shout(\"B4\")\n    f()\nend\nshout(\"AF\")"),
    ("next-in-function-inside-loop", "make i get 0\njasi (i small pass 2) start\n    i get i add 1\n    do f() start\n        next\n    end\n    shout(\"B4\")\n    f()\nend\nshout(\"AF\")"),
    ("forward-call-before-declaration", "shout(\"B4\")\nshout(r())\nmake x get 1\ndo r() start\n    return x\nend\nshout(\"AF\")"),
    ("forward-call-writes-before-declaration", "shout(\"B4\")\nr()\nmake x get 1\ndo r() start\n    x get 2\nend\nshout(x)\nshout(\"AF\")"),
];

fn indent(s: &str, by: &str) -> String {
    s.lines().map(|l| format!("{by}{l}")).collect::<Vec<_>>().join("\n")
}

/// Builds the grid program for (route, type, sink).
pub fn grid_program(route: &Route, value: &str, sink: &str) -> String {
    let sink_stmt = sink.replace("$E", route.expr);
    let core = format!("shout(\"B4\")\n{sink_stmt}\nshout(\"AF\")");
    let mut out = String::new();
    let prelude = route.prelude.replace("$V", value);
    if !prelude.is_empty() {
        out.push_str(&prelude);
        out.push('\n');
    }
    match route.wrap {
        Some((head, foot)) => {
            out.push_str(head);
            out.push('\n');
            out.push_str(&indent(&core, "    "));
            out.push('\n');
            out.push_str(&foot.replace("$V", value));
            out.push('\n');
        }
        None => {
            out.push_str(&core);
            out.push('\n');
        }
    }
    out
}

#[derive(Debug)]
pub enum RunVerdict {
    Rejected,
    /// accepted; `reached` = the marker before the sink was printed
    Ok { reached: bool, rt_error: Option<String> },
    Crash(String),
    Inconclusive,
}

pub fn run_program(src: &str) -> RunVerdict {
    let mut opts = RunOpts::new(Mode::FP);
    opts.policy.allow_process = true;
    let res = run_modes(src, &[opts], CASE_TIMEOUT);
    match &res[0] {
        ModeResult::Crash(c) => {
            if is_arena_exhaustion(c) || c == "timeout" {
                RunVerdict::Inconclusive
            } else {
                RunVerdict::Crash(c.clone())
            }
        }
        ModeResult::Ok(o) => {
            if !o.accepted() {
                return RunVerdict::Rejected;
            }
            let reached = o.output.iter().any(|v| *v == crate::pipeline::NVal::s("B4"));
            RunVerdict::Ok { reached, rt_error: o.rt_error().map(str::to_string) }
        }
    }
}

fn handle_case(ctx: &mut ShardCtx, stage: &str, sink: &str, ty: &str, route: &str, src: &str) {
    ctx.eval();
    match run_program(src) {
        RunVerdict::Rejected => ctx.class("rejected statically (not applicable)"),
        RunVerdict::Inconclusive => {
            ctx.inconclusive += 1;
            ctx.discard("U8 arena exhaustion / watchdog");
        }
        RunVerdict::Ok { reached, rt_error } => {
            ctx.class("accepted");
            if reached {
                ctx.nontrivial(hash_str(src));
                ctx.class(if rt_error.is_some() {
                    "accepted, sink reached, ended with a runtime diagnostic"
                } else {
                    "accepted, sink reached, ended normally"
                });
                if rt_error.is_some() {
                    ctx.sample("sink reported a runtime error", J::String(src.to_string()));
                } else {
                    ctx.sample("sink accepted the value", J::String(src.to_string()));
                }
            }
        }
        RunVerdict::Crash(c) => {
            ctx.nontrivial(hash_str(src));
            let f = Failure {
                sig: format!("crash|{c}|sink={sink}|type={ty}"),
                what: format!(
                    "accepted program crashed the interpreter ({c}); sink {sink}, runtime type {ty}, route {route}\n--- program ---\n{src}"
                ),
                input: json!({"source": src, "sink": sink, "type": ty, "route": route}),
            };
            ctx.handle(stage, Outcome::Fail(f));
        }
    }
}

// ------------------------------------------------------------- random part --

#[derive(Debug, Clone)]
struct Piece {
    route: usize,
    ty: usize,
    sink: usize,
    /// 0 = plain, 1 = inside a loop body, 2 = inside a function called once, 3 = inside if-branch
    ctx: u8,
}

fn piece_strategy() -> impl Strategy<Value = Piece> {
    (0..ROUTES.len(), 0..TYPES.len(), 0..SINKS.len(), 0u8..4).prop_map(|(route, ty, sink, ctx)| Piece {
        route,
        ty,
        sink,
        ctx,
    })
}

/// Renames the fixed identifiers of a grid fragment so that several fragments can share a program.
fn rename(src: &str, k: usize) -> String {
    let mut out = src.to_string();
    for name in ["arr", "lv", "a2", "c2", "id", "rec", "w", "g", "h", "r", "t", "x", "p", "q", "c", "n", "e"] {
        // whole-word replacement
        let mut res = String::new();
        let bytes = out.as_bytes();
        let mut i = 0;
        while i < bytes.len() {
            let is_start = i == 0 || !(bytes[i - 1].is_ascii_alphanumeric() || bytes[i - 1] == b'_' || bytes[i - 1] == b'"' && false);
            if is_start
                && out[i..].starts_with(name)
                && !out[i + name.len()..]
                    .chars()
                    .next()
                    .is_some_and(|c| c.is_ascii_alphanumeric() || c == '_')
                && !in_string(&out, i)
            {
                res.push_str(&format!("{name}_{k}"));
                i += name.len();
            } else {
                let ch = out[i..].chars().next().unwrap();
                res.push(ch);
                i += ch.len_utf8();
            }
        }
        out = res;
    }
    out
}

fn in_string(s: &str, pos: usize) -> bool {
    // grid fragments only use double-quoted literals without escapes
    s[..pos].bytes().filter(|b| *b == b'"').count() % 2 == 1
}

fn compose(pieces: &[Piece]) -> String {
    let mut out = String::new();
    for (k, p) in pieces.iter().enumerate() {
        let frag = grid_program(&ROUTES[p.route], TYPES[p.ty].1, SINKS[p.sink].1);
        let frag = rename(&frag, k);
        // every fragment is wrapped so that an early runtime error of one fragment does not
        // hide the others: each runs in its own function? A runtime error ends the program,
        // so later fragments simply stay unexecuted; order is part of the generated input.
        match p.ctx {
            1 => {
                out.push_str(&format!(
                    "make loop_{k} get 0\njasi (loop_{k} small pass 2) start\n    loop_{k} get loop_{k} add 1\n{}\nend\n",
                    indent(&frag, "    ")
                ));
            }
            2 => {
                out.push_str(&format!("do outer_{k}() start\n{}\nend\nouter_{k}()\n", indent(&frag, "    ")));
            }
            3 => {
                out.push_str(&format!("if to say (true) start\n{}\nend\n", indent(&frag, "    ")));
            }
            _ => out.push_str(&frag),
        }
    }
    out
}

impl Check for C06 {
    fn id(&self) -> &'static str {
        "C06"
    }

    fn rule(&self) -> String {
        format!(
            "(1) Bounded-exhaustive grid: {} sinks (both sides of every binary operator, unary operators, if/jasi \
             conditions, index base/value, index-assignment base/index/value, receiver and arguments of every \
             string/array/number/process method, every global built-in, interpolation, user call) x {} runtime \
             values (number, string, boolean, null, array, process_command, process_result, and further numbers - 1e35, \
             -1e32, 1e-35, 2.5, -1, 0, 1, 2, 3, 2^32, 2^53, NaN, a 320-digit literal -, empty and multi-byte strings, empty and nested arrays) x {} routes (parameter, \
             array element, pop() result, function with mixed return types, nested element, dynamically typed \
             variable, captured variable reassigned with another type, plain reassignment with another type, \
             same-block redeclaration seen by an earlier-defined function), plus {} special shapes (member access \
             without call, call of a non-name, index assignment / push on a non-variable, comot/next in a function \
             defined inside a loop, forward call before a captured variable is declared). The whole grid is \
             enumerated in every run. (2) proptest: 1..5 grid fragments composed in one program, each optionally \
             inside a loop body, a called function or an if-branch. Oracle: every program the front end accepts \
             ends normally or with a runtime diagnostic in the debug-assertion build (isolated child): panic, abort, \
             signal = violation. Non-trivial: accepted AND the marker printed directly before the sink appeared in \
             the output (the sink was reached). Distinct by source. Rejected programs are counted per run.",
            SINKS.len(),
            TYPES.len(),
            ROUTES.len(),
            SPECIALS.len()
        ) + " Sinks include built-in methods with the wrong number of arguments on dynamically typed receivers and \
             `later evaluation` shapes (loop / if condition, operand, index, method receiver that is well typed on the \
             first evaluation and ill typed on a later one, inside loops and recursion). (3) proptest: the string \
             built-ins find / replace / split / join / slice called from a script with generated (periodic, \
             near-periodic, multi-byte, long) haystacks, needles and bounds routed through parameters."
    }

    fn assumptions(&self) -> Vec<String> {
        vec![
            "process_result values are produced by spawning `true` through command(\"true\").run(); if it cannot be spawned the run ends with a runtime error before the sink".into(),
            "stdin is /dev/null (read_line returns an empty string)".into(),
        ]
    }

    fn shard(&self, ctx: &mut ShardCtx) {
        // (1) the grid, partitioned over the shards
        let mut idx = 0u32;
        for (si, (sname, sink)) in SINKS.iter().enumerate() {
            for (tname, value) in &TYPES {
                for route in &ROUTES {
                    idx += 1;
                    if idx % ctx.of != ctx.shard {
                        continue;
                    }
                    let src = grid_program(route, value, sink);
                    handle_case(ctx, "grid", sname, tname, route.name, &src);
                    let _ = si;
                }
            }
        }
        for (name, src) in &SPECIALS {
            idx += 1;
            if idx % ctx.of != ctx.shard {
                continue;
            }
            handle_case(ctx, "special", name, "-", "-", src);
        }
        ctx.exhaustive = Some(true);
        ctx.note(format!(
            "exhaustive sub-space: the complete sink x type x route grid ({} programs) and {} special shapes",
            SINKS.len() * TYPES.len() * ROUTES.len(),
            SPECIALS.len()
        ));
        // (3) string built-ins through a script (the property names tw.rs / replace.rs / string.rs)
        let n_str = ctx.tier.pick(2_500, 40_000);
        crate::prop::run(ctx, "string-builtins", n_str, crate::c13::search_strategy(), |ctx, case| {
            let crate::c13::Case::Search { hay, needle, repl } = case else {
                return Outcome::Pass;
            };
            let src = crate::c13::script_for_search(hay, needle, repl);
            ctx.eval();
            match run_program(&src) {
                RunVerdict::Crash(c) => Outcome::Fail(Failure {
                    sig: format!("crash|{c}|sink=string-builtin|type=string"),
                    what: format!("string built-in crashed the interpreter ({c})\n--- program ---\n{src}"),
                    input: json!({"kind": "strings", "source": src}),
                }),
                RunVerdict::Inconclusive => {
                    ctx.inconclusive += 1;
                    Outcome::Discard("U8 arena exhaustion / watchdog")
                }
                RunVerdict::Rejected => {
                    ctx.class("string script rejected statically");
                    Outcome::Pass
                }
                RunVerdict::Ok { .. } => {
                    ctx.class("string built-ins via script");
                    if needle.len() > 16 {
                        ctx.class("string built-ins via script, needle > 16 bytes");
                        ctx.nontrivial(hash_str(&src));
                        ctx.sample("string built-ins via script", J::String(src.clone()));
                    }
                    Outcome::Pass
                }
            }
        });
        // (2) random compositions
        let cases = ctx.tier.pick(6_000, 60_000);
        crate::prop::run(
            ctx,
            "compose",
            cases,
            prop::collection::vec(piece_strategy(), 1..5),
            |ctx, pieces| {
                let src = compose(pieces);
                ctx.eval();
                match run_program(&src) {
                    RunVerdict::Rejected => {
                        ctx.class("composition rejected statically");
                        Outcome::Pass
                    }
                    RunVerdict::Inconclusive => {
                        ctx.inconclusive += 1;
                        Outcome::Discard("U8 arena exhaustion / watchdog")
                    }
                    RunVerdict::Ok { reached, .. } => {
                        ctx.class("composition accepted");
                        if reached && pieces.len() >= 2 {
                            ctx.nontrivial(hash_str(&src));
                            ctx.sample("composition of several fragments", J::String(src.clone()));
                        }
                        Outcome::Pass
                    }
                    RunVerdict::Crash(c) => {
                        // attribute to the last fragment whose marker... unknown: use the first piece's coordinates
                        let last = pieces.last().unwrap();
                        Outcome::Fail(Failure {
                            sig: format!(
                                "crash|{c}|sink={}|type={}",
                                SINKS[last.sink].0, TYPES[last.ty].0
                            ),
                            what: format!("accepted program crashed the interpreter ({c})\n--- program ---\n{src}"),
                            input: json!({"source": src}),
                        })
                    }
                }
            },
        );
    }

    fn replay(&self, _ctx: &mut ShardCtx, _stage: &str, input: &J) -> Outcome {
        if input.get("kind").and_then(J::as_str) == Some("strings") {
            let Some(src) = input.get("source").and_then(J::as_str) else {
                return Outcome::Discard("unreadable replay input");
            };
            return match run_program(src) {
                RunVerdict::Crash(c) => Outcome::Fail(Failure {
                    sig: format!("crash|{c}|sink=string-builtin|type=string"),
                    what: format!("string built-in crashed the interpreter ({c})\n--- program ---\n{src}"),
                    input: input.clone(),
                }),
                RunVerdict::Inconclusive => Outcome::Discard("U8"),
                _ => Outcome::Pass,
            };
        }
        let Some(src) = input.get("source").and_then(J::as_str) else {
            return Outcome::Discard("unreadable replay input");
        };
        let sink = input.get("sink").and_then(J::as_str).unwrap_or("?");
        let ty = input.get("type").and_then(J::as_str).unwrap_or("?");
        match run_program(src) {
            RunVerdict::Crash(c) => Outcome::Fail(Failure {
                sig: format!("crash|{c}|sink={sink}|type={ty}"),
                what: format!("accepted program crashed the interpreter ({c})\n--- program ---\n{src}"),
                input: input.clone(),
            }),
            RunVerdict::Inconclusive => Outcome::Discard("U8"),
            _ => Outcome::Pass,
        }
    }
}
