//! Small helpers: hashing, paths.

use std::path::PathBuf;

/// FNV-1a 64-bit. Deterministic across runs and platforms (unlike `DefaultHasher`).
pub struct Fnv(u64);

impl Default for Fnv {
    fn default() -> Self {
        Self::new()
    }
}

impl Fnv {
    pub fn new() -> Self {
        Fnv(0xcbf2_9ce4_8422_2325)
    }
    pub fn write(&mut self, bytes: &[u8]) {
        for &b in bytes {
            self.0 ^= u64::from(b);
            self.0 = self.0.wrapping_mul(0x0000_0100_0000_01b3);
        }
    }
    pub fn write_u64(&mut self, v: u64) {
        self.write(&v.to_le_bytes());
    }
    pub fn finish(&self) -> u64 {
        // final avalanche (splitmix) so nearby inputs spread
        let mut z = self.0.wrapping_add(0x9e37_79b9_7f4a_7c15);
        z = (z ^ (z >> 30)).wrapping_mul(0xbf58_476d_1ce4_e5b9);
        z = (z ^ (z >> 27)).wrapping_mul(0x94d0_49bb_1331_11eb);
        z ^ (z >> 31)
    }
}

pub fn hash_bytes(b: &[u8]) -> u64 {
    let mut h = Fnv::new();
    h.write(b);
    h.finish()
}

pub fn hash_str(s: &str) -> u64 {
    hash_bytes(s.as_bytes())
}

/// SplitMix64: tiny deterministic PRNG used only *outside* proptest-driven
/// properties (e.g. stratified sampling of an enumerated grid), seeded from
/// VERIF_SEED.
pub struct SplitMix(pub u64);

impl SplitMix {
    pub fn next(&mut self) -> u64 {
        self.0 = self.0.wrapping_add(0x9e37_79b9_7f4a_7c15);
        let mut z = self.0;
        z = (z ^ (z >> 30)).wrapping_mul(0xbf58_476d_1ce4_e5b9);
        z = (z ^ (z >> 27)).wrapping_mul(0x94d0_49bb_1331_11eb);
        z ^ (z >> 31)
    }
    pub fn below(&mut self, n: u64) -> u64 {
        if n == 0 { 0 } else { self.next() % n }
    }
}

/// Root of the verification tree (directory holding MANIFEST.json).
pub fn verif_root() -> PathBuf {
    if let Ok(p) = std::env::var("VERIF_ROOT") {
        return PathBuf::from(p);
    }
    // The binary lives in <root>/target/<profile-dir>/<profile>/nsverif.
    let exe = std::env::current_exe().unwrap_or_default();
    let mut cur = exe.as_path();
    while let Some(parent) = cur.parent() {
        if parent.join("properties.jsonl").exists() {
            return parent.to_path_buf();
        }
        cur = parent;
    }
    PathBuf::from("/verif")
}

pub fn repo_root() -> PathBuf {
    PathBuf::from(std::env::var("VERIF_REPO").unwrap_or_else(|_| "/repo".to_string()))
}

pub fn hex(bytes: &[u8]) -> String {
    let mut s = String::with_capacity(bytes.len() * 2);
    for b in bytes {
        s.push_str(&format!("{b:02x}"));
    }
    s
}

pub fn unhex(s: &str) -> Vec<u8> {
    (0..s.len() / 2).map(|i| u8::from_str_radix(&s[2 * i..2 * i + 2], 16).unwrap_or(0)).collect()
}

/// Lossless, readable rendering of possibly non-UTF-8 / control-heavy bytes for evidence samples.
pub fn show(s: &str) -> String {
    let mut out = String::new();
    for ch in s.chars() {
        match ch {
            '\n' => out.push_str("\\n"),
            '\r' => out.push_str("\\r"),
            '\t' => out.push_str("\\t"),
            c if c.is_control() => out.push_str(&format!("\\u{{{:x}}}", c as u32)),
            c => out.push(c),
        }
    }
    if out.len() > 400 {
        let mut cut = 400;
        while !out.is_char_boundary(cut) {
            cut -= 1;
        }
        out.truncate(cut);
        out.push('…');
    }
    out
}
