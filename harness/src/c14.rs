//! C14 - The shipped pipeline matches the library; runs do not influence each other.
//!
//! (a) The real binary, three input routes (file, --eval, stdin), dev and release builds, versus
//! (b) the library pipeline with separate fresh arenas: stdout must be byte-identical to
//! render(resolver warnings) ++ shout lines ++ render(runtime diagnostics) and the exit status 0
//! iff no error-level diagnostic. (c) Histories of programs run back to back in one process
//! through the playground entry point (derived from wasm/src/lib.rs at build time): every
//! program's result equals its result when run alone in a fresh process.

use std::time::Duration;

use proptest::prelude::*;
use serde_json::{Value as J, json};

use crate::c09::{Injection, OPS, inject};
use crate::ctx::{Failure, Outcome, ShardCtx};
use crate::driver::Check;
use crate::isolate;
use crate::nsgen::build::generate;
use crate::nsgen::print::to_source;
use crate::proc::{self, Build};
use crate::progs::{is_arena_exhaustion, profile_by_name, tape_strategy};
use crate::util::{hash_str, hex, show, unhex};

pub struct C14;

#[allow(dead_code, clippy::all)]
mod playground {
    include!(concat!(env!("OUT_DIR"), "/playground.rs"));
}

/// Library pipeline with separate fresh arenas; returns (stdout bytes, success).
fn library_stdout(src: &str, filename: &str) -> (Vec<u8>, bool) {
    use naijascript::arena::Arena;
    use naijascript::resolver::Resolver;
    use naijascript::runtime::Runtime;
    use naijascript::syntax::parser::Parser;
    use naijascript::syntax::scanner::Lexer;
    let arena = Arena::new(256 << 20).expect("arena");
    let res_arena = Arena::new(256 << 20).expect("arena");
    let frame = Arena::new(256 << 20).expect("arena");
    let mut out: Vec<u8> = Vec::new();
    let lexer = Lexer::new(src, &arena);
    let mut parser = Parser::new(lexer, &arena);
    let (root, errs) = parser.parse_program();
    if !errs.diagnostics.is_empty() {
        out.extend_from_slice(errs.render_ansi(src, filename).as_bytes());
        return (out, false);
    }
    let mut resolver = Resolver::with_facts_arena(&res_arena, &arena);
    resolver.resolve(root);
    if !resolver.errors.diagnostics.is_empty() {
        out.extend_from_slice(resolver.errors.render_ansi(src, filename).as_bytes());
    }
    if resolver.errors.has_errors() {
        return (out, false);
    }
    let (facts, plan) = resolver.into_artifacts();
    let mut runtime = Runtime::new(&arena, Some(&frame));
    runtime.run_with_analysis(root, &facts, plan.as_ref());
    for v in &runtime.output {
        out.extend_from_slice(format!("{v}\n").as_bytes());
    }
    let ok = !runtime.errors.has_errors();
    if !runtime.errors.diagnostics.is_empty() {
        out.extend_from_slice(runtime.errors.render_ansi(src, filename).as_bytes());
    }
    (out, ok)
}

fn isolated_library(src: &str, filename: &str) -> Result<(Vec<u8>, bool), String> {
    let iso = isolate::run(isolate::Opts { timeout: Duration::from_secs(20), ..Default::default() }, |out| {
        let (bytes, ok) = library_stdout(src, filename);
        out.frame(&[u8::from(ok)]);
        out.frame(&bytes);
    });
    if !iso.clean() || iso.frames.len() != 2 {
        return Err(iso.crash_kind().unwrap_or_else(|| "no result".into()));
    }
    Ok((iso.frames[1].clone(), iso.frames[0] == [1]))
}

/// Optional leading filler that makes the text longer than k x 8192 bytes with multi-byte characters
/// around that offset (input arrives in reads of that size), as a comment or as a printed string.
#[derive(Debug, Clone, Copy)]
pub struct Pad {
    /// 0 = `# filler`, 1 = `make zzpad get "filler"` + `shout(zzpad.len())`
    pub kind: u8,
    /// 0..4 ASCII bytes in front of the repeated character (alignment)
    pub shift: u8,
    /// 0 = `é` (2 bytes), 1 = `世` (3 bytes), 2 = `🌎` (4 bytes)
    pub ch: u8,
    /// the filler ends 8..16 bytes after boundary x 8192 (1..=3)
    pub boundary: u8,
}

impl Pad {
    fn wrap(&self, base: &str) -> String {
        let ch = ["é", "世", "🌎"][usize::from(self.ch % 3)];
        let head = if self.kind == 0 { "# " } else { "make zzpad get \"" };
        let target = usize::from(self.boundary.clamp(1, 3)) * 8192 + 8;
        let mut s = String::with_capacity(target + base.len() + 64);
        s.push_str(head);
        for _ in 0..self.shift % 4 {
            s.push('x');
        }
        while s.len() < target {
            s.push_str(ch);
        }
        if self.kind == 0 {
            s.push('\n');
        } else {
            s.push_str("\"\nshout(zzpad.len())\n");
        }
        s.push_str(base);
        s
    }
}

#[derive(Debug, Clone)]
pub struct ProgSpec {
    pub tape: Vec<u8>,
    pub injection: Option<(u8, u16, u8)>,
    pub pad: Option<Pad>,
    /// sizes of the leading writes when the text is fed through standard input (rest in one write)
    pub feed: Vec<u16>,
    /// index into `FRAMES`: blank lines / indentation in front of the text and white space after it
    pub frame: u8,
    /// Some((kind, n)): instead of a generated program, n statements that each produce one
    /// diagnostic (kind 0 undeclared variable, 1 syntax error, 2 unused-variable warning, 3 mixed)
    pub many: Option<(u8, u16)>,
}

/// (before, after) the program text
const FRAMES: [(&str, &str); 8] = [
    ("", ""),
    ("\n\n", ""),
    ("    ", ""),
    ("\t", "\n\n"),
    ("\r\n\r\n", "\r\n"),
    (" \n \n  ", "   "),
    ("\n", "\n \t\n"),
    ("# first line\n\n", "\n# last line"),
];

impl ProgSpec {
    fn source(&self) -> String {
        let (mut p, _) = generate(&self.tape, profile_by_name("general"));
        if let Some((op, site, variant)) = self.injection {
            let _ = inject(&mut p, &Injection { op, site, variant });
        }
        let base = match self.many {
            Some((kind, n)) => {
                let mut s = String::new();
                for i in 0..n {
                    match if kind == 3 { (i % 3) as u8 } else { kind } {
                        0 => s.push_str(&format!("shout(nobody{i})\n")),
                        1 => s.push_str(&format!("make {i} get\n")),
                        _ => s.push_str(&format!("make unused{i} get {i}\n")),
                    }
                }
                s.push_str("shout(\"done\")\n");
                s
            }
            None => to_source(&p),
        };
        let text = match &self.pad {
            Some(pad) => pad.wrap(&base),
            None => base,
        };
        let (before, after) = FRAMES[usize::from(self.frame) % FRAMES.len()];
        format!("{before}{text}{after}")
    }
    fn to_json(&self) -> J {
        json!({
            "tape": hex(&self.tape),
            "injection": self.injection.map(|(a, b, c)| json!([a, b, c])),
            "pad": self.pad.map(|p| json!([p.kind, p.shift, p.ch, p.boundary])),
            "feed": self.feed,
            "frame": self.frame,
            "many": self.many.map(|(k, n)| json!([k, n])),
        })
    }
    fn from_json(j: &J) -> Option<ProgSpec> {
        let n = |a: &Vec<J>, i: usize| a.get(i).and_then(J::as_u64).unwrap_or(0);
        Some(ProgSpec {
            tape: unhex(j.get("tape")?.as_str()?),
            injection: j.get("injection").and_then(J::as_array).map(|a| (n(a, 0) as u8, n(a, 1) as u16, n(a, 2) as u8)),
            pad: j
                .get("pad")
                .and_then(J::as_array)
                .map(|a| Pad { kind: n(a, 0) as u8, shift: n(a, 1) as u8, ch: n(a, 2) as u8, boundary: n(a, 3) as u8 }),
            feed: j
                .get("feed")
                .and_then(J::as_array)
                .map(|a| a.iter().filter_map(J::as_u64).map(|x| x as u16).collect())
                .unwrap_or_default(),
            frame: j.get("frame").and_then(J::as_u64).unwrap_or(0) as u8,
            many: j.get("many").and_then(J::as_array).map(|a| (n(a, 0) as u8, n(a, 1) as u16)),
        })
    }
}

fn prog_strategy() -> impl Strategy<Value = ProgSpec> {
    let base = prop_oneof![
        3 => tape_strategy(500).prop_map(|tape| (tape, None)),
        1 => (tape_strategy(300), 0..OPS, any::<u16>(), any::<u8>())
            .prop_map(|(tape, op, site, variant)| (tape, Some((op, site, variant)))),
    ];
    let pad = prop_oneof![
        3 => Just(None),
        1 => (0u8..2, 0u8..4, 0u8..3, 1u8..4).prop_map(|(kind, shift, ch, boundary)| Some(Pad { kind, shift, ch, boundary })),
    ];
    let feed = prop_oneof![
        2 => Just(Vec::new()),
        1 => prop::collection::vec(
            prop_oneof![3 => 1u16..64, 2 => prop::sample::select(vec![4095u16, 4096, 8191, 8192, 8193, 16_383]), 1 => 64u16..20_000],
            1..5
        ),
    ];
    let frame = prop_oneof![2 => Just(0u8), 3 => 1u8..8];
    (base, pad, feed, frame).prop_map(|((tape, injection), pad, feed, frame)| ProgSpec {
        tape,
        injection,
        pad,
        feed,
        frame,
        many: None,
    })
}

/// Texts with a chosen number of diagnostics, in particular around multiples of 256 (an exit
/// status is one byte).
fn many_strategy() -> impl Strategy<Value = ProgSpec> {
    let n = prop_oneof![
        2 => 1u16..40,
        3 => 250u16..262,
        2 => 506u16..518,
        1 => 762u16..774,
        1 => 1018u16..1030,
    ];
    (0u8..4, n, 0u8..8).prop_map(|(kind, n, frame)| ProgSpec {
        tape: Vec::new(),
        injection: None,
        pad: None,
        feed: Vec::new(),
        frame,
        many: Some((kind, n)),
    })
}

fn run_cli(build: Build, route: u8, src: &str, feed: &[u16], dir: &proc::TempDir) -> Option<(proc::Output, String)> {
    let exe = proc::naija_path(build);
    let mut run = proc::Run::new(&exe);
    run.timeout = Duration::from_secs(20);
    let filename;
    match route {
        0 => {
            let path = dir.file("case.ns");
            std::fs::write(&path, src).ok()?;
            filename = path.to_string_lossy().into_owned();
            run.args = vec![path.into_os_string()];
        }
        1 => {
            filename = "<eval>".to_string();
            run.args = vec!["--eval".into(), src.into()];
        }
        3 => {
            // a script path that is not a regular file: the text arrives through a pipe
            filename = "/dev/stdin".to_string();
            run.args = vec!["/dev/stdin".into()];
            run.stdin = proc::StdinPlan::Pipe(vec![proc::Chunk { bytes: src.as_bytes().to_vec(), pause_ms: 0 }]);
        }
        _ => {
            filename = "<stdin>".to_string();
            run.args = vec!["-".into()];
            // the text goes down the pipe in the planned writes (they may split characters)
            let bytes = src.as_bytes();
            let mut chunks = Vec::new();
            let mut off = 0usize;
            for n in feed {
                let n = usize::from(*n).min(bytes.len() - off);
                if n == 0 {
                    break;
                }
                chunks.push(proc::Chunk { bytes: bytes[off..off + n].to_vec(), pause_ms: 2 });
                off += n;
            }
            chunks.push(proc::Chunk { bytes: bytes[off..].to_vec(), pause_ms: if off > 0 { 2 } else { 0 } });
            run.stdin = proc::StdinPlan::Pipe(chunks);
        }
    }
    proc::run(&run).ok().map(|o| (o, filename))
}

const ROUTES: [&str; 4] = ["file", "--eval", "stdin", "file=/dev/stdin (pipe)"];

fn check_cli(ctx: &mut ShardCtx, spec: &ProgSpec, builds: &[Build]) -> Outcome {
    let src = spec.source();
    ctx.eval();
    if src.is_empty() || src.contains('\0') {
        return Outcome::Discard("empty text (--eval needs a non-empty argument)");
    }
    let Ok(dir) = proc::TempDir::new("c14") else {
        ctx.inconclusive += 1;
        return Outcome::Discard("cannot create a temp dir");
    };
    let input = json!({"kind": "cli", "prog": spec.to_json(), "source": src});
    let mut first: Option<(Vec<u8>, proc::End)> = None;
    for &build in builds {
        for route in 0..4u8 {
            let Some((out, filename)) = run_cli(build, route, &src, &spec.feed, &dir) else {
                ctx.inconclusive += 1;
                return Outcome::Discard("cannot spawn naija");
            };
            let lib = match isolated_library(&src, &filename) {
                Ok(x) => x,
                Err(c) => {
                    if is_arena_exhaustion(&c) {
                        // deterministic: the program needs more memory than the arenas hold
                        return Outcome::Discard("U8 arena exhaustion (program outside the compared domain)");
                    }
                    if c == "timeout" {
                        ctx.inconclusive += 1;
                        return Outcome::Discard("watchdog");
                    }
                    // library crash is C06/C07's matter; here only report if the CLI does NOT crash alike
                    return Outcome::Discard("library pipeline crashed (see C06/C07)");
                }
            };
            let where_ = format!("{} build, route {}", build.name(), ROUTES[usize::from(route)]);
            match out.end {
                proc::End::Timeout => {
                    ctx.inconclusive += 1;
                    return Outcome::Discard("watchdog");
                }
                proc::End::Signaled(s) => {
                    return Outcome::Fail(Failure {
                        sig: format!("cli-killed-by-signal|{}|{}", isolate::signal_name(s), build.name()),
                        what: format!("{where_}: naija died by {} while the library pipeline finished\n--- program ---\n{src}", isolate::signal_name(s)),
                        input,
                    });
                }
                proc::End::Exited(code) => {
                    let want_ok = lib.1;
                    if (code == 0) != want_ok {
                        return Outcome::Fail(Failure {
                            sig: format!("exit-status|want_ok={want_ok}|got={code}"),
                            what: format!("{where_}: exit status {code}, library says success={want_ok}\n--- program ---\n{src}"),
                            input,
                        });
                    }
                    if out.stdout != lib.0
                        && lib.0.windows(14).any(|w| w == b"Stack overflow")
                        && out.stdout.windows(14).any(|w| w == b"Stack overflow")
                    {
                        // how many levels fit into the stack budget depends on the build profile
                        // (C08's matter); both sides did report the overflow
                        return Outcome::Discard("depth limit reached: level count differs between build profiles");
                    }
                    if out.stdout != lib.0 {
                        let cli_s = String::from_utf8_lossy(&out.stdout);
                        let lib_s = String::from_utf8_lossy(&lib.0);
                        return Outcome::Fail(Failure {
                            sig: format!("stdout-differs|{}", ROUTES[usize::from(route)]),
                            what: format!(
                                "{where_}: stdout differs from the library pipeline\n--- cli ---\n{}\n--- library ---\n{}\n--- program ---\n{src}",
                                show(&cli_s),
                                show(&lib_s)
                            ),
                            input,
                        });
                    }
                    // the three routes must agree with each other modulo the file name in locations:
                    // compare the shout part only (everything identical when there are no diagnostics)
                    if let Some((f_out, f_end)) = &first {
                        if *f_end != out.end {
                            return Outcome::Fail(Failure {
                                sig: "routes-disagree|exit".into(),
                                what: format!("{where_}: exit differs from the first route\n--- program ---\n{src}"),
                                input,
                            });
                        }
                        let _ = f_out;
                    } else {
                        first = Some((out.stdout.clone(), out.end));
                    }
                }
            }
        }
    }
    let (lib_out, ok) = isolated_library(&src, "x").unwrap_or_default();
    let lines = lib_out.iter().filter(|b| **b == b'\n').count();
    if !ok {
        ctx.class("program ends with an error diagnostic");
    }
    if lib_out.windows(7).any(|w| w == b"warning") {
        ctx.class("program has warnings");
    }
    if (1..=src.len() / 8192).any(|k| !src.is_char_boundary(k * 8192)) {
        ctx.class("text longer than 8 KiB with a character across a multiple of 8192 bytes");
    } else if src.len() > 8192 {
        ctx.class("text longer than 8 KiB");
    }
    if !spec.feed.is_empty() {
        ctx.class("standard input delivered in several writes");
    }
    if spec.frame % 8 != 0 {
        ctx.class("white space / comment lines around the text");
    }
    if let Some((_, n)) = spec.many {
        ctx.class(if (250..262).contains(&n) || n > 500 { "text with about 256 x k diagnostics" } else { "text with many diagnostics" });
    }
    if lines >= 3 {
        ctx.nontrivial(hash_str(&src));
        let shown = if src.len() > 600 { format!("{} ... ({} bytes)", &src[..src.floor_char_boundary(300)], src.len()) } else { src.clone() };
        ctx.sample("cli program", J::String(shown));
    }
    Outcome::Pass
}

fn playground_results(sources: &[String]) -> Result<Vec<String>, String> {
    let iso = isolate::run(isolate::Opts { timeout: Duration::from_secs(30), ..Default::default() }, |out| {
        for s in sources {
            let r = playground::run_source(s, "play.ns");
            out.frame(r.as_bytes());
        }
    });
    if !iso.clean() || iso.frames.len() != sources.len() {
        return Err(format!(
            "{} after {} of {} programs",
            iso.crash_kind().unwrap_or_else(|| "missing frames".into()),
            iso.frames.len(),
            sources.len()
        ));
    }
    Ok(iso.frames.iter().map(|f| String::from_utf8_lossy(f).into_owned()).collect())
}

fn check_history(ctx: &mut ShardCtx, progs: &[ProgSpec], order: &[usize]) -> Outcome {
    assert!(playground::DERIVED, "wasm/src/lib.rs no longer has the shape the derivation expects");
    let sources: Vec<String> = progs.iter().map(ProgSpec::source).collect();
    let history: Vec<usize> = order.iter().map(|i| (*i).min(sources.len() - 1)).collect();
    ctx.eval();
    let input = json!({
        "kind": "history",
        "progs": progs.iter().map(ProgSpec::to_json).collect::<Vec<_>>(),
        "order": history,
        "source": history.iter().map(|i| sources[*i].clone()).collect::<Vec<_>>().join("\n# ---- next program ----\n"),
    });
    // each program alone, in a fresh process
    let mut alone: Vec<Option<String>> = Vec::new();
    for s in &sources {
        match playground_results(std::slice::from_ref(s)) {
            Ok(r) => alone.push(Some(r[0].clone())),
            Err(c) => {
                if is_arena_exhaustion(&c) {
                    return Outcome::Discard("U8 program alone exhausts the 16 MiB playground arenas (outside the compared domain)");
                }
                if c.starts_with("timeout") {
                    ctx.inconclusive += 1;
                    return Outcome::Discard("watchdog");
                }
                return Outcome::Discard("program crashes on its own (see C06/C07)");
            }
        }
    }
    let seq: Vec<String> = history.iter().map(|i| sources[*i].clone()).collect();
    let got = match playground_results(&seq) {
        Ok(g) => g,
        Err(c) => {
            if c.starts_with("timeout") {
                ctx.inconclusive += 1;
                return Outcome::Discard("watchdog");
            }
            if is_arena_exhaustion(&c) {
                // every program fits alone; memory that is not given back between runs is exactly
                // an influence of the history
                return Outcome::Fail(Failure {
                    sig: "history-exhausts-arena".into(),
                    what: format!("every program runs alone within the 16 MiB playground arenas, but the history ran out of arena memory: {c}"),
                    input,
                });
            }
            return Outcome::Fail(Failure {
                sig: format!("history-crash|{}", isolate::normalise_panic(&c)),
                what: format!("every program runs alone, but the history crashed: {c}"),
                input,
            });
        }
    };
    let failing_then_ok = history.windows(2).any(|w| {
        alone[w[0]].as_ref().is_some_and(|r| r.contains("error")) && alone[w[1]].as_ref().is_some_and(|r| !r.contains("error"))
    });
    let repeats = history.iter().enumerate().any(|(k, i)| history[..k].contains(i));
    if failing_then_ok {
        ctx.class("failing program followed by a succeeding one");
    }
    if repeats {
        ctx.class("same program run twice in one process");
    }
    if history.len() >= 2 && (failing_then_ok || repeats) {
        ctx.nontrivial(hash_str(&seq.concat()));
        ctx.sample("history", json!({"order": history, "first_program": sources[history[0]]}));
    }
    for (pos, (i, g)) in history.iter().zip(&got).enumerate() {
        let want = alone[*i].as_ref().unwrap();
        if g != want {
            return Outcome::Fail(Failure {
                sig: format!("history-influences-result|{}", if pos == 0 { "first" } else { "later" }),
                what: format!(
                    "program #{i} at position {pos} of the history gives a different result than when run alone\n--- alone ---\n{}\n--- in history ---\n{}",
                    show(want),
                    show(g)
                ),
                input,
            });
        }
    }
    Outcome::Pass
}

impl Check for C14 {
    fn id(&self) -> &'static str {
        "C14"
    }

    fn rule(&self) -> String {
        "Programs: `general` profile (accepted, incl. planted runtime errors and warnings) and C09-injected variants (statically \
         rejected); a quarter carry a leading filler (comment or printed string) that makes the text longer than 8, 16 or 24 KiB \
         with 2-, 3- or 4-byte characters across that offset, and a third of the stdin runs deliver the text in several writes \
         that may split characters. (a) Each program is run through the real binary by file, --eval, stdin and by a script path that is a pipe (/dev/stdin) in the dev build (and, for a \
         sample, the release build) and through the library pipeline with three separate fresh arenas using the same file \
         name: stdout must be byte-identical to rendered resolver warnings + shout lines + rendered runtime diagnostics, the \
         exit status 0 iff no error-level diagnostic, never a signal. (b) Histories: 1..4 programs, an order of 1..8 runs \
         over them (repeats likely), executed back to back in ONE process through the playground entry point derived from \
         wasm/src/lib.rs (wasm attributes stripped, HTML conversion = identity, re-initialised scratch arenas): the result at \
         every position must equal the result of that program run alone in a fresh process. Non-trivial: (a) program prints \
         >= 3 lines; (b) history of >= 2 runs containing a repeat or a failing program followed by a succeeding one. \
         Distinct by source text(s)."
            .into()
    }

    fn assumptions(&self) -> Vec<String> {
        vec![
            "programs do not call read_line or command".into(),
            "the playground uses 16 MiB scratch arenas; a program that exhausts them when run alone is outside the compared domain (counted as discarded); a history of programs that each fit alone must fit as well".into(),
            "programs that crash on their own are C06/C07's matter and are skipped here".into(),
        ]
    }

    fn shard(&self, ctx: &mut ShardCtx) {
        proc::require_binaries();
        assert!(playground::DERIVED, "wasm/src/lib.rs no longer has the shape the derivation expects (harness/build.rs)");
        ctx.max_shrink_iters = 250; // every evaluation runs several renderings / subprocesses
        let t = ctx.tier;
        crate::prop::run(ctx, "cli-dev", t.pick(90, 1_400), prog_strategy(), |ctx, spec| {
            check_cli(ctx, spec, &[Build::Debug])
        });
        crate::prop::run(ctx, "cli-release", t.pick(25, 400), prog_strategy(), |ctx, spec| {
            check_cli(ctx, spec, &[Build::Release])
        });
        crate::prop::run(ctx, "cli-many-diagnostics", t.pick(30, 400), many_strategy(), |ctx, spec| {
            check_cli(ctx, spec, &[Build::Debug])
        });
        let hist = (
            prop::collection::vec(prog_strategy(), 1..4),
            prop::collection::vec(any::<prop::sample::Index>(), 1..8),
        );
        crate::prop::run(ctx, "history", t.pick(250, 4_000), hist, |ctx, (progs, order)| {
            let order: Vec<usize> = order.iter().map(|i| i.index(progs.len())).collect();
            check_history(ctx, progs, &order)
        });
    }

    fn replay(&self, ctx: &mut ShardCtx, _stage: &str, input: &J) -> Outcome {
        match input.get("kind").and_then(J::as_str) {
            Some("cli") => match input.get("prog").and_then(ProgSpec::from_json) {
                Some(spec) => check_cli(ctx, &spec, &Build::BOTH),
                None => Outcome::Discard("unreadable replay input"),
            },
            Some("history") => {
                let progs: Vec<ProgSpec> = input
                    .get("progs")
                    .and_then(J::as_array)
                    .map(|a| a.iter().filter_map(ProgSpec::from_json).collect())
                    .unwrap_or_default();
                let order: Vec<usize> = input
                    .get("order")
                    .and_then(J::as_array)
                    .map(|a| a.iter().filter_map(J::as_u64).map(|x| x as usize).collect())
                    .unwrap_or_default();
                if progs.is_empty() || order.is_empty() {
                    return Outcome::Discard("unreadable replay input");
                }
                check_history(ctx, &progs, &order)
            }
            _ => Outcome::Discard("unreadable replay input"),
        }
    }
}
