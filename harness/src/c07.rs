//! C07 - The front end is total: any text yields diagnostics or a program, not a crash.
//!
//! Generators: (a) token soup over a vocabulary of every keyword, punctuation, identifier,
//! number / string / comment shape, whitespace kind and multi-byte character, with and without
//! separators; (b) token-level mutations, truncations, splices and line-ending rewrites of
//! valid programs (nsgen output and the repository's example / stress scripts); (c) a libFuzzer
//! byte-level target in the thorough tier (fuzz/, triaged through the same oracle).
//! Oracle (inside an isolated child): lex + parse (+ resolve when the parser is clean) return;
//! every diagnostic and label span satisfies start <= end <= len on char boundaries;
//! render_ansi returns valid UTF-8; a text whose front end reported an error is never executed
//! by the real binary (marker statement).

use std::time::Duration;

use proptest::prelude::*;
use serde_json::{Value as J, json};

use crate::ctx::{Failure, Outcome, ShardCtx};
use crate::driver::Check;
use crate::isolate;
use crate::nsgen::build::generate;
use crate::nsgen::print::{Tok, render_canonical, tokens};
use crate::proc;
use crate::progs::{profile_by_name, tape_strategy};
use crate::util::{hash_str, repo_root, show};

pub struct C07;

#[derive(Debug, Clone, PartialEq)]
pub struct FrontSummary {
    pub parse_diags: u32,
    pub resolve_diags: u32,
    /// the pipelines would refuse to run this text
    pub has_error: bool,
    pub statements: u32,
}

/// The oracle. Runs inside the child; returns Err(signature, description) on a violation.
pub fn front_check(src: &str) -> Result<FrontSummary, (String, String)> {
    use naijascript::arena::Arena;
    use naijascript::diagnostics::Diagnostics;
    use naijascript::resolver::Resolver;
    use naijascript::syntax::parser::Parser;
    use naijascript::syntax::scanner::Lexer;

    fn spans_ok(d: &Diagnostics<'_>, src: &str, stage: &str) -> Result<(), (String, String)> {
        let len = src.len();
        for diag in &d.diagnostics {
            let mut all = vec![("diagnostic", diag.span.start, diag.span.end)];
            for l in &diag.labels {
                all.push(("label", l.span.start, l.span.end));
            }
            for (what, s, e) in all {
                let bad = if s > e {
                    Some("start > end")
                } else if e > len {
                    Some("end beyond the text")
                } else if !src.is_char_boundary(s) || !src.is_char_boundary(e) {
                    Some("not on a character boundary")
                } else {
                    None
                };
                if let Some(why) = bad {
                    return Err((
                        format!("bad-span|{stage}|{}|{why}", diag.message),
                        format!("{stage} {what} span {s}..{e} of `{}` is invalid ({why}); text length {len}", diag.message),
                    ));
                }
            }
        }
        let rendered = d.render_ansi(src, "case.ns");
        if std::str::from_utf8(rendered.as_bytes()).is_err() {
            return Err((format!("render-invalid-utf8|{stage}"), "render_ansi produced invalid UTF-8".into()));
        }
        Ok(())
    }

    let arena = Arena::new(512 << 20).expect("arena");
    let lexer = Lexer::new(src, &arena);
    let mut parser = Parser::new(lexer, &arena);
    let (root, errs) = parser.parse_program();
    spans_ok(errs, src, "parser")?;
    let parse_diags = errs.diagnostics.len() as u32;
    let statements = root.stmts.len() as u32;
    if parse_diags > 0 {
        return Ok(FrontSummary { parse_diags, resolve_diags: 0, has_error: true, statements });
    }
    // static checking runs exactly where the shipped pipelines run it: on a parser-clean AST
    let mut resolver = Resolver::new(&arena);
    resolver.resolve(root);
    spans_ok(&resolver.errors, src, "resolver")?;
    Ok(FrontSummary {
        parse_diags,
        resolve_diags: resolver.errors.diagnostics.len() as u32,
        has_error: resolver.errors.has_errors(),
        statements,
    })
}

pub enum Verdict {
    Ok(FrontSummary),
    Bad(String, String),
    Crash(String),
    Hang,
}

pub fn isolated_front_check(src: &str) -> Verdict {
    let iso = isolate::run(isolate::Opts { timeout: Duration::from_secs(10), ..Default::default() }, |out| {
        match front_check(src) {
            Ok(s) => out.frame(format!("ok {} {} {} {}", s.parse_diags, s.resolve_diags, u8::from(s.has_error), s.statements).as_bytes()),
            Err((sig, what)) => out.frame(format!("bad\n{sig}\n{what}").as_bytes()),
        }
    });
    if iso.end == isolate::End::Timeout {
        return Verdict::Hang;
    }
    if !iso.clean() || iso.frames.is_empty() {
        return Verdict::Crash(iso.crash_kind().unwrap_or_else(|| "no result".into()));
    }
    let text = String::from_utf8_lossy(&iso.frames[0]).into_owned();
    if let Some(rest) = text.strip_prefix("ok ") {
        let n: Vec<u32> = rest.split(' ').filter_map(|x| x.parse().ok()).collect();
        if n.len() == 4 {
            return Verdict::Ok(FrontSummary { parse_diags: n[0], resolve_diags: n[1], has_error: n[2] != 0, statements: n[3] });
        }
    }
    let mut it = text.splitn(3, '\n');
    let _ = it.next();
    Verdict::Bad(it.next().unwrap_or("bad").to_string(), it.next().unwrap_or("").to_string())
}

/// Which construct the crash is about (semantic class of the signature): the first
/// "interesting" feature of the shrunk text.
fn text_class(src: &str) -> &'static str {
    if src.len() > 100_000 {
        "huge"
    } else if !src.is_ascii() {
        "non-ascii"
    } else if src.contains('"') || src.contains('\'') {
        "string"
    } else if src.bytes().any(|b| b.is_ascii_digit()) {
        "number"
    } else {
        "other"
    }
}

fn classify(ctx: &mut ShardCtx, src: &str, s: &FrontSummary) {
    let multibyte = !src.is_ascii();
    let verdict = if s.parse_diags > 0 {
        "parser reported diagnostics"
    } else if s.has_error {
        "resolver reported errors"
    } else {
        "front end clean"
    };
    ctx.class(verdict);
    if src.len() <= 400 && (s.statements >= 2 || s.parse_diags + s.resolve_diags > 0) {
        let cls = if multibyte { format!("{verdict}, multi-byte text") } else { verdict.to_string() };
        ctx.sample(
            &cls,
            json!({"text": src, "statements": s.statements, "parse_diagnostics": s.parse_diags, "resolve_diagnostics": s.resolve_diags}),
        );
    }
    if multibyte {
        ctx.class("contains multi-byte characters");
    }
    if src.contains('\r') {
        ctx.class("contains CR");
    }
    if s.parse_diags + s.resolve_diags > 0 || multibyte || (!s.has_error && s.statements >= 3) {
        ctx.nontrivial(hash_str(src));
    }
}

/// Runs the real binary on `shout("M4RK")\n<src>`: if the front end reports an error for that
/// text, the binary must exit non-zero and never print the marker line.
fn cli_gate(ctx: &mut ShardCtx, src: &str) -> Option<Failure> {
    if src.contains("command") || src.contains("read_line") {
        return None;
    }
    let text = format!("shout(\"M4RK\")\n{src}");
    let Verdict::Ok(summary) = isolated_front_check(&text) else {
        return None; // crashes are reported by the main oracle on the original text
    };
    let exe = proc::naija_path(proc::Build::Debug);
    let mut run = proc::Run::new(&exe);
    run.args = vec!["-".into()];
    run.stdin = proc::StdinPlan::Pipe(vec![proc::Chunk { bytes: text.clone().into_bytes(), pause_ms: 0 }]);
    run.timeout = Duration::from_secs(5);
    run.max_capture = 1 << 20;
    let Ok(out) = proc::run(&run) else {
        return None;
    };
    ctx.class("CLI gate sample run");
    let marker_printed = out.stdout.split(|b| *b == b'\n').any(|l| l == b"M4RK");
    match out.end {
        proc::End::Timeout => {
            ctx.discard("CLI gate: program runs too long (not compared)");
            None
        }
        proc::End::Signaled(s) => {
            if !summary.has_error {
                // a clean text that crashes while *running* is C06's matter
                ctx.discard("CLI gate: accepted text crashed at run time (see C06)");
                return None;
            }
            Some(Failure {
                sig: format!("cli-crash-on-rejected-text|{}", isolate::signal_name(s)),
                what: format!("naija died by {} on a text the front end rejects\n--- text ---\n{}", isolate::signal_name(s), show(&text)),
                input: json!({"text": text, "stage": "cli"}),
            })
        }
        proc::End::Exited(code) => {
            if summary.has_error {
                ctx.class("CLI gate: rejected text");
                if marker_printed || code == 0 {
                    return Some(Failure {
                        sig: format!("executed-despite-error|marker={marker_printed}|exit={code}"),
                        what: format!(
                            "the front end reports an error-level diagnostic but naija exit status is {code} and marker printed = {marker_printed}\n--- text ---\n{}",
                            show(&text)
                        ),
                        input: json!({"text": text, "stage": "cli"}),
                    });
                }
            } else {
                ctx.class("CLI gate: accepted text");
                // A runtime diagnostic proves the text *was* executed (e.g. `shout("M4RK")\n(0)` is one
                // statement, a call of a call result, which stops with "Type mismatch" before printing).
                let reached_runtime = out.stdout.windows(14).any(|w| w == b"error[runtime]");
                if !marker_printed && reached_runtime {
                    ctx.class("CLI gate: accepted text stopped by a runtime diagnostic before the marker");
                } else if !marker_printed {
                    return Some(Failure {
                        sig: "clean-text-not-executed".into(),
                        what: format!("front end clean but the marker was not printed (exit {code})\n--- text ---\n{}", show(&text)),
                        input: json!({"text": text, "stage": "cli"}),
                    });
                }
            }
            None
        }
    }
}

pub fn check_text(ctx: &mut ShardCtx, src: &str, with_cli: bool) -> Outcome {
    ctx.eval();
    let input = json!({"text": src});
    match isolated_front_check(src) {
        Verdict::Ok(s) => {
            classify(ctx, src, &s);
            if with_cli && let Some(f) = cli_gate(ctx, src) {
                return Outcome::Fail(f);
            }
            Outcome::Pass
        }
        Verdict::Bad(sig, what) => Outcome::Fail(Failure {
            sig,
            what: format!("{what}\n--- text ---\n{}", show(src)),
            input,
        }),
        Verdict::Crash(c) => {
            if crate::progs::is_arena_exhaustion(&c) {
                ctx.inconclusive += 1;
                return Outcome::Discard("U8 arena exhaustion");
            }
            Outcome::Fail(Failure {
                sig: format!("crash|{c}|{}", text_class(src)),
                what: format!("the front end crashed ({c})\n--- text ---\n{}", show(src)),
                input,
            })
        }
        Verdict::Hang => {
            // termination is part of the statement: confirm once more before reporting
            if matches!(isolated_front_check(src), Verdict::Hang) {
                Outcome::Fail(Failure {
                    sig: format!("hang|{}", text_class(src)),
                    what: format!("the front end did not finish within 10 s (twice) on {} bytes\n--- text ---\n{}", src.len(), show(src)),
                    input,
                })
            } else {
                ctx.inconclusive += 1;
                Outcome::Discard("watchdog (not reproducible)")
            }
        }
    }
}

// ------------------------------------------------------------- generators --

const VOCAB: &[&str] = &[
    // keywords, also the pieces of the multi-word ones
    "make", "get", "add", "minus", "times", "divide", "mod", "and", "or", "not", "jasi", "start", "end",
    "comot", "next", "na", "pass", "small pass", "small", "if to say", "if not so", "if", "to", "say", "so",
    "do", "return", "true", "false", "null",
    // punctuation
    "(", ")", "[", "]", ",", ".", "((", "))", "[]", "()",
    // identifiers and built-ins
    "x", "y", "foo", "_a1", "shout", "typeof", "to_string", "len", "push", "pop", "slice", "join", "abs",
    "x1y", "Make", "ENDS", "iff", "smallpass", "maker",
    // number shapes
    "1", "0", "42", "1.5", "1.", "1.e", "1x", "007", "1.2.3", "3.", "9999999999999999999999", "0.0000001", ".5",
    // string shapes
    "\"abc\"", "'x'", "\"a\\n\\t\\\\\\\"\"", "\"\\q\"", "\"unterminated", "'unterminated", "\"trailing\\", "\"{x}\"",
    "\"{ y }\"", "\"{\"", "\"}}\"", "\"{{x}}\"", "\"{ x\"", "\"{1}\"", "\"é{x}世\"", "\"\"", "''", "\"a'b\"",
    "\"line\nbreak\"", "\"cr\rhere\"",
    // comments
    "# comment\n", "#", "# é世🌎\r", "#\"\n", "# make x get 1\r\n",
    // whitespace kinds
    " ", "\t", "\n", "\r", "\r\n", "\x0c", "\x0b", "  \n\n",
    // multi-byte characters and odd ASCII
    "é", "世", "🌎", "\u{a0}", "\u{2028}", "ß", "\u{feff}", "\u{0}",
    ";", "{", "}", "=", "+", "-", "@", "\\", "`", "!", "$", "%",
];

const SEPS: [&str; 6] = ["", " ", "\n", "\t", "\r\n", "  "];

fn soup_strategy() -> impl Strategy<Value = String> {
    prop::collection::vec((0..VOCAB.len(), 0..SEPS.len()), 0..80).prop_map(|items| {
        let mut s = String::new();
        for (v, sep) in items {
            s.push_str(VOCAB[v]);
            s.push_str(SEPS[sep]);
        }
        s
    })
}

/// statement-shaped soup: more likely to get past the parser into the resolver
fn shaped_soup_strategy() -> impl Strategy<Value = String> {
    let expr = prop::collection::vec(0..VOCAB.len(), 1..6)
        .prop_map(|v| v.into_iter().map(|i| VOCAB[i]).collect::<Vec<_>>().join(" "));
    let stmt = (0u8..8, expr.clone(), expr).prop_map(|(k, a, b)| match k {
        0 => format!("make x get {a}"),
        1 => format!("x get {a}"),
        2 => format!("shout({a})"),
        3 => format!("if to say ({a}) start {b} end"),
        4 => format!("jasi ({a}) start {b} comot end"),
        5 => format!("do foo(x, y) start return {a} end"),
        6 => format!("x[{a}] get {b}"),
        _ => format!("start {a} end"),
    });
    prop::collection::vec(stmt, 0..12).prop_map(|v| v.join("\n"))
}

fn tok_text(t: &Tok) -> String {
    render_canonical(std::slice::from_ref(t)).trim_end_matches('\n').to_string()
}

#[derive(Debug, Clone)]
enum Mutation {
    DeleteTok(prop::sample::Index),
    DupTok(prop::sample::Index),
    SwapTok(prop::sample::Index),
    InsertVocab(prop::sample::Index, usize),
    ReplaceVocab(prop::sample::Index, usize),
    Truncate(prop::sample::Index),
    LineEndings(u8),
    SpliceTail(prop::sample::Index),
}

fn mutation_strategy() -> impl Strategy<Value = Mutation> {
    prop_oneof![
        any::<prop::sample::Index>().prop_map(Mutation::DeleteTok),
        any::<prop::sample::Index>().prop_map(Mutation::DupTok),
        any::<prop::sample::Index>().prop_map(Mutation::SwapTok),
        (any::<prop::sample::Index>(), 0..VOCAB.len()).prop_map(|(i, v)| Mutation::InsertVocab(i, v)),
        (any::<prop::sample::Index>(), 0..VOCAB.len()).prop_map(|(i, v)| Mutation::ReplaceVocab(i, v)),
        any::<prop::sample::Index>().prop_map(Mutation::Truncate),
        (0u8..4).prop_map(Mutation::LineEndings),
        any::<prop::sample::Index>().prop_map(Mutation::SpliceTail),
    ]
}

/// Base texts: split into lexical chunks so that token-level operators apply to corpus files too.
fn chunks_of(text: &str) -> Vec<String> {
    // words, numbers, string literals (rough), single punctuation, whitespace runs
    let mut out = Vec::new();
    let mut cur = String::new();
    let mut kind = 0u8;
    for ch in text.chars() {
        let k = if ch.is_alphanumeric() || ch == '_' {
            1
        } else if ch.is_whitespace() {
            2
        } else {
            3
        };
        if (k != kind || k == 3) && !cur.is_empty() {
            out.push(std::mem::take(&mut cur));
        }
        kind = k;
        cur.push(ch);
    }
    if !cur.is_empty() {
        out.push(cur);
    }
    out
}

fn apply_mutations(base: &str, muts: &[Mutation]) -> String {
    let mut chunks = chunks_of(base);
    let mut post: Vec<&Mutation> = Vec::new();
    for m in muts {
        if chunks.is_empty() {
            break;
        }
        match m {
            Mutation::DeleteTok(i) => {
                let k = i.index(chunks.len());
                chunks.remove(k);
            }
            Mutation::DupTok(i) => {
                let k = i.index(chunks.len());
                let c = chunks[k].clone();
                chunks.insert(k, c);
            }
            Mutation::SwapTok(i) => {
                if chunks.len() >= 2 {
                    let k = i.index(chunks.len() - 1);
                    chunks.swap(k, k + 1);
                }
            }
            Mutation::InsertVocab(i, v) => {
                let k = i.index(chunks.len() + 1);
                chunks.insert(k, VOCAB[*v].to_string());
            }
            Mutation::ReplaceVocab(i, v) => {
                let k = i.index(chunks.len());
                chunks[k] = VOCAB[*v].to_string();
            }
            Mutation::SpliceTail(i) => {
                // splice: the tail of the text is replaced by its own head (two programs glued)
                let k = i.index(chunks.len());
                let head: Vec<String> = chunks[..k].to_vec();
                chunks.truncate(k);
                chunks.extend(head);
            }
            other => post.push(other),
        }
    }
    let mut text = chunks.concat();
    for m in post {
        match m {
            Mutation::Truncate(i) => {
                let mut cut = i.index(text.len() + 1);
                while !text.is_char_boundary(cut) {
                    cut -= 1;
                }
                text.truncate(cut);
            }
            Mutation::LineEndings(k) => {
                text = match k {
                    0 => text.replace('\n', "\r"),
                    1 => text.replace('\n', "\r\n"),
                    2 => text.replace('\n', "\t"),
                    _ => text.replace(' ', "\n"),
                };
            }
            _ => {}
        }
    }
    text
}

fn corpus() -> Vec<String> {
    let mut v = Vec::new();
    for dir in ["examples", "tests/stress"] {
        let mut files: Vec<_> = std::fs::read_dir(repo_root().join(dir))
            .map(|rd| rd.filter_map(Result::ok).map(|e| e.path()).collect())
            .unwrap_or_default();
        files.sort();
        for f in files {
            if f.extension().is_some_and(|e| e == "ns")
                && let Ok(t) = std::fs::read_to_string(&f)
                && t.len() <= 16 * 1024
            {
                v.push(t);
            }
        }
    }
    v
}

/// Valid programs with many locals interleaved with nested function definitions and long
/// flat constructs (shapes no random tape reaches): sized families around analysis bitset widths.
fn sized_valid_program(locals: usize, params: usize, shape: u8) -> String {
    let mut s = String::new();
    match shape % 3 {
        0 => {
            for i in 0..locals {
                s.push_str(&format!("make a{i} get {i}\n"));
                if i % 7 == 3 {
                    let ps: Vec<String> = (0..params).map(|p| format!("q{i}_{p}")).collect();
                    s.push_str(&format!("do f{i}({}) start\n    make l{i} get 1\n    return l{i}\nend\n", ps.join(", ")));
                }
            }
            s.push_str("shout(a0)\n");
        }
        1 => {
            s.push_str("do outer() start\n");
            for i in 0..locals {
                s.push_str(&format!("    make a{i} get {i}\n"));
                if i % 5 == 2 {
                    s.push_str(&format!("    do g{i}(p) start\n        make m{i} get p\n        a{i} get m{i}\n        return a{i}\n    end\n"));
                }
            }
            s.push_str("    return a0\nend\nshout(outer())\n");
        }
        _ => {
            let ps: Vec<String> = (0..params.max(1)).map(|p| format!("p{p}")).collect();
            s.push_str(&format!("make before get 1\ndo wide({}) start\n    return 0\nend\n", ps.join(", ")));
            for i in 0..locals {
                s.push_str(&format!("make after{i} get before add {i}\nafter{i} get after{i} add 1\n"));
            }
            s.push_str("shout(before)\n");
        }
    }
    s
}

impl Check for C07 {
    fn id(&self) -> &'static str {
        "C07"
    }

    fn rule(&self) -> String {
        format!(
            "(a) token soup: 0..80 items from a vocabulary of {} entries (every keyword and the pieces of the multi-word ones, \
             punctuation, identifiers, number shapes like `1.` `1.e` `1x`, string shapes incl. invalid escapes, unterminated \
             at newline/CR/EOF, trailing backslash and brace templates, comment shapes, whitespace kinds, 2/3/4-byte \
             characters, NUL, stray ASCII), joined with or without separators, plus statement-shaped soup; (b) 1..6 \
             mutations (delete / duplicate / swap / insert / replace token, truncate at any character boundary, splice, \
             CR / CRLF / tab line endings) of nsgen programs and of the repository's example and stress scripts; (c) \
             valid sized families (up to 200 locals interleaved with nested function definitions, wide parameter lists). \
             Oracle, inside an isolated child with a 10 s watchdog: lexing, parsing and (on parser-clean input, as the \
             shipped pipelines do) static checking return; every diagnostic and label span is ordered, inside the text \
             and on character boundaries; render_ansi returns valid UTF-8. For a sample, the text prefixed with a marker \
             statement is piped to the real debug binary: if the front end reports an error-level diagnostic the exit \
             status must be non-zero and the marker must not be printed. Non-trivial: the text produces >= 1 diagnostic, \
             or contains a multi-byte character, or is clean with >= 3 statements. Distinct by text. Texts <= 16 KiB.",
            VOCAB.len()
        )
    }

    fn assumptions(&self) -> Vec<String> {
        vec![
            "the resolver is exercised where the shipped pipelines exercise it: on ASTs of texts whose lex+parse produced no diagnostic".into(),
            "native stack exhaustion from deep nesting belongs to C08 (texts here are <= 16 KiB and shallow)".into(),
            "a text that does not finish within 10 s twice counts as non-termination".into(),
        ]
    }

    fn shard(&self, ctx: &mut ShardCtx) {
        proc::require_binaries();
        let t = ctx.tier;
        // corpus replay (unmutated) first
        let corpus = corpus();
        for (i, text) in corpus.iter().enumerate() {
            if (i as u32) % ctx.of == ctx.shard {
                let o = check_text(ctx, text, false);
                ctx.handle("corpus", o);
            }
        }
        ctx.class_n("corpus files available", corpus.len() as u64);
        // sized valid families
        let mut k = 0u32;
        for locals in [1usize, 8, 31, 32, 33, 63, 64, 65, 66, 100, 127, 128, 129, 200] {
            for params in [0usize, 1, 30, 64, 70] {
                for shape in 0..3u8 {
                    k += 1;
                    if k % ctx.of != ctx.shard {
                        continue;
                    }
                    let src = sized_valid_program(locals, params, shape);
                    let o = check_text(ctx, &src, false);
                    if let Outcome::Pass = o {
                        ctx.class("sized valid family");
                    }
                    ctx.handle("sized", o);
                }
            }
        }
        crate::prop::run(ctx, "soup", t.pick(8_000, 80_000), soup_strategy(), |ctx, s| check_text(ctx, s, false));
        crate::prop::run(ctx, "shaped-soup", t.pick(6_000, 50_000), shaped_soup_strategy(), |ctx, s| {
            check_text(ctx, s, false)
        });
        let muts = || prop::collection::vec(mutation_strategy(), 1..6);
        crate::prop::run(ctx, "mutated-nsgen", t.pick(6_000, 50_000), (tape_strategy(400), muts()), |ctx, (tape, muts)| {
            let (p, _) = generate(tape, profile_by_name("general"));
            let base = render_canonical(&tokens(&p));
            let text = apply_mutations(&base, muts);
            check_text(ctx, &text, false)
        });
        if !corpus.is_empty() {
            let n = corpus.len();
            crate::prop::run(ctx, "mutated-corpus", t.pick(3_000, 25_000), (0..n, muts()), |ctx, (i, muts)| {
                let text = apply_mutations(&corpus[*i], muts);
                check_text(ctx, &text, false)
            });
        }
        // CLI gate sample (subprocess per case: fewer cases)
        crate::prop::run(ctx, "cli-gate-soup", t.pick(300, 3_000), shaped_soup_strategy(), |ctx, s| {
            check_text(ctx, s, true)
        });
        let muts2 = prop::collection::vec(mutation_strategy(), 0..3);
        crate::prop::run(ctx, "cli-gate-mutated", t.pick(300, 3_000), (tape_strategy(300), muts2), |ctx, (tape, muts)| {
            let (p, _) = generate(tape, profile_by_name("general"));
            let base = render_canonical(&tokens(&p));
            let text = apply_mutations(&base, muts);
            check_text(ctx, &text, true)
        });
        let _ = tok_text;
        // thorough tier: triage of the libFuzzer campaign (fuzz/run.sh front), spread over the shards
        if t == crate::ctx::Tier::Thorough {
            let inputs = crate::driver::fuzz_inputs("front", 40_000);
            if ctx.shard == 0 {
                ctx.note(format!("fuzz-triage: {} inputs from the libFuzzer campaign on the `front` target", inputs.len()));
            }
            for (i, (name, bytes)) in inputs.iter().enumerate() {
                if (i as u32) % ctx.of != ctx.shard {
                    continue;
                }
                let Ok(text) = std::str::from_utf8(bytes) else { continue };
                if text.len() > 16 * 1024 {
                    continue;
                }
                let o = check_text(ctx, text, false);
                if name.starts_with("artifacts/") {
                    ctx.class("libFuzzer artifact triaged");
                } else {
                    ctx.class("libFuzzer corpus input triaged");
                }
                ctx.handle("fuzz-triage", o);
            }
        }
    }

    fn replay(&self, ctx: &mut ShardCtx, _stage: &str, input: &J) -> Outcome {
        let Some(text) = input.get("text").and_then(J::as_str) else {
            return Outcome::Discard("unreadable replay input");
        };
        if input.get("stage").and_then(J::as_str) == Some("cli") {
            // the saved text already carries the marker prefix
            let body = text.strip_prefix("shout(\"M4RK\")\n").unwrap_or(text);
            return check_text(ctx, body, true);
        }
        check_text(ctx, text, false)
    }
}
