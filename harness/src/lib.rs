//! nsverif: property-based testing and fuzzing machinery for xosnrdev/naijascript.
#![feature(allocator_api)]
#![allow(clippy::too_many_lines, clippy::missing_panics_doc, clippy::must_use_candidate)]

pub mod codec;
pub mod ctx;
pub mod driver;
pub mod findings;
pub mod isolate;
pub mod pipeline;
pub mod prop;
pub mod util;

pub mod c13;

use driver::Check;

pub fn checks() -> Vec<&'static dyn Check> {
    vec![&c13::C13]
}

pub fn find_check(id: &str) -> Option<&'static dyn Check> {
    checks().into_iter().find(|c| c.id().eq_ignore_ascii_case(id))
}
