//! nsverif: property-based testing and fuzzing machinery for xosnrdev/naijascript.
#![feature(allocator_api)]
#![allow(clippy::too_many_lines, clippy::missing_panics_doc, clippy::must_use_candidate)]

pub mod codec;
pub mod ctx;
pub mod driver;
pub mod findings;
pub mod fuzzing;
pub mod isolate;
pub mod pipeline;
pub mod proc;
pub mod prop;
pub mod util;

pub mod c08;
pub mod c11;
pub mod c12;
pub mod c01;
pub mod c06;
pub mod c07;
pub mod c09;
pub mod c10;
pub mod cprog;
pub mod c13;
pub mod c14;
pub mod c15;
pub mod c16;
pub mod c17;
pub mod c18;
pub mod nsgen;
pub mod progs;

use driver::Check;

pub fn checks() -> Vec<&'static dyn Check> {
    vec![&c08::C08, &c01::C01, &cprog::C02, &cprog::C03, &cprog::C04, &cprog::C05, &c06::C06, &c07::C07, &c09::C09, &c10::C10, &c11::C11, &c12::C12, &c13::C13, &c14::C14, &c15::C15, &c16::C16, &c17::C17, &c18::C18]
}

pub fn find_check(id: &str) -> Option<&'static dyn Check> {
    checks().into_iter().find(|c| c.id().eq_ignore_ascii_case(id))
}
