//! Shared machinery of the program-level properties (C01-C05, parts of C06/C09/C10/C14/C18):
//! tape -> program -> source, reference run, isolated implementation runs, comparison.

use std::time::Duration;

use proptest::prelude::*;
use serde_json::{Value as J, json};

use crate::ctx::{Failure, Outcome, ShardCtx};
use crate::nsgen::ast::Program;
use crate::nsgen::build::{Features, Profile, generate};
use crate::nsgen::print::to_source;
use crate::nsgen::refint::{self, Ending, Limits, RefRun};
use crate::nsgen::resolve::{self, Resolved};
use crate::pipeline::{Mode, ModeResult, NVal, Obs, RunOpts, Stage, run_modes};
use crate::util::{hash_str, show};

pub fn profile_by_name(name: &str) -> Profile {
    match name {
        "reclaim" => Profile::reclaim(),
        "prune" => Profile::prune(),
        "scope" => Profile::scope(),
        "arrays" => Profile::arrays(),
        "scope-arrays" => Profile::scope_arrays(),
        _ => Profile::general(),
    }
}

pub fn tape_strategy(max_len: usize) -> impl Strategy<Value = Vec<u8>> {
    prop::collection::vec(any::<u8>(), 0..=max_len)
}

pub struct Prepared {
    pub program: Program,
    pub features: Features,
    pub source: String,
    pub resolved: Resolved,
}

pub fn prepare(tape: &[u8], profile: &str) -> Prepared {
    let (program, features) = generate(tape, profile_by_name(profile));
    let source = to_source(&program);
    let resolved = resolve::resolve(&program);
    Prepared { program, features, source, resolved }
}

pub fn reference(p: &Prepared) -> RefRun {
    refint::run(&p.program, &p.resolved, Limits::default())
}

pub fn input_json(tape: &[u8], profile: &str, source: &str) -> J {
    json!({"tape": crate::util::hex(tape), "profile": profile, "source": source})
}

pub fn tape_from_input(input: &J) -> Option<(Vec<u8>, String)> {
    let tape = crate::util::unhex(input.get("tape")?.as_str()?);
    let profile = input.get("profile")?.as_str()?.to_string();
    Some((tape, profile))
}

pub const CASE_TIMEOUT: Duration = Duration::from_secs(20);

/// Work budget (executed statements + loop iterations, counted by the `verif` hook) of every
/// generated-program run: 15 x the reference interpreter's own step budget, so a program that R
/// finishes can only exceed it by not stopping. Deterministic, unlike the wall-clock watchdog.
pub const WORK_BUDGET: u64 = 3_000_000;

pub fn is_work_budget(crash: &str) -> bool {
    crash.contains("verif: work budget exceeded")
}

pub fn run_impl(source: &str, modes: &[Mode], log_stmts: bool) -> Vec<ModeResult> {
    run_impl_budget(source, modes, log_stmts, WORK_BUDGET, &[])
}

/// Work allowed to the implementation for a program the reference interpreter finished in
/// `steps` steps (R counts every statement, expression and iteration, so it over-counts).
pub fn budget_for(steps: u64) -> u64 {
    steps.saturating_mul(10).saturating_add(1_000).min(WORK_BUDGET)
}

/// `budget`: absolute cap for every mode. `baselines[i] = Some(b)`: mode i may do at most twice the
/// work mode b (an earlier one) did, plus slack - skipping statements or reclaiming memory never
/// adds work, so exceeding that means the run has stopped following the baseline.
pub fn run_impl_budget(
    source: &str,
    modes: &[Mode],
    log_stmts: bool,
    budget: u64,
    baselines: &[Option<usize>],
) -> Vec<ModeResult> {
    let opts: Vec<RunOpts> = modes
        .iter()
        .enumerate()
        .map(|(i, m)| RunOpts {
            log_stmts,
            work_budget: Some(budget),
            work_relative: baselines.get(i).copied().flatten().map(|b| (b, 2, 1_000)),
            ..RunOpts::new(*m)
        })
        .collect();
    run_modes(source, &opts, CASE_TIMEOUT)
}

pub fn show_vals(v: &[NVal]) -> String {
    let mut s = v.iter().take(12).map(NVal::show).collect::<Vec<_>>().join(" | ");
    if v.len() > 12 {
        s.push_str(&format!(" | ... ({} values)", v.len()));
    }
    show(&s)
}

fn nval_type(v: &NVal) -> &'static str {
    match v {
        NVal::Num(_) => "number",
        NVal::Str(_) => "string",
        NVal::Bool(_) => "boolean",
        NVal::Null => "null",
        NVal::Arr(_) => "array",
        NVal::Host(_) => "host",
    }
}

pub fn ending_name(e: &Ending) -> String {
    match e {
        Ending::Normal => "normal".into(),
        Ending::Error(k) => k.message().into(),
        Ending::IllTyped(_) => "ill-typed".into(),
        Ending::Budget => "budget".into(),
    }
}

/// Is this runtime error a resource-exhaustion ending that is never compared (U8)?
pub fn is_resource_ending(obs: &Obs) -> bool {
    matches!(obs.rt_error(), Some("Stack overflow"))
}

pub fn is_arena_exhaustion(crash: &str) -> bool {
    crash.contains("memory allocation of")
        || crash.contains("arena capacity exceeded")
        || crash.contains("AllocError")
        || crash.contains("capacity overflow")
}

/// Compares an implementation observation with the reference run. `label` names the mode.
pub fn compare_with_reference(
    reference: &RefRun,
    obs: &Obs,
    label: &str,
) -> Result<(), (String, String)> {
    if obs.stage != Stage::Ran {
        let first = obs.front_errors().first().map(|d| d.text()).unwrap_or_default();
        let msg = obs.front_errors().first().map(|d| d.message.clone()).unwrap_or_default();
        let lbl = obs
            .front_errors()
            .first()
            .and_then(|d| d.labels.first().map(|l| crate::isolate::normalise_panic(&l.0)))
            .unwrap_or_default();
        return Err((
            format!("reject|{msg}|{}", strip_names(&lbl)),
            format!("[{label}] a program that is valid by the documented rules was rejected: {first}"),
        ));
    }
    let want: Vec<NVal> = reference.output.iter().map(|v| v.to_nval()).collect();
    let got = &obs.output;
    let upto = want.len().min(got.len());
    for i in 0..upto {
        if want[i] != got[i] {
            return Err((
                format!("mismatch|output|R={}|impl={}", nval_type(&want[i]), nval_type(&got[i])),
                format!(
                    "[{label}] printed value #{i} differs: reference {} vs implementation {}\nreference:      {}\nimplementation: {}",
                    want[i].show(),
                    got[i].show(),
                    show_vals(&want),
                    show_vals(got)
                ),
            ));
        }
    }
    if reference.ambiguous.is_some() {
        // the reference stopped at an unspecified zone: only the prefix is comparable
        if got.len() < want.len() {
            return Err((
                "mismatch|output-count|short-before-ambiguous-zone".into(),
                format!(
                    "[{label}] implementation printed {} values, reference had already printed {} before entering an unspecified zone",
                    got.len(),
                    want.len()
                ),
            ));
        }
        return Ok(());
    }
    if want.len() != got.len() {
        return Err((
            "mismatch|output-count".into(),
            format!(
                "[{label}] reference printed {} values, implementation {}\nreference:      {}\nimplementation: {}\nreference ending: {}, implementation ending: {:?}",
                want.len(),
                got.len(),
                show_vals(&want),
                show_vals(got),
                ending_name(&reference.ending),
                obs.rt_error()
            ),
        ));
    }
    let want_end = match &reference.ending {
        Ending::Normal => None,
        Ending::Error(k) => Some(k.message()),
        _ => return Ok(()),
    };
    if want_end != obs.rt_error() {
        return Err((
            format!("mismatch|ending|R={}|impl={}", want_end.unwrap_or("normal"), obs.rt_error().unwrap_or("normal")),
            format!(
                "[{label}] reference ends with {:?}, implementation with {:?} (after {} printed values)",
                want_end,
                obs.rt_error(),
                got.len()
            ),
        ));
    }
    Ok(())
}

/// Removes back-quoted identifiers from a label so that one rule gives one signature.
pub fn strip_names(s: &str) -> String {
    let mut out = String::new();
    let mut in_tick = false;
    for ch in s.chars() {
        if ch == '`' {
            in_tick = !in_tick;
            out.push('`');
            continue;
        }
        if !in_tick {
            out.push(ch);
        }
    }
    out
}

pub fn fail(sig: String, what: String, tape: &[u8], profile: &str, source: &str) -> Outcome {
    Outcome::Fail(Failure {
        sig,
        what: format!("{what}\n--- program ---\n{source}"),
        input: input_json(tape, profile, source),
    })
}

/// Generic feature classification shared by the program-level checks.
pub fn classify_features(ctx: &mut ShardCtx, f: &Features) {
    let mut c = |name: &str, n: u32| {
        if n > 0 {
            ctx.class(name);
        }
    };
    c("has function", f.functions);
    c("has recursive function", f.recursive_functions);
    c("has mutual recursion group", f.mutual_groups);
    c("has forward call to hoisted function", f.hoisted_forward_calls);
    c("has nested function", f.nested_functions);
    c("has loop", f.loops);
    c("has capture read", f.capture_reads);
    c("has capture write", f.capture_writes);
    c("has interpolation", f.interpolations);
    c("has escape sequence", f.escapes);
    c("has string method", f.string_methods);
    c("has array op", f.array_ops);
    c("has planted trap", f.traps_planted);
    c("has dead code after jump", f.dead_code);
    c("has same-block redeclaration", f.redeclarations);
    c("has shadowing declaration", f.shadowing_decls);
    c("has long string", f.long_strings);
    c("returns a plain variable", f.returns_of_variable);
    c("has unused declaration", f.unused_decls);
    c("has read-then-clobber expression", f.clobber_patterns);
    c("calls a function while a local namesake of a variable it writes is live", f.namesake_calls);
    c("mutates a captured array in a function", f.captured_array_mutations);
    c("mutates a captured array through a path (g[i].push ...)", f.captured_path_mutations);
    c("has ill-typed dynamic use in an unused declaration", f.illtyped_dead);
}

/// Pre-flight shared by all reference-based checks: generator self-consistency.
/// Returns Err(outcome) when the case cannot be used.
pub fn preflight(ctx: &mut ShardCtx, p: &Prepared) -> Result<RefRun, Outcome> {
    if !p.resolved.ok() {
        let first = &p.resolved.issues[0];
        ctx.note(format!(
            "generator produced a program the reference static checker rejects ({}: {}); case discarded",
            first.rule.name(),
            first.detail
        ));
        return Err(Outcome::Discard("generator-invalid (harness bug, see notes)"));
    }
    let r = reference(p);
    match &r.ending {
        Ending::IllTyped(why) => {
            ctx.note(format!("generator produced an ill-typed program ({why}); case discarded"));
            Err(Outcome::Discard("generator-illtyped (harness bug, see notes)"))
        }
        Ending::Budget => Err(Outcome::Discard("U8 reference step/depth budget")),
        _ => Ok(r),
    }
}

pub fn source_hash(src: &str) -> u64 {
    hash_str(src)
}

/// Thorough tier: triage of the libFuzzer campaign on the `tape` target (fuzz/run.sh tape).
/// The first byte selects the profile, the rest is the choice tape.
pub fn tape_triage(ctx: &mut ShardCtx, mut f: impl FnMut(&mut ShardCtx, &[u8], &str) -> Outcome) {
    if ctx.tier != crate::ctx::Tier::Thorough {
        return;
    }
    let inputs = crate::driver::fuzz_inputs("tape", 30_000);
    if ctx.shard == 0 {
        ctx.note(format!("fuzz-triage: {} inputs from the libFuzzer campaign on the `tape` target", inputs.len()));
    }
    for (i, (name, bytes)) in inputs.iter().enumerate() {
        if (i as u32) % ctx.of != ctx.shard || bytes.is_empty() || bytes.len() > 900 {
            continue;
        }
        let profile = ["general", "reclaim", "prune", "scope", "arrays"][usize::from(bytes[0]) % 5];
        let o = f(ctx, &bytes[1..], profile);
        ctx.class(if name.starts_with("artifacts/") { "libFuzzer artifact triaged" } else { "libFuzzer corpus input triaged" });
        ctx.handle("fuzz-triage", o);
    }
}
