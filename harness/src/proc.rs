//! E-proc: drives the shipped `naija` binary as a subprocess (C08, C17).
//!
//! One call = one process: pinned environment, `RLIMIT_STACK` on the main thread, no core
//! files, stdin fed according to a delivery plan (nothing / regular file / pipe written in
//! given chunks with pauses, closed after the last byte), stdout and stderr captured, a
//! watchdog. Everything happens in a single-threaded `poll` loop (shard processes must not
//! spawn threads). The clock is used for pacing and the watchdog only, never by an oracle.

use std::ffi::OsString;
use std::fs::File;
use std::io;
use std::os::fd::{AsRawFd, RawFd};
use std::os::unix::process::{CommandExt, ExitStatusExt};
use std::path::{Path, PathBuf};
use std::process::{Command, Stdio};
use std::sync::atomic::{AtomicU64, Ordering};
use std::time::{Duration, Instant};

use crate::util::verif_root;

#[derive(Debug, Clone, Copy, PartialEq, Eq, PartialOrd, Ord)]
pub enum Build {
    /// `cargo build --bin naija` (dev profile: debug assertions, UB precondition checks)
    Debug,
    /// `cargo build --release --bin naija` (as shipped: LTO, panic=abort)
    Release,
}

impl Build {
    pub const BOTH: [Build; 2] = [Build::Debug, Build::Release];

    pub fn name(self) -> &'static str {
        match self {
            Build::Debug => "debug",
            Build::Release => "release",
        }
    }

    pub fn parse(s: &str) -> Option<Build> {
        match s {
            "debug" => Some(Build::Debug),
            "release" => Some(Build::Release),
            _ => None,
        }
    }
}

/// Directory holding `debug/naija` and `release/naija`. `VERIF_NAIJA_DIR` overrides the
/// default `<verif root>/target/naija` (used to point a check at a scratch build).
pub fn naija_dir() -> PathBuf {
    match std::env::var_os("VERIF_NAIJA_DIR") {
        Some(p) if !p.is_empty() => PathBuf::from(p),
        _ => verif_root().join("target").join("naija"),
    }
}

pub fn naija_path(build: Build) -> PathBuf {
    naija_dir().join(build.name()).join("naija")
}

/// The binaries that cannot be found (empty = all present).
pub fn missing_binaries() -> Vec<PathBuf> {
    Build::BOTH.iter().map(|b| naija_path(*b)).filter(|p| !p.is_file()).collect()
}

/// Panics with a clear message when a binary is missing: a shard that produces no result is
/// reported by the driver as INFRASTRUCTURE (exit 2), never as "held".
pub fn require_binaries() {
    let missing = missing_binaries();
    assert!(
        missing.is_empty(),
        "naija binary missing: {} (run ./build.sh, or set VERIF_NAIJA_DIR to a directory with debug/naija and release/naija)",
        missing.iter().map(|p| p.display().to_string()).collect::<Vec<_>>().join(", ")
    );
}

/// A private scratch directory under the system temp dir, removed on drop.
pub struct TempDir {
    path: PathBuf,
}

static TEMP_COUNTER: AtomicU64 = AtomicU64::new(0);

impl TempDir {
    pub fn new(tag: &str) -> io::Result<TempDir> {
        let pid = std::process::id();
        loop {
            let n = TEMP_COUNTER.fetch_add(1, Ordering::Relaxed);
            let path = std::env::temp_dir().join(format!("nsverif-{tag}-{pid}-{n}"));
            match std::fs::create_dir(&path) {
                Ok(()) => return Ok(TempDir { path }),
                Err(e) if e.kind() == io::ErrorKind::AlreadyExists => {}
                Err(e) => return Err(e),
            }
        }
    }

    pub fn path(&self) -> &Path {
        &self.path
    }

    pub fn file(&self, name: &str) -> PathBuf {
        self.path.join(name)
    }
}

impl Drop for TempDir {
    fn drop(&mut self) {
        let _ = std::fs::remove_dir_all(&self.path);
    }
}

/// One write to the stdin pipe, followed by a pause.
#[derive(Debug, Clone, PartialEq, Eq)]
pub struct Chunk {
    pub bytes: Vec<u8>,
    pub pause_ms: u64,
}

#[derive(Debug, Clone)]
pub enum StdinPlan {
    /// `/dev/null`
    Null,
    /// A regular file with this content, opened read-only, is the child's stdin.
    File(PathBuf),
    /// A pipe; each chunk is handed to one `write(2)` (continued only if the kernel takes
    /// less), then the writer sleeps `pause_ms`; the pipe is closed after the last chunk.
    Pipe(Vec<Chunk>),
}

pub struct Run<'a> {
    pub exe: &'a Path,
    pub args: Vec<OsString>,
    pub stdin: StdinPlan,
    pub timeout: Duration,
    /// `RLIMIT_STACK` (soft and hard) of the child, bytes.
    pub stack_bytes: u64,
    /// Captured prefix of stdout / stderr; the rest is drained and dropped.
    pub max_capture: usize,
}

impl<'a> Run<'a> {
    pub fn new(exe: &'a Path) -> Run<'a> {
        Run {
            exe,
            args: Vec::new(),
            stdin: StdinPlan::Null,
            timeout: Duration::from_secs(60),
            stack_bytes: 8 << 20,
            max_capture: 32 << 20,
        }
    }
}

#[derive(Debug, Clone, Copy, PartialEq, Eq)]
pub enum End {
    Exited(i32),
    Signaled(i32),
    /// Watchdog fired; the child was killed.
    Timeout,
}

#[derive(Debug, Clone)]
pub struct Output {
    pub stdout: Vec<u8>,
    pub stderr: Vec<u8>,
    pub stdout_total: u64,
    pub end: End,
}

impl Output {
    pub fn signal_name(&self) -> Option<String> {
        match self.end {
            End::Signaled(s) => Some(crate::isolate::signal_name(s)),
            _ => None,
        }
    }

    pub fn end_text(&self) -> String {
        match self.end {
            End::Exited(c) => format!("exit status {c}"),
            End::Signaled(s) => format!("killed by {}", crate::isolate::signal_name(s)),
            End::Timeout => "watchdog timeout".to_string(),
        }
    }
}

fn set_nonblocking(fd: RawFd) {
    unsafe {
        let fl = libc::fcntl(fd, libc::F_GETFL);
        if fl >= 0 {
            libc::fcntl(fd, libc::F_SETFL, fl | libc::O_NONBLOCK);
        }
    }
}

struct Sink {
    fd: RawFd,
    open: bool,
    buf: Vec<u8>,
    total: u64,
}

impl Sink {
    /// Reads what is available; closes on EOF or error.
    fn pump(&mut self, cap: usize) {
        let mut chunk = [0u8; 65536];
        loop {
            let n = unsafe { libc::read(self.fd, chunk.as_mut_ptr().cast(), chunk.len()) };
            if n > 0 {
                let n = n as usize;
                self.total += n as u64;
                let room = cap.saturating_sub(self.buf.len());
                self.buf.extend_from_slice(&chunk[..n.min(room)]);
                continue;
            }
            if n == 0 {
                self.open = false;
                return;
            }
            match io::Error::last_os_error().kind() {
                io::ErrorKind::Interrupted => {}
                io::ErrorKind::WouldBlock => return,
                _ => {
                    self.open = false;
                    return;
                }
            }
        }
    }
}

/// Runs one process to completion (or until the watchdog fires).
pub fn run(spec: &Run<'_>) -> io::Result<Output> {
    let mut cmd = Command::new(spec.exe);
    cmd.args(&spec.args);
    // Pinned environment: nothing inherited.
    cmd.env_clear();
    cmd.env("PATH", "/usr/bin:/bin");
    cmd.env("RUST_BACKTRACE", "0");
    cmd.env("HOME", "/nonexistent");
    cmd.current_dir(std::env::temp_dir());
    match &spec.stdin {
        StdinPlan::Null => {
            cmd.stdin(Stdio::null());
        }
        StdinPlan::File(path) => {
            cmd.stdin(Stdio::from(File::open(path)?));
        }
        StdinPlan::Pipe(_) => {
            cmd.stdin(Stdio::piped());
        }
    }
    cmd.stdout(Stdio::piped());
    cmd.stderr(Stdio::piped());
    let stack = spec.stack_bytes;
    unsafe {
        cmd.pre_exec(move || {
            let lim = libc::rlimit { rlim_cur: stack as libc::rlim_t, rlim_max: stack as libc::rlim_t };
            if libc::setrlimit(libc::RLIMIT_STACK, &lim) != 0 {
                return Err(io::Error::last_os_error());
            }
            let none = libc::rlimit { rlim_cur: 0, rlim_max: 0 };
            libc::setrlimit(libc::RLIMIT_CORE, &none);
            Ok(())
        });
    }
    let mut child = cmd.spawn()?;

    let mut stdin = child.stdin.take();
    let chunks: &[Chunk] = match &spec.stdin {
        StdinPlan::Pipe(c) => c,
        _ => &[],
    };
    if let Some(s) = &stdin {
        set_nonblocking(s.as_raw_fd());
        // Large enough that "one write" really is one write for every text we generate.
        unsafe { libc::fcntl(s.as_raw_fd(), libc::F_SETPIPE_SZ, 1 << 20) };
    }
    let child_out = child.stdout.take().expect("piped stdout");
    let child_err = child.stderr.take().expect("piped stderr");
    set_nonblocking(child_out.as_raw_fd());
    set_nonblocking(child_err.as_raw_fd());
    let mut out = Sink { fd: child_out.as_raw_fd(), open: true, buf: Vec::new(), total: 0 };
    let mut err = Sink { fd: child_err.as_raw_fd(), open: true, buf: Vec::new(), total: 0 };

    let deadline = Instant::now() + spec.timeout;
    let mut timed_out = false;
    let (mut idx, mut off) = (0usize, 0usize);
    let mut next_write = Instant::now();
    if chunks.is_empty() {
        stdin = None;
    }

    while out.open || err.open || stdin.is_some() {
        let now = Instant::now();
        if now >= deadline {
            timed_out = true;
            break;
        }
        let mut wait = deadline - now;
        let want_write = stdin.is_some() && now >= next_write;
        if stdin.is_some() && !want_write {
            wait = wait.min(next_write - now);
        }
        let mut fds: Vec<libc::pollfd> = Vec::with_capacity(3);
        if out.open {
            fds.push(libc::pollfd { fd: out.fd, events: libc::POLLIN, revents: 0 });
        }
        if err.open {
            fds.push(libc::pollfd { fd: err.fd, events: libc::POLLIN, revents: 0 });
        }
        if want_write && let Some(s) = &stdin {
            fds.push(libc::pollfd { fd: s.as_raw_fd(), events: libc::POLLOUT, revents: 0 });
        }
        let ms = (wait.as_micros().div_ceil(1000)).clamp(1, 1000) as i32;
        let r = unsafe { libc::poll(fds.as_mut_ptr(), fds.len() as libc::nfds_t, ms) };
        if r < 0 {
            if io::Error::last_os_error().kind() == io::ErrorKind::Interrupted {
                continue;
            }
            break;
        }
        if out.open {
            out.pump(spec.max_capture);
        }
        if err.open {
            err.pump(spec.max_capture);
        }
        if want_write {
            let fd = stdin.as_ref().map(AsRawFd::as_raw_fd).unwrap_or(-1);
            let mut close = false;
            // Zero-length chunks are legal in a plan (a write of nothing): skip them.
            while idx < chunks.len() && chunks[idx].bytes.is_empty() {
                idx += 1;
            }
            if idx >= chunks.len() {
                close = true;
            } else {
                let rest = &chunks[idx].bytes[off..];
                let n = unsafe { libc::write(fd, rest.as_ptr().cast(), rest.len()) };
                if n >= 0 {
                    off += n as usize;
                    if off == chunks[idx].bytes.len() {
                        next_write = Instant::now() + Duration::from_millis(chunks[idx].pause_ms);
                        idx += 1;
                        off = 0;
                        if idx >= chunks.len() {
                            close = true;
                        }
                    }
                } else {
                    match io::Error::last_os_error().kind() {
                        io::ErrorKind::Interrupted | io::ErrorKind::WouldBlock => {}
                        // EPIPE: the reader is gone; nothing more can be delivered.
                        _ => close = true,
                    }
                }
            }
            if close {
                stdin = None; // drops ChildStdin = closes the write end
            }
        }
    }
    drop(stdin);

    // The pipes are closed (or the deadline passed): collect the exit status.
    let status = loop {
        if timed_out {
            let _ = child.kill();
            break child.wait()?;
        }
        match child.try_wait()? {
            Some(st) => break st,
            None => {
                if Instant::now() >= deadline {
                    timed_out = true;
                } else {
                    std::thread::sleep(Duration::from_millis(2));
                }
            }
        }
    };
    drop(child_out);
    drop(child_err);
    let end = if timed_out {
        End::Timeout
    } else if let Some(sig) = status.signal() {
        End::Signaled(sig)
    } else {
        End::Exited(status.code().unwrap_or(-1))
    };
    Ok(Output { stdout: out.buf, stderr: err.buf, stdout_total: out.total, end })
}

/// Removes ANSI CSI sequences (the diagnostic renderer always colours its output).
pub fn strip_ansi(bytes: &[u8]) -> Vec<u8> {
    let mut out = Vec::with_capacity(bytes.len());
    let mut i = 0;
    while i < bytes.len() {
        if bytes[i] == 0x1b && i + 1 < bytes.len() && bytes[i + 1] == b'[' {
            i += 2;
            while i < bytes.len() && !(0x40..=0x7e).contains(&bytes[i]) {
                i += 1;
            }
            i += 1;
        } else {
            out.push(bytes[i]);
            i += 1;
        }
    }
    out
}

pub fn contains(hay: &[u8], needle: &[u8]) -> bool {
    !needle.is_empty() && hay.windows(needle.len()).any(|w| w == needle)
}

/// Short printable excerpt for descriptions.
pub fn excerpt(bytes: &[u8], max: usize) -> String {
    let s = String::from_utf8_lossy(&bytes[..bytes.len().min(max)]);
    let mut t = crate::util::show(&s);
    if bytes.len() > max {
        t.push('…');
    }
    t
}

/// Title of the first error diagnostic in (possibly coloured) output: `error[kind]: Title`.
pub fn first_error_title(stdout: &[u8]) -> Option<String> {
    let plain = strip_ansi(&stdout[..stdout.len().min(1 << 20)]);
    let text = String::from_utf8_lossy(&plain);
    for line in text.lines() {
        let l = line.trim_start();
        if l.starts_with("error[") || l.starts_with("error:") {
            return Some(l.chars().take(80).collect::<String>().trim_end().to_string());
        }
    }
    None
}
