//! C15 - Child processes get exactly the configured argv, env, cwd and stdin.
//!
//! Subject: `command(...)` builder scripts run through the library pipeline (mode FP) under a
//! generated `HostPolicy`. The program is the `nschild` helper in report mode: it writes what
//! it received (argv, whole environment, cwd, stdin bytes) to `report.<n>` in a per-case
//! directory whose path travels through the *inherited* environment. A report file is the
//! spawn marker.
//! Oracle: an independent restatement of the documented contract (model below): the command
//! is refused with the runtime error and NO marker exactly when a count/byte cap is exceeded
//! (strictly greater), a required name is empty, a NUL is present, `=` is in a key, the
//! timeout is invalid, or the policy forbids processes; otherwise the report equals the
//! model's argv / environment / cwd / stdin byte for byte.

use std::collections::BTreeMap;
use std::path::{Path, PathBuf};
use std::sync::atomic::{AtomicU64, Ordering};
use std::time::Duration;

use naijascript::process::{HostPolicy, ProcessCaps};
use proptest::prelude::*;
use serde_json::{Value as J, json};

use crate::ctx::{Failure, Outcome, ShardCtx, Tier};
use crate::driver::{Bin, Check, ShardSpec};
use crate::isolate;
use crate::pipeline::{self, Mode, NVal, Obs, RunOpts, Stage};
use crate::util::{hash_str, hex, show, unhex};

pub struct C15;

// ------------------------------------------------------------------ shared --

/// Path of the helper child: sibling `nschild` of the running binary.
pub fn helper_path() -> PathBuf {
    let exe = std::env::current_exe().expect("current_exe");
    exe.parent().expect("exe dir").join("nschild")
}

static CASE_COUNTER: AtomicU64 = AtomicU64::new(0);

/// Creates a fresh, canonical, per-case directory under the system temp dir.
pub fn fresh_case_dir(tag: &str) -> PathBuf {
    let n = CASE_COUNTER.fetch_add(1, Ordering::Relaxed);
    let base = std::env::temp_dir();
    let base = std::fs::canonicalize(&base).unwrap_or(base);
    let dir = base.join(format!("nsv{tag}-{:07}-{n:06}", std::process::id()));
    let _ = std::fs::remove_dir_all(&dir);
    std::fs::create_dir_all(&dir).expect("create case dir");
    dir
}

/// NaijaScript expression that evaluates to exactly `s`.
///
/// Only the escapes `\n \t \\ \"` exist (no `\r`: never generated). Brace handling in literals
/// has quirks (a literal is a template only if it contains `{` and no escape sequence; `}}` is
/// un-doubled only inside templates). To be independent of them every brace gets a literal
/// of its own - `"{{"` (a template that yields `{`) and `"}"` (no `{`, hence static) - and the
/// remaining text goes into brace-free literals; the pieces are joined with `add`.
pub fn ns_string_expr(s: &str) -> String {
    debug_assert!(!s.contains('\r'));
    let mut parts: Vec<String> = Vec::new();
    let mut cur = String::new();
    for c in s.chars() {
        if c == '{' || c == '}' {
            if !cur.is_empty() {
                parts.push(std::mem::take(&mut cur));
            }
            parts.push(if c == '{' { "{{".to_string() } else { "}".to_string() });
            continue;
        }
        match c {
            '\\' => cur.push_str("\\\\"),
            '"' => cur.push_str("\\\""),
            '\n' => cur.push_str("\\n"),
            '\t' => cur.push_str("\\t"),
            c => cur.push(c),
        }
    }
    if !cur.is_empty() || parts.is_empty() {
        parts.push(cur);
    }
    if parts.len() == 1 {
        format!("\"{}\"", parts[0])
    } else {
        let joined: Vec<String> = parts.iter().map(|p| format!("\"{p}\"")).collect();
        format!("({})", joined.join(" add "))
    }
}

// -------------------------------------------------------------------- case --

#[derive(Debug, Clone, PartialEq)]
pub enum Txt {
    Lit(String),
    /// `x` repeated (relevant cap + delta) times; the cap is the one that applies at the place
    /// of use (argument / env value / env key / stdin / cwd bytes)
    Pad(i8),
    /// `x` repeated n times
    Rep(u32),
}

#[derive(Debug, Clone, PartialEq)]
pub enum Val {
    T(Txt),
    /// index into `NUMS`: a number literal, stringified by the builder
    Num(u8),
    Bool(bool),
}

#[derive(Debug, Clone, PartialEq)]
pub enum Key {
    Pool(u8),
    Empty,
    Eq,
    Nul,
    Pad(i8),
    Rep(u32),
}

#[derive(Debug, Clone, PartialEq)]
pub enum Cwd {
    Existing(u8),
    Empty,
    Missing,
    Nul,
    Pad(i8),
    Rep(u32),
}

#[derive(Debug, Clone, PartialEq)]
pub enum Tmo {
    Ms(u32),
    RelMax(i8),
    Zero,
    Negative,
    Fraction,
    Huge,
}

#[derive(Debug, Clone, PartialEq)]
pub enum Op {
    Arg(Val),
    Env(Key, Val),
    Cwd(Cwd),
    StdinText(Val),
    StdinNull,
    StdinInherit,
    Timeout(Tmo),
    /// stdout/stderr policy call (noise for this property): index into `OUT_CALLS`
    Out(u8),
    /// `make b get a` / `b get a`: copy of the builder `a`
    Copy,
    /// following operations go to the other variable (if it exists)
    Switch,
    Run,
}

#[derive(Debug, Clone, Copy, PartialEq)]
pub enum CapGen {
    Default,
    Abs(u32),
    /// cap = (the quantity measured on the first command that is run) + delta
    Rel(i8),
}

pub const CAP_NAMES: [&str; 11] = [
    "max_program_bytes",
    "max_cwd_bytes",
    "max_args",
    "max_arg_bytes",
    "max_total_arg_bytes",
    "max_env_pairs",
    "max_env_key_bytes",
    "max_env_value_bytes",
    "max_total_env_bytes",
    "max_stdin_bytes",
    "max_timeout_ms",
];

const NUMS: [&str; 6] = ["0", "5", "42", "1.5", "0.25", "1000000"];
const KEY_POOL: [&str; 7] =
    ["NSV_A", "NSV_B", "NSV_C", "nsv_a", "HOME", "NSV_PRESET", "NSV_KEY_WITH_A_LONGER_NAME_É"];
const OUT_CALLS: [&str; 6] = [
    "stdout_null",
    "stderr_null",
    "stdout_inherit",
    "stderr_inherit",
    "stdout_capture",
    "stderr_capture",
];

#[derive(Debug, Clone, PartialEq)]
pub struct Case {
    /// 0 helper path, 1 helper path with "/./", 2 empty, 3 with NUL, 4 nonexistent file,
    /// 5 helper path padded to max_program_bytes + 1
    pub prog: u8,
    pub ops: Vec<Op>,
    pub allow: bool,
    pub caps: [CapGen; 11],
    pub poll: u32,
    /// allows Pad against the (large) default caps
    pub big: bool,
    /// how the builder calls are laid out: 0 = straight-line script; 1 = one call per iteration of
    /// a counter loop (frame resets between the calls); 2 = the same loop inside a function that
    /// receives the builders as parameters and runs them there
    pub shape: u8,
}

fn txt_json(t: &Txt) -> J {
    match t {
        Txt::Lit(s) => json!({"s": s}),
        Txt::Pad(d) => json!({"pad": d}),
        Txt::Rep(n) => json!({"rep": n}),
    }
}

fn val_json(v: &Val) -> J {
    match v {
        Val::T(t) => txt_json(t),
        Val::Num(i) => json!({"n": i}),
        Val::Bool(b) => json!({"b": b}),
    }
}

fn val_from(j: &J) -> Option<Val> {
    if let Some(s) = j.get("s") {
        return Some(Val::T(Txt::Lit(s.as_str()?.to_string())));
    }
    if let Some(d) = j.get("pad") {
        return Some(Val::T(Txt::Pad(d.as_i64()? as i8)));
    }
    if let Some(n) = j.get("rep") {
        return Some(Val::T(Txt::Rep(n.as_u64()? as u32)));
    }
    if let Some(n) = j.get("n") {
        return Some(Val::Num(n.as_u64()? as u8));
    }
    Some(Val::Bool(j.get("b")?.as_bool()?))
}

impl Case {
    pub fn to_json(&self) -> J {
        let ops: Vec<J> = self
            .ops
            .iter()
            .map(|op| match op {
                Op::Arg(v) => json!(["arg", val_json(v)]),
                Op::Env(k, v) => {
                    let k = match k {
                        Key::Pool(i) => json!({"pool": i}),
                        Key::Empty => json!("empty"),
                        Key::Eq => json!("eq"),
                        Key::Nul => json!("nul"),
                        Key::Pad(d) => json!({"pad": d}),
                        Key::Rep(n) => json!({"rep": n}),
                    };
                    json!(["env", k, val_json(v)])
                }
                Op::Cwd(c) => {
                    let c = match c {
                        Cwd::Existing(i) => json!({"existing": i}),
                        Cwd::Empty => json!("empty"),
                        Cwd::Missing => json!("missing"),
                        Cwd::Nul => json!("nul"),
                        Cwd::Pad(d) => json!({"pad": d}),
                        Cwd::Rep(n) => json!({"rep": n}),
                    };
                    json!(["cwd", c])
                }
                Op::StdinText(v) => json!(["stdin_text", val_json(v)]),
                Op::StdinNull => json!(["stdin_null"]),
                Op::StdinInherit => json!(["stdin_inherit"]),
                Op::Timeout(t) => {
                    let t = match t {
                        Tmo::Ms(n) => json!({"ms": n}),
                        Tmo::RelMax(d) => json!({"relmax": d}),
                        Tmo::Zero => json!("zero"),
                        Tmo::Negative => json!("negative"),
                        Tmo::Fraction => json!("fraction"),
                        Tmo::Huge => json!("huge"),
                    };
                    json!(["timeout", t])
                }
                Op::Out(i) => json!(["out", i]),
                Op::Copy => json!(["copy"]),
                Op::Switch => json!(["switch"]),
                Op::Run => json!(["run"]),
            })
            .collect();
        let caps: Vec<J> = self
            .caps
            .iter()
            .map(|c| match c {
                CapGen::Default => json!("default"),
                CapGen::Abs(n) => json!({"abs": n}),
                CapGen::Rel(d) => json!({"rel": d}),
            })
            .collect();
        json!({"prog": self.prog, "allow": self.allow, "big": self.big, "poll": self.poll,
               "caps": caps, "cap_names": CAP_NAMES, "ops": ops, "shape": self.shape})
    }

    pub fn from_json(j: &J) -> Option<Case> {
        let mut caps = [CapGen::Default; 11];
        for (i, c) in j.get("caps")?.as_array()?.iter().enumerate().take(11) {
            caps[i] = if let Some(n) = c.get("abs") {
                CapGen::Abs(n.as_u64()? as u32)
            } else if let Some(d) = c.get("rel") {
                CapGen::Rel(d.as_i64()? as i8)
            } else {
                CapGen::Default
            };
        }
        let mut ops = Vec::new();
        for o in j.get("ops")?.as_array()? {
            let a = o.as_array()?;
            let op = match a.first()?.as_str()? {
                "arg" => Op::Arg(val_from(a.get(1)?)?),
                "env" => {
                    let k = a.get(1)?;
                    let key = if let Some(i) = k.get("pool") {
                        Key::Pool(i.as_u64()? as u8)
                    } else if let Some(d) = k.get("pad") {
                        Key::Pad(d.as_i64()? as i8)
                    } else if let Some(n) = k.get("rep") {
                        Key::Rep(n.as_u64()? as u32)
                    } else {
                        match k.as_str()? {
                            "empty" => Key::Empty,
                            "eq" => Key::Eq,
                            _ => Key::Nul,
                        }
                    };
                    Op::Env(key, val_from(a.get(2)?)?)
                }
                "cwd" => {
                    let c = a.get(1)?;
                    Op::Cwd(if let Some(i) = c.get("existing") {
                        Cwd::Existing(i.as_u64()? as u8)
                    } else if let Some(d) = c.get("pad") {
                        Cwd::Pad(d.as_i64()? as i8)
                    } else if let Some(n) = c.get("rep") {
                        Cwd::Rep(n.as_u64()? as u32)
                    } else {
                        match c.as_str()? {
                            "empty" => Cwd::Empty,
                            "missing" => Cwd::Missing,
                            _ => Cwd::Nul,
                        }
                    })
                }
                "stdin_text" => Op::StdinText(val_from(a.get(1)?)?),
                "stdin_null" => Op::StdinNull,
                "stdin_inherit" => Op::StdinInherit,
                "timeout" => {
                    let t = a.get(1)?;
                    Op::Timeout(if let Some(n) = t.get("ms") {
                        Tmo::Ms(n.as_u64()? as u32)
                    } else if let Some(d) = t.get("relmax") {
                        Tmo::RelMax(d.as_i64()? as i8)
                    } else {
                        match t.as_str()? {
                            "zero" => Tmo::Zero,
                            "negative" => Tmo::Negative,
                            "fraction" => Tmo::Fraction,
                            _ => Tmo::Huge,
                        }
                    })
                }
                "out" => Op::Out(a.get(1)?.as_u64()? as u8),
                "copy" => Op::Copy,
                "switch" => Op::Switch,
                "run" => Op::Run,
                _ => return None,
            };
            ops.push(op);
        }
        Some(Case {
            prog: j.get("prog")?.as_u64()? as u8,
            ops,
            allow: j.get("allow")?.as_bool()?,
            caps,
            poll: j.get("poll").and_then(J::as_u64).unwrap_or(1) as u32,
            big: j.get("big").and_then(J::as_bool).unwrap_or(false),
            shape: j.get("shape").and_then(J::as_u64).unwrap_or(0) as u8,
        })
    }

    fn hash(&self) -> u64 {
        hash_str(&self.to_json().to_string())
    }
}

// ----------------------------------------------------------- materialising --

/// Where the case runs: helper binary and the per-case directory.
pub struct Place {
    pub helper: String,
    pub dir: PathBuf,
    /// existing directory used for `cwd` (name contains a space and a non-ASCII letter)
    pub work: String,
}

impl Place {
    pub fn create() -> Place {
        let dir = fresh_case_dir("15");
        let work = dir.join("w d é");
        std::fs::create_dir_all(&work).expect("create work dir");
        Place {
            helper: helper_path().to_string_lossy().into_owned(),
            work: work.to_string_lossy().into_owned(),
            dir,
        }
    }
    pub fn remove(&self) {
        let _ = std::fs::remove_dir_all(&self.dir);
    }
}

/// One concrete script statement (strings resolved).
#[derive(Debug, Clone)]
enum Step {
    Arg { t: usize, expr: String, value: String },
    Env { t: usize, key: String, expr: String, value: String },
    Cwd { t: usize, path: String },
    StdinText { t: usize, expr: String, value: String },
    StdinOther { t: usize, call: &'static str },
    /// `lit` is the source expression; `value` the number it denotes
    Timeout { t: usize, lit: String, value: f64 },
    Out { t: usize, call: &'static str },
    Copy { first: bool },
    Run { t: usize },
}

const VARS: [&str; 2] = ["a", "b"];

fn default_caps() -> ProcessCaps {
    ProcessCaps::defaults()
}

fn cap_get(c: &ProcessCaps, i: usize) -> u32 {
    match i {
        0 => c.max_program_bytes,
        1 => c.max_cwd_bytes,
        2 => c.max_args,
        3 => c.max_arg_bytes,
        4 => c.max_total_arg_bytes,
        5 => c.max_env_pairs,
        6 => c.max_env_key_bytes,
        7 => c.max_env_value_bytes,
        8 => c.max_total_env_bytes,
        9 => c.max_stdin_bytes,
        _ => c.max_timeout_ms,
    }
}

fn cap_set(c: &mut ProcessCaps, i: usize, v: u32) {
    match i {
        0 => c.max_program_bytes = v,
        1 => c.max_cwd_bytes = v,
        2 => c.max_args = v,
        3 => c.max_arg_bytes = v,
        4 => c.max_total_arg_bytes = v,
        5 => c.max_env_pairs = v,
        6 => c.max_env_key_bytes = v,
        7 => c.max_env_value_bytes = v,
        8 => c.max_total_env_bytes = v,
        9 => c.max_stdin_bytes = v,
        _ => c.max_timeout_ms = v,
    }
}

/// The model's view of one builder.
#[derive(Debug, Clone, Default)]
struct Cmd {
    program: String,
    args: Vec<String>,
    /// every `env(key, value)` call in order
    env_calls: Vec<(String, String)>,
    cwd: Option<String>,
    /// Some = stdin_text; None = inherit / null (both are /dev/null in this harness)
    stdin: Option<String>,
    timeout: Option<f64>,
}

impl Cmd {
    /// Environment overrides: one pair per key, the last write wins.
    fn env_final(&self) -> Vec<(String, String)> {
        let mut out: Vec<(String, String)> = Vec::new();
        for (k, v) in &self.env_calls {
            if let Some(p) = out.iter_mut().find(|p| p.0 == *k) {
                p.1 = v.clone();
            } else {
                out.push((k.clone(), v.clone()));
            }
        }
        out
    }

    /// Quantity that cap `i` limits (None: nothing configured for that cap).
    fn quantity(&self, i: usize) -> Option<u64> {
        let env = self.env_final();
        Some(match i {
            0 => self.program.len() as u64,
            1 => self.cwd.as_ref()?.len() as u64,
            2 => self.args.len() as u64,
            3 => self.args.iter().map(String::len).max()? as u64,
            4 => self.args.iter().map(String::len).sum::<usize>() as u64,
            5 => env.len() as u64,
            6 => env.iter().map(|p| p.0.len()).max()? as u64,
            7 => env.iter().map(|p| p.1.len()).max()? as u64,
            8 => env.iter().map(|p| p.0.len() + p.1.len()).sum::<usize>() as u64,
            9 => self.stdin.as_ref()?.len() as u64,
            _ => {
                let t = self.timeout?;
                if t.is_finite() && t >= 0.0 && t < 4e9 { t as u64 } else { return None }
            }
        })
    }
}

/// Contract: reasons for which `run()` must refuse this command (empty = must be spawned).
/// `env` is the environment reading to apply (final map, or every call: see `Expect::Ambiguous`).
fn refusal_reasons(
    cmd: &Cmd,
    env: &[(String, String)],
    caps: &ProcessCaps,
    allow: bool,
) -> Vec<&'static str> {
    let mut r = Vec::new();
    let over = |len: usize, cap: u32| len as u64 > u64::from(cap);
    if !allow {
        r.push("policy");
    }
    if cmd.program.is_empty() {
        r.push("program-empty");
    }
    if cmd.program.contains('\0') {
        r.push("program-nul");
    }
    if over(cmd.program.len(), caps.max_program_bytes) {
        r.push("max_program_bytes");
    }
    if over(cmd.args.len(), caps.max_args) {
        r.push("max_args");
    }
    if cmd.args.iter().any(|a| a.contains('\0')) {
        r.push("arg-nul");
    }
    if cmd.args.iter().any(|a| over(a.len(), caps.max_arg_bytes)) {
        r.push("max_arg_bytes");
    }
    if over(cmd.args.iter().map(String::len).sum(), caps.max_total_arg_bytes) {
        r.push("max_total_arg_bytes");
    }
    if let Some(cwd) = &cmd.cwd {
        if cwd.is_empty() {
            r.push("cwd-empty");
        }
        if cwd.contains('\0') {
            r.push("cwd-nul");
        }
        if over(cwd.len(), caps.max_cwd_bytes) {
            r.push("max_cwd_bytes");
        }
    }
    if over(env.len(), caps.max_env_pairs) {
        r.push("max_env_pairs");
    }
    for (k, v) in env {
        if k.is_empty() {
            r.push("key-empty");
        }
        if k.contains('\0') {
            r.push("key-nul");
        }
        if k.contains('=') {
            r.push("key-eq");
        }
        if over(k.len(), caps.max_env_key_bytes) {
            r.push("max_env_key_bytes");
        }
        if v.contains('\0') {
            r.push("value-nul");
        }
        if over(v.len(), caps.max_env_value_bytes) {
            r.push("max_env_value_bytes");
        }
    }
    if over(env.iter().map(|p| p.0.len() + p.1.len()).sum(), caps.max_total_env_bytes) {
        r.push("max_total_env_bytes");
    }
    if let Some(text) = &cmd.stdin {
        if text.contains('\0') {
            r.push("stdin-nul");
        }
        if over(text.len(), caps.max_stdin_bytes) {
            r.push("max_stdin_bytes");
        }
    }
    if let Some(t) = cmd.timeout {
        if !(t.is_finite() && t > 0.0 && t.fract() == 0.0) {
            r.push("timeout-invalid");
        } else if t > f64::from(caps.max_timeout_ms) {
            r.push("timeout-over-max");
        }
    }
    r.dedup();
    r
}

#[derive(Debug, Clone)]
struct ExpReport {
    argv: Vec<String>,
    env_over: Vec<(String, String)>,
    /// canonical directory the child must be in (None = the interpreter's own cwd)
    cwd: Option<String>,
    stdin: Vec<u8>,
    /// keys written more than once (for the failure class)
    repeated: Vec<String>,
}

#[derive(Debug, Clone)]
enum EndExp {
    Clean,
    /// the script must stop with one of these runtime error messages; `reasons` says why
    Error { accept: Vec<&'static str>, reasons: Vec<&'static str> },
}

#[derive(Debug, Clone)]
struct Expect {
    reports: Vec<ExpReport>,
    end: EndExp,
    /// the two readings of the env accounting disagree: not comparable
    ambiguous: bool,
    /// evaluated `run()` commands (spawned + the refused one)
    commands: u64,
    classes: Vec<String>,
    nontrivial: bool,
}

struct Mat {
    caps: ProcessCaps,
    allow: bool,
    program: String,
    steps: Vec<Step>,
    source: String,
}

fn rep(ch: char, n: u64) -> String {
    std::iter::repeat_n(ch, n as usize).collect()
}

/// Pads the existing work dir with "/." (and one "/") to exactly `len` bytes if possible.
fn padded_dir(work: &str, len: u64) -> String {
    let mut s = work.to_string();
    let len = len as usize;
    if len < s.len() {
        // cannot be an existing path: plain text of that length (refused or missing)
        return rep('d', len as u64);
    }
    while s.len() + 2 <= len {
        s.push_str("/.");
    }
    if s.len() < len {
        s.push('/');
    }
    s
}

const MAX_MID_RUNS: usize = 2;

fn materialise(case: &Case, place: &Place) -> Mat {
    // pass 1: caps that do not depend on the command
    let mut caps = default_caps();
    caps.wait_poll_ms = case.poll.clamp(1, 50);
    for (i, g) in case.caps.iter().enumerate() {
        if let CapGen::Abs(n) = g {
            // a small absolute cap on program/cwd would only ever refuse: treated as Rel(0) below
            if i >= 2 {
                cap_set(&mut caps, i, *n);
            }
        }
    }
    let pad_len = |cap_idx: usize, d: i8| -> u64 {
        let cap = cap_get(&caps, cap_idx);
        if cap > 4096 && !case.big {
            return 3; // default-sized caps are exercised by the dedicated stage only
        }
        (i64::from(cap) + i64::from(d)).max(0) as u64
    };
    let program = match case.prog {
        1 => {
            let p = Path::new(&place.helper);
            format!("{}/./{}", p.parent().unwrap().display(), p.file_name().unwrap().to_string_lossy())
        }
        2 => String::new(),
        3 => format!("{}\0x", place.helper),
        4 => format!("{}/no-such-program", place.dir.display()),
        5 => {
            // existing file, spelled with "/./" up to one byte over max_program_bytes
            let p = Path::new(&place.helper);
            let want = cap_get(&caps, 0) as usize + 1;
            let mut s = p.parent().unwrap().display().to_string();
            let name = p.file_name().unwrap().to_string_lossy().into_owned();
            while s.len() + 2 + 1 + name.len() <= want {
                s.push_str("/.");
            }
            while s.len() + 1 + name.len() < want {
                s.push('/');
            }
            format!("{s}/{name}")
        }
        _ => place.helper.clone(),
    };
    let val_text = |v: &Val, cap_idx: usize| -> (String, String) {
        match v {
            Val::T(Txt::Lit(s)) => (ns_string_expr(s), s.clone()),
            Val::T(Txt::Pad(d)) => {
                let s = rep('x', pad_len(cap_idx, *d));
                (ns_string_expr(&s), s)
            }
            Val::T(Txt::Rep(n)) => {
                let s = rep('x', u64::from(*n));
                (ns_string_expr(&s), s)
            }
            Val::Num(i) => {
                let lit = NUMS[*i as usize % NUMS.len()];
                (lit.to_string(), lit.to_string())
            }
            Val::Bool(b) => (b.to_string(), b.to_string()),
        }
    };

    let mut steps = Vec::new();
    let mut have_b = false;
    let mut t = 0usize;
    let mut mid_runs = 0usize;
    for op in &case.ops {
        match op {
            Op::Arg(v) => {
                let (expr, value) = val_text(v, 3);
                steps.push(Step::Arg { t, expr, value });
            }
            Op::Env(k, v) => {
                let key = match k {
                    Key::Pool(i) => KEY_POOL[*i as usize % KEY_POOL.len()].to_string(),
                    Key::Empty => String::new(),
                    Key::Eq => "NSV=A".to_string(),
                    Key::Nul => "NSV\0A".to_string(),
                    Key::Pad(d) => rep('K', pad_len(6, *d)),
                    Key::Rep(n) => rep('K', u64::from(*n)),
                };
                let (expr, value) = val_text(v, 7);
                steps.push(Step::Env { t, key, expr, value });
            }
            Op::Cwd(c) => {
                let path = match c {
                    Cwd::Existing(i) => match i % 4 {
                        0 => place.work.clone(),
                        1 => format!("{}/", place.work),
                        2 => format!("{}/.", place.work),
                        _ => format!("{}/../w d é", place.work),
                    },
                    Cwd::Empty => String::new(),
                    Cwd::Missing => format!("{}/missing dir", place.dir.display()),
                    Cwd::Nul => format!("{}\0", place.work),
                    Cwd::Pad(d) => padded_dir(&place.work, pad_len(1, *d)),
                    Cwd::Rep(n) => padded_dir(&place.work, u64::from(*n)),
                };
                steps.push(Step::Cwd { t, path });
            }
            Op::StdinText(v) => {
                let (expr, value) = val_text(v, 9);
                steps.push(Step::StdinText { t, expr, value });
            }
            Op::StdinNull => steps.push(Step::StdinOther { t, call: "stdin_null" }),
            Op::StdinInherit => steps.push(Step::StdinOther { t, call: "stdin_inherit" }),
            Op::Timeout(spec) => {
                let max = cap_get(&caps, 10);
                let (lit, value, valid) = match spec {
                    Tmo::Ms(n) => {
                        let n = (*n).clamp(20_000, max.max(20_000));
                        (n.to_string(), f64::from(n), n <= max)
                    }
                    Tmo::RelMax(d) => {
                        let n = (i64::from(max) + i64::from(*d)).max(20_000);
                        (n.to_string(), n as f64, n <= i64::from(max))
                    }
                    Tmo::Zero => ("0".to_string(), 0.0, false),
                    Tmo::Negative => ("(0 minus 5)".to_string(), -5.0, false),
                    Tmo::Fraction => ("20000.5".to_string(), 20000.5, false),
                    Tmo::Huge => ("1000000000000".to_string(), 1e12, false),
                };
                steps.push(Step::Timeout { t, lit, value });
                if !valid {
                    // Whether an invalid timeout is reported by `timeout_ms` or by the next
                    // `run()` is not documented: run at once, so both readings coincide.
                    steps.push(Step::Run { t });
                }
            }
            Op::Out(i) => steps.push(Step::Out { t, call: OUT_CALLS[*i as usize % OUT_CALLS.len()] }),
            Op::Copy => {
                steps.push(Step::Copy { first: !have_b });
                have_b = true;
            }
            Op::Switch => {
                if have_b {
                    t = 1 - t;
                }
            }
            Op::Run => {
                if mid_runs < MAX_MID_RUNS {
                    mid_runs += 1;
                    steps.push(Step::Run { t });
                }
            }
        }
    }
    steps.push(Step::Run { t: 0 });
    if have_b {
        steps.push(Step::Run { t: 1 });
    }

    // pass 2: relative caps from the first command that is run
    let mut cmds = [Cmd { program: program.clone(), ..Cmd::default() }, Cmd::default()];
    let mut first: Option<Cmd> = None;
    for s in &steps {
        if let Step::Run { t } = s {
            first = Some(cmds[*t].clone());
            break;
        }
        apply_step(&mut cmds, s);
    }
    let first = first.unwrap_or_default();
    for (i, g) in case.caps.iter().enumerate() {
        let rel = match g {
            CapGen::Rel(d) => Some(*d),
            CapGen::Abs(_) if i < 2 => Some(0),
            _ => None,
        };
        if let (Some(d), Some(q)) = (rel, first.quantity(i)) {
            let mut v = (q as i64 + i64::from(d)).clamp(0, i64::from(u32::MAX)) as u32;
            if i == 10 {
                v = v.max(20_000);
            }
            cap_set(&mut caps, i, v);
        }
    }
    // keep the host configuration self-consistent
    caps.default_timeout_ms = caps.default_timeout_ms.min(caps.max_timeout_ms).max(1);

    // source text: one piece per step
    let mut pieces: Vec<String> = Vec::new();
    let mut run_no = 0;
    let wrapped = case.shape % 3 != 0;
    for s in &steps {
        pieces.push(match s {
            Step::Arg { t, expr, .. } => format!("{}.arg({expr})\n", VARS[*t]),
            Step::Env { t, key, expr, .. } => format!("{}.env({}, {expr})\n", VARS[*t], ns_string_expr(key)),
            Step::Cwd { t, path } => format!("{}.cwd({})\n", VARS[*t], ns_string_expr(path)),
            Step::StdinText { t, expr, .. } => format!("{}.stdin_text({expr})\n", VARS[*t]),
            Step::StdinOther { t, call } | Step::Out { t, call } => format!("{}.{call}()\n", VARS[*t]),
            Step::Timeout { t, lit, .. } => format!("{}.timeout_ms({lit})\n", VARS[*t]),
            // in the wrapped shapes `b` is declared up front (as a copy of the fresh `a`)
            Step::Copy { first } => (if *first && !wrapped { "make b get a\n" } else { "b get a\n" }).to_string(),
            Step::Run { t } => {
                run_no += 1;
                format!(
                    "make r{n} get {}.run()\nshout(r{n}.success())\nshout(r{n}.exit_code())\n",
                    VARS[*t],
                    n = run_no - 1
                )
            }
        });
    }
    let has_b = steps.iter().any(|s| matches!(s, Step::Copy { .. }));
    let mut src = String::new();
    match case.shape % 3 {
        0 => {
            src.push_str(&format!("make a get command({})\n", ns_string_expr(&program)));
            for p in &pieces {
                src.push_str(p);
            }
        }
        shape => {
            // one step per iteration of a counter loop: the frame is reset between the calls
            let mut lp = String::from("make stepno get 0\n");
            lp.push_str(&format!("jasi (stepno small pass {}) start\n", pieces.len()));
            for (k, p) in pieces.iter().enumerate() {
                lp.push_str(&format!("if to say (stepno na {k}) start\n{p}end\n"));
            }
            lp.push_str("stepno get stepno add 1\nend\n");
            if shape == 1 {
                src.push_str(&format!("make a get command({})\n", ns_string_expr(&program)));
                if has_b {
                    src.push_str("make b get a\n");
                }
                src.push_str(&lp);
            } else {
                // ... inside a function that receives the builders as parameters
                src.push_str(&format!("make a0 get command({})\n", ns_string_expr(&program)));
                if has_b {
                    src.push_str("make b0 get a0\n");
                }
                src.push_str(if has_b { "do apply(a, b) start\n" } else { "do apply(a) start\n" });
                src.push_str(&lp);
                src.push_str("end\n");
                src.push_str(if has_b { "apply(a0, b0)\n" } else { "apply(a0)\n" });
            }
        }
    }
    Mat { caps, allow: case.allow, program, steps, source: src }
}

fn apply_step(cmds: &mut [Cmd; 2], s: &Step) {
    match s {
        Step::Arg { t, value, .. } => cmds[*t].args.push(value.clone()),
        Step::Env { t, key, value, .. } => cmds[*t].env_calls.push((key.clone(), value.clone())),
        Step::Cwd { t, path } => cmds[*t].cwd = Some(path.clone()),
        Step::StdinText { t, value, .. } => cmds[*t].stdin = Some(value.clone()),
        Step::StdinOther { t, .. } => cmds[*t].stdin = None,
        Step::Timeout { t, value, .. } => cmds[*t].timeout = Some(*value),
        Step::Out { .. } | Step::Run { .. } => {}
        // value semantics: b becomes an independent copy of a's present state
        Step::Copy { .. } => cmds[1] = cmds[0].clone(),
    }
}

fn shell_significant(s: &str) -> bool {
    s.is_empty()
        || !s.is_ascii()
        || s.chars().any(|c| {
            c.is_ascii_whitespace()
                || c.is_ascii_control()
                || "\"'$*;|&<>`?~#!\\(){}[]=%".contains(c)
        })
}

fn text_class(s: &str) -> &'static str {
    if s.is_empty() {
        "empty"
    } else if s.contains('\0') {
        "nul"
    } else if s.contains('\n') {
        "newline"
    } else if s.contains([' ', '\t']) {
        "whitespace"
    } else if s.contains(['"', '\'']) {
        "quote"
    } else if s.chars().any(|c| "$*;|&<>`?~#!\\(){}[]=%".contains(c)) {
        "shell-meta"
    } else if s.chars().any(|c| c.is_ascii_control()) {
        "control"
    } else if !s.is_ascii() {
        "multi-byte"
    } else if s.len() > 1000 {
        "long"
    } else {
        "plain"
    }
}

/// Runs the contract model over the concrete script.
fn expectation(mat: &Mat, place: &Place) -> Expect {
    let mut cmds = [Cmd { program: mat.program.clone(), ..Cmd::default() }, Cmd::default()];
    let mut exp = Expect {
        reports: Vec::new(),
        end: EndExp::Clean,
        ambiguous: false,
        commands: 0,
        classes: Vec::new(),
        nontrivial: false,
    };
    let mut copied = false;
    let mut modified_after_copy = false;
    for (idx, s) in mat.steps.iter().enumerate() {
        if let Step::Timeout { t, value, .. } = s {
            let bad = !(value.is_finite() && *value > 0.0 && value.fract() == 0.0)
                || *value > f64::from(mat.caps.max_timeout_ms);
            let run_next = matches!(mat.steps.get(idx + 1), Some(Step::Run { t: t2 }) if t2 == t);
            if bad && !run_next {
                // reported by timeout_ms() or by a later run()? undocumented, and other
                // commands would run in between
                exp.ambiguous = true;
                return exp;
            }
        }
        let Step::Run { t } = s else {
            if matches!(s, Step::Copy { .. }) {
                copied = true;
            } else if copied && !matches!(s, Step::Out { .. }) {
                modified_after_copy = true;
            }
            apply_step(&mut cmds, s);
            continue;
        };
        let cmd = &cmds[*t];
        exp.commands += 1;
        let env_final = cmd.env_final();
        let reasons = refusal_reasons(cmd, &env_final, &mat.caps, mat.allow);
        let reasons_calls = refusal_reasons(cmd, &cmd.env_calls, &mat.caps, mat.allow);
        if reasons.iter().filter(|r| **r != "policy").count() == 0
            && reasons_calls.iter().filter(|r| **r != "policy").count() != 0
        {
            // e.g. a bad value later overwritten, or the pair cap between #keys and #calls:
            // whether overwritten writes count is not documented
            exp.ambiguous = true;
            return exp;
        }
        // boundary classes
        for i in 0..CAP_NAMES.len() {
            // without timeout_ms() the host's default timeout is what max_timeout_ms limits
            let implicit = (i == 10).then(|| u64::from(mat.caps.default_timeout_ms));
            if let Some(q) = cmd.quantity(i).or(implicit) {
                let cap = u64::from(cap_get(&mat.caps, i));
                let rel = if q == cap {
                    Some("at cap")
                } else if q == cap + 1 {
                    Some("cap+1")
                } else if q + 1 == cap {
                    Some("cap-1")
                } else {
                    None
                };
                if let Some(rel) = rel {
                    exp.classes.push(format!("{} {rel}", CAP_NAMES[i]));
                    exp.nontrivial = true;
                }
            }
        }
        let repeated: Vec<String> = env_final
            .iter()
            .filter(|(k, _)| cmd.env_calls.iter().filter(|c| c.0 == *k).count() > 1)
            .map(|(k, _)| k.clone())
            .collect();
        if !repeated.is_empty() {
            exp.classes.push("repeated env key".into());
            exp.nontrivial = true;
        }
        if cmd.args.iter().any(|a| shell_significant(a)) {
            exp.classes.push("argument with shell-significant / non-ASCII / empty text".into());
            exp.nontrivial = true;
        }
        if copied && modified_after_copy {
            exp.classes.push("run after copy-then-modify".into());
        }
        if !reasons.is_empty() {
            let mut accept = Vec::new();
            if reasons.contains(&"policy") {
                accept.push("Process execution denied");
            }
            if reasons.iter().any(|r| *r != "policy") {
                accept.push("Invalid process configuration");
            }
            for r in &reasons {
                exp.classes.push(format!("refused: {r}"));
            }
            exp.end = EndExp::Error { accept, reasons };
            return exp;
        }
        // must be spawned; can the OS do it?
        let mut os_fail: Vec<&'static str> = Vec::new();
        if !Path::new(&cmd.program).exists() {
            os_fail.push("os: program missing");
        }
        if cmd.program.len() >= 4096 {
            os_fail.push("os: program path too long");
        }
        let mut cwd = None;
        if let Some(c) = &cmd.cwd {
            match std::fs::canonicalize(c) {
                Ok(p) if c.len() < 4096 => cwd = Some(p.to_string_lossy().into_owned()),
                _ => os_fail.push("os: cwd missing or too long"),
            }
        }
        if !os_fail.is_empty() {
            for r in &os_fail {
                exp.classes.push(format!("spawn impossible: {r}"));
            }
            exp.end = EndExp::Error { accept: vec!["Process spawn failed"], reasons: os_fail };
            return exp;
        }
        exp.classes.push("spawned".into());
        if exp.reports.len() == 1 {
            exp.classes.push("second spawn in one script".into());
        }
        let mut argv = vec![cmd.program.clone()];
        argv.extend(cmd.args.iter().cloned());
        exp.reports.push(ExpReport {
            argv,
            env_over: env_final,
            cwd,
            stdin: cmd.stdin.clone().unwrap_or_default().into_bytes(),
            repeated,
        });
    }
    let _ = place;
    exp
}

// ----------------------------------------------------------------- running --

struct Report {
    argv: Vec<Vec<u8>>,
    env: BTreeMap<Vec<u8>, Vec<u8>>,
    cwd: Option<Vec<u8>>,
    stdin: Vec<u8>,
}

fn read_reports(dir: &Path) -> Vec<Report> {
    let mut out = Vec::new();
    for n in 0.. {
        let Ok(bytes) = std::fs::read(dir.join(format!("report.{n}"))) else { break };
        let Ok(doc) = serde_json::from_slice::<J>(&bytes) else { break };
        let argv = doc["args"]
            .as_array()
            .map(|a| a.iter().map(|x| unhex(x.as_str().unwrap_or(""))).collect())
            .unwrap_or_default();
        let mut env = BTreeMap::new();
        if let Some(a) = doc["env"].as_array() {
            for p in a {
                env.insert(unhex(p[0].as_str().unwrap_or("")), unhex(p[1].as_str().unwrap_or("")));
            }
        }
        out.push(Report {
            argv,
            env,
            cwd: doc["cwd"].as_str().map(unhex),
            stdin: unhex(doc["stdin"].as_str().unwrap_or("")),
        });
    }
    out
}

fn fail(case: &Case, mat: &Mat, sig: String, what: String) -> Outcome {
    let source = if mat.source.len() <= 20_000 { J::String(mat.source.clone()) } else { J::Null };
    let mut input = json!({"case": case.to_json(), "allow_process": mat.allow,
        "caps": format!("{:?}", mat.caps)});
    if !source.is_null() {
        input["source"] = source;
    }
    Outcome::Fail(Failure { sig, what, input })
}

fn lossy(b: &[u8]) -> String {
    show(&String::from_utf8_lossy(b))
}

/// Model + run + comparison for one case (no counting).
fn evaluate(case: &Case, place: &Place, mat: &Mat, exp: &Expect) -> Outcome {
    if exp.ambiguous {
        return Outcome::Discard("env accounting of overwritten writes is undocumented");
    }
    let policy = HostPolicy { allow_process: mat.allow, process: mat.caps };
    let dir = place.dir.clone();
    let src = mat.source.clone();
    let iso = isolate::run(
        isolate::Opts { timeout: Duration::from_secs(60), ..Default::default() },
        |out| {
            // inherited channel to the helper (not `cmd.env`)
            unsafe {
                std::env::set_var("NSCHILD_MODE", "report");
                std::env::set_var("NSCHILD_DIR", &dir);
                std::env::set_var("NSV_PRESET", "preset value");
            }
            let env: Vec<[String; 2]> = std::env::vars_os()
                .map(|(k, v)| {
                    use std::os::unix::ffi::OsStrExt;
                    [hex(k.as_bytes()), hex(v.as_bytes())]
                })
                .collect();
            let cwd = std::env::current_dir()
                .map(|p| p.to_string_lossy().into_owned())
                .unwrap_or_default();
            out.frame(json!({"env": env, "cwd": cwd}).to_string().as_bytes());
            let obs = pipeline::run_source(&src, RunOpts { policy, ..RunOpts::new(Mode::FP) });
            out.frame(&obs.encode());
        },
    );
    if iso.end == isolate::End::Timeout {
        return Outcome::Discard("watchdog");
    }
    let class = match &exp.end {
        EndExp::Error { reasons, .. } => reasons.first().copied().unwrap_or("?"),
        EndExp::Clean => "spawn",
    };
    if !iso.clean() || iso.frames.len() < 2 {
        let kind = iso.crash_kind().unwrap_or_else(|| "no result".into());
        return fail(case, mat, format!("crash|{kind}|{class}"), format!("{kind} while running the builder script"));
    }
    let base: J = serde_json::from_slice(&iso.frames[0]).unwrap_or(J::Null);
    let Some(obs) = Obs::decode(&iso.frames[1]) else {
        return fail(case, mat, "crash|undecodable result".into(), "undecodable observation".into());
    };
    if obs.stage != Stage::Ran {
        return Outcome::Discard("generated script rejected by the front end");
    }
    let err = obs.rt_error();
    let detail = obs
        .runtime
        .first()
        .map(|d| d.labels.iter().map(|l| l.0.clone()).collect::<Vec<_>>().join(" / "))
        .unwrap_or_default();
    if err == Some("Process timeout") {
        // timeouts are >= 20 s here; a helper that takes that long is machine trouble
        return Outcome::Discard("helper exceeded a >= 20 s timeout");
    }
    let reports = read_reports(&place.dir);

    // 1. spawn markers
    if reports.len() > exp.reports.len() {
        return match &exp.end {
            EndExp::Error { reasons, accept } if accept[0] != "Process spawn failed" => fail(
                case,
                mat,
                format!("spawned-despite-refusal|{}", reasons[0]),
                format!(
                    "command #{} must be refused ({}), but the helper was spawned; runtime error: {err:?} {detail}",
                    exp.reports.len() + 1,
                    reasons.join(", ")
                ),
            ),
            _ => fail(
                case,
                mat,
                format!("extra-spawn|{class}"),
                format!("{} spawn markers, expected {}", reports.len(), exp.reports.len()),
            ),
        };
    }
    if reports.len() < exp.reports.len() {
        let at_caps: Vec<&String> = exp.classes.iter().filter(|c| c.ends_with("at cap")).collect();
        // For the signature only: the limit that the diagnostic's detail text talks about.
        let blamed = match detail.as_str() {
            "program" => "max_program_bytes",
            "cwd" => "max_cwd_bytes",
            "argument count" => "max_args",
            "argument" => "max_arg_bytes",
            "Argument bytes pass configured limit" => "max_total_arg_bytes",
            "environment pair count" => "max_env_pairs",
            "environment key" => "max_env_key_bytes",
            "environment value" => "max_env_value_bytes",
            "Environment bytes pass configured limit" => "max_total_env_bytes",
            "stdin text" => "max_stdin_bytes",
            "Timeout pass configured limit" => "max_timeout_ms",
            _ => "",
        };
        let boundary = at_caps
            .iter()
            .find(|c| !blamed.is_empty() && c.starts_with(blamed))
            .or(at_caps.first())
            .map_or("no quantity at its cap", |s| s.as_str());
        return fail(
            case,
            mat,
            format!("spurious-refusal|{}|{}|{}", err.unwrap_or("no error"), detail, boundary),
            format!(
                "command #{} is within every limit and must be spawned, but there is no marker; runtime error: {err:?} {detail}; quantities at their cap: {at_caps:?}",
                reports.len() + 1
            ),
        );
    }

    // 2. fidelity of every spawned command
    let mut base_env: BTreeMap<Vec<u8>, Vec<u8>> = BTreeMap::new();
    if let Some(a) = base["env"].as_array() {
        for p in a {
            base_env.insert(unhex(p[0].as_str().unwrap_or("")), unhex(p[1].as_str().unwrap_or("")));
        }
    }
    let base_cwd = base["cwd"].as_str().unwrap_or("").to_string();
    for (i, (got, want)) in reports.iter().zip(&exp.reports).enumerate() {
        let n = i + 1;
        if got.argv.len() != want.argv.len() {
            let cls = if want.argv.iter().skip(1).any(String::is_empty) { "count|has-empty" } else { "count" };
            return fail(
                case,
                mat,
                format!("mismatch|argv|{cls}"),
                format!(
                    "command #{n}: child saw {} arguments, script supplied {} (incl. program)",
                    got.argv.len(),
                    want.argv.len()
                ),
            );
        }
        for (k, (g, w)) in got.argv.iter().zip(&want.argv).enumerate() {
            if g != w.as_bytes() {
                let cls = if k == 0 { "program" } else { text_class(w) };
                return fail(
                    case,
                    mat,
                    format!("mismatch|argv|{cls}"),
                    format!("command #{n}: argv[{k}] = {:?}, script supplied {:?}", lossy(g), show(w)),
                );
            }
        }
        let mut want_env = base_env.clone();
        for (k, v) in &want.env_over {
            want_env.insert(k.clone().into_bytes(), v.clone().into_bytes());
        }
        if got.env != want_env {
            let key = want_env
                .iter()
                .find(|(k, v)| got.env.get(*k) != Some(*v))
                .map(|(k, _)| k.clone())
                .or_else(|| got.env.keys().find(|k| !want_env.contains_key(*k)).cloned())
                .unwrap_or_default();
            let key_s = String::from_utf8_lossy(&key).into_owned();
            let cls = if want.repeated.contains(&key_s) {
                "repeated-key"
            } else if !want_env.contains_key(&key) {
                "extra-variable"
            } else if !got.env.contains_key(&key) {
                "missing-variable"
            } else {
                "value"
            };
            return fail(
                case,
                mat,
                format!("mismatch|env|{cls}"),
                format!(
                    "command #{n}: variable {:?} is {:?} in the child, expected {:?}",
                    show(&key_s),
                    got.env.get(&key).map(|v| lossy(v)),
                    want_env.get(&key).map(|v| lossy(v))
                ),
            );
        }
        let want_cwd = want.cwd.clone().unwrap_or_else(|| base_cwd.clone());
        if got.cwd.as_deref() != Some(want_cwd.as_bytes()) {
            return fail(
                case,
                mat,
                format!("mismatch|cwd|{}", if want.cwd.is_some() { "configured" } else { "inherited" }),
                format!("command #{n}: child cwd {:?}, expected {:?}", got.cwd.as_deref().map(lossy), want_cwd),
            );
        }
        if got.stdin != want.stdin {
            return fail(
                case,
                mat,
                format!("mismatch|stdin|{}", text_class(&String::from_utf8_lossy(&want.stdin))),
                format!(
                    "command #{n}: child read {} stdin bytes {:?}, expected {} bytes {:?}",
                    got.stdin.len(),
                    lossy(&got.stdin[..got.stdin.len().min(80)]),
                    want.stdin.len(),
                    lossy(&want.stdin[..want.stdin.len().min(80)])
                ),
            );
        }
    }

    // 3. how the script ended
    match &exp.end {
        EndExp::Clean => {
            if let Some(e) = err {
                return fail(
                    case,
                    mat,
                    format!("spurious-error|{e}|after-spawn"),
                    format!("every command is valid and was spawned, yet the script ended with {e:?} {detail}"),
                );
            }
        }
        EndExp::Error { accept, reasons } => match err {
            None => {
                return fail(
                    case,
                    mat,
                    format!("missing-error|{}", reasons[0]),
                    format!("command #{} must fail ({}), but the script ended without a runtime error", exp.reports.len() + 1, reasons.join(", ")),
                );
            }
            Some(e) if !accept.contains(&e) => {
                return fail(
                    case,
                    mat,
                    format!("wrong-error|{}|{e}", reasons[0]),
                    format!(
                        "command #{} must be refused with {:?} ({}), got runtime error {e:?} {detail}",
                        exp.reports.len() + 1,
                        accept,
                        reasons.join(", ")
                    ),
                );
            }
            Some(_) => {}
        },
    }
    let mut want_out = Vec::new();
    for _ in &exp.reports {
        want_out.push(NVal::Bool(true));
        want_out.push(NVal::Num(0.0));
    }
    if obs.output != want_out {
        return fail(
            case,
            mat,
            "mismatch|result|success-exit_code".into(),
            format!(
                "success()/exit_code() values {:?}, expected {:?}",
                obs.output.iter().map(NVal::show).collect::<Vec<_>>(),
                want_out.iter().map(NVal::show).collect::<Vec<_>>()
            ),
        );
    }
    Outcome::Pass
}

/// One case: fresh directory, model, classification/counting, run, comparison, cleanup.
pub fn check_case(ctx: &mut ShardCtx, case: &Case) -> Outcome {
    let place = Place::create();
    let mat = materialise(case, &place);
    let exp = expectation(&mat, &place);
    if !exp.ambiguous {
        ctx.evals(exp.commands);
        let mut seen: Vec<&String> = Vec::new();
        for c in &exp.classes {
            if !seen.contains(&c) {
                seen.push(c);
                ctx.class(c);
            }
        }
        if case.ops.iter().any(|o| matches!(o, Op::Arg(Val::Num(_) | Val::Bool(_)) | Op::Env(_, Val::Num(_) | Val::Bool(_)) | Op::StdinText(Val::Num(_) | Val::Bool(_)))) {
            ctx.class("non-string value stringified");
        }
        match case.shape % 3 {
            1 => ctx.class("builder calls spread over loop iterations"),
            2 => ctx.class("builders passed to a function and changed inside its loop"),
            _ => {}
        }
        if exp.nontrivial {
            ctx.nontrivial(case.hash());
            if !case.big {
                let cls = match &exp.end {
                    EndExp::Clean => "spawned, non-trivial".to_string(),
                    EndExp::Error { reasons, .. } => format!("refused: {}", reasons[0]),
                };
                if mat.source.len() < 1500 {
                    ctx.sample(&cls, json!({"case": case.to_json(), "source": mat.source}));
                }
            }
        }
    }
    let outcome = evaluate(case, &place, &mat, &exp);
    if std::env::var_os("NSVERIF_TRACE").is_some() {
        eprintln!(
            "C15 trace: model expects {} spawn(s), end {:?}, ambiguous {}, classes {:?}; caps {:?}; outcome {}",
            exp.reports.len(),
            exp.end,
            exp.ambiguous,
            exp.classes,
            mat.caps,
            match &outcome {
                Outcome::Pass => "pass".to_string(),
                Outcome::Discard(w) => format!("discard: {w}"),
                Outcome::Fail(f) => format!("FAIL {}", f.sig),
            }
        );
    }
    if matches!(outcome, Outcome::Discard("watchdog")) && !ctx.frozen {
        ctx.inconclusive += 1;
    }
    place.remove();
    outcome
}

// -------------------------------------------------------------- strategies --

const TOKENS: &[&str] = &[
    "a", "hello", "Z9", " ", "  ", "\"", "'", "$HOME", "$NSV_A", "${X}", "*", "?", ";", "|", "&",
    ">", "<", "`id`", "$(id)", "\\", "\\n", "\n", "\t", "é", "世界", "🌎", "{", "}", "{x}", "--flag",
    "-", "=", "%s", "~", "#", "!", "\u{1}", "\u{7f}", "\u{85}", "a b", "(", ")", "[", "\u{feff}",
];

fn lit() -> impl Strategy<Value = String> {
    prop::collection::vec(prop::sample::select(TOKENS), 0..6).prop_map(|v| v.concat())
}

fn val() -> impl Strategy<Value = Val> {
    prop_oneof![
        250 => lit().prop_map(|s| Val::T(Txt::Lit(s))),
        20 => (0u8..NUMS.len() as u8).prop_map(Val::Num),
        12 => any::<bool>().prop_map(Val::Bool),
        16 => (-1i8..=1).prop_map(|d| Val::T(Txt::Pad(d))),
        1 => (lit(), lit()).prop_map(|(a, b)| Val::T(Txt::Lit(format!("{a}\0{b}")))),
    ]
}

fn key() -> impl Strategy<Value = Key> {
    prop_oneof![
        190 => (0u8..KEY_POOL.len() as u8).prop_map(Key::Pool),
        8 => (-1i8..=1).prop_map(Key::Pad),
        1 => Just(Key::Empty),
        1 => Just(Key::Eq),
        1 => Just(Key::Nul),
    ]
}

fn cwd() -> impl Strategy<Value = Cwd> {
    prop_oneof![
        80 => (0u8..4).prop_map(Cwd::Existing),
        8 => (-1i8..=1).prop_map(Cwd::Pad),
        4 => Just(Cwd::Missing),
        1 => Just(Cwd::Empty),
        1 => Just(Cwd::Nul),
    ]
}

fn tmo() -> impl Strategy<Value = Tmo> {
    prop_oneof![
        80 => (20_000u32..=3_600_000).prop_map(Tmo::Ms),
        12 => (-1i8..=1).prop_map(Tmo::RelMax),
        1 => Just(Tmo::Zero),
        1 => Just(Tmo::Negative),
        1 => Just(Tmo::Fraction),
        1 => Just(Tmo::Huge),
    ]
}

fn op() -> impl Strategy<Value = Op> {
    prop_oneof![
        42 => val().prop_map(Op::Arg),
        16 => (key(), val()).prop_map(|(k, v)| Op::Env(k, v)),
        4 => cwd().prop_map(Op::Cwd),
        5 => val().prop_map(Op::StdinText),
        2 => Just(Op::StdinNull),
        1 => Just(Op::StdinInherit),
        2 => tmo().prop_map(Op::Timeout),
        3 => (0u8..OUT_CALLS.len() as u8).prop_map(Op::Out),
        3 => Just(Op::Copy),
        3 => Just(Op::Switch),
        3 => Just(Op::Run),
    ]
}

fn small_abs(i: usize) -> BoxedStrategy<u32> {
    match i {
        2 => (0u32..8).boxed(),
        3 => (0u32..14).boxed(),
        4 => (0u32..60).boxed(),
        5 => (0u32..4).boxed(),
        6 => (1u32..10).boxed(),
        7 => (0u32..14).boxed(),
        8 => (0u32..60).boxed(),
        9 => (0u32..20).boxed(),
        10 => (20_000u32..120_000).boxed(),
        _ => Just(0u32).boxed(), // program / cwd: becomes Rel(0)
    }
}

fn caps_strategy() -> impl Strategy<Value = [CapGen; 11]> {
    let one = (0usize..11).prop_flat_map(|i| {
        prop_oneof![
            40 => Just(CapGen::Rel(0)),
            25 => Just(CapGen::Rel(1)),
            17 => Just(CapGen::Rel(-1)),
            18 => small_abs(i).prop_map(CapGen::Abs),
        ]
        .prop_map(move |g| (i, g))
    });
    prop::collection::vec(one, 0..3).prop_map(|v| {
        let mut caps = [CapGen::Default; 11];
        for (i, g) in v {
            caps[i] = g;
        }
        caps
    })
}

fn case_strategy() -> impl Strategy<Value = Case> {
    (
        prop_oneof![84 => Just(0u8), 12 => Just(1u8), 1 => Just(2u8), 1 => Just(3u8), 2 => Just(4u8)],
        prop::collection::vec(op(), 0..70),
        prop::bool::weighted(0.94),
        caps_strategy(),
        prop::sample::select(vec![1u32, 1, 1, 2, 5, 10]),
        prop_oneof![2 => Just(0u8), 1 => Just(1u8), 1 => Just(2u8)],
    )
        .prop_map(|(prog, ops, allow, caps, poll, shape)| Case { prog, ops, allow, caps, poll, big: false, shape })
}

/// Cases whose builder calls are spread over loop iterations (shape 1) or happen on parameters
/// inside a function's loop (shape 2), under the permissive default configuration: used by C02
/// (host values must survive frame resets just like strings and arrays).
pub fn reclaim_case_strategy() -> impl Strategy<Value = Case> {
    (prop::collection::vec(op(), 1..40), prop_oneof![Just(1u8), Just(2u8)]).prop_map(|(ops, shape)| Case {
        prog: 0,
        ops,
        allow: true,
        caps: [CapGen::Default; 11],
        poll: 1,
        big: false,
        shape,
    })
}

// ------------------------------------------------- defaults boundary stage --

/// Hand-enumerated commands at the *default* limits (64 KiB argument, 256 arguments, totals ...).
fn default_boundary_cases() -> Vec<Case> {
    let base = |ops: Vec<Op>| Case {
        prog: 0,
        ops,
        allow: true,
        caps: [CapGen::Default; 11],
        poll: 1,
        big: true,
        shape: 0,
    };
    let arg = |n: u32| Op::Arg(Val::T(Txt::Rep(n)));
    let mut v = Vec::new();
    for d in [-1i8, 0, 1] {
        // one argument around max_arg_bytes
        v.push(base(vec![Op::Arg(Val::T(Txt::Pad(d)))]));
        // env value / key around their caps
        v.push(base(vec![Op::Env(Key::Pool(0), Val::T(Txt::Pad(d)))]));
        v.push(base(vec![Op::Env(Key::Pad(d), Val::T(Txt::Lit("v".into())))]));
        // stdin around max_stdin_bytes (1 MiB)
        v.push(base(vec![Op::StdinText(Val::T(Txt::Pad(d)))]));
        // cwd around max_cwd_bytes (at the cap the OS path limit makes the spawn fail)
        v.push(base(vec![Op::Cwd(Cwd::Pad(d))]));
        // timeout around max_timeout_ms
        v.push(base(vec![Op::Timeout(Tmo::RelMax(d))]));
        // total argument bytes: 4 x 65536 = 262144 (+d)
        let last = (65_536i64 + i64::from(d)) as u32;
        if d <= 0 {
            v.push(base(vec![arg(65_536), arg(65_536), arg(65_536), arg(last)]));
        } else {
            v.push(base(vec![arg(65_536), arg(65_536), arg(65_536), arg(65_535), arg(2)]));
        }
        // argument count 255 / 256 / 257
        v.push(base((0..(256 + i32::from(d))).map(|i| Op::Arg(Val::T(Txt::Lit(format!("{i}"))))).collect()));
        // env pairs 127 / 128 / 129 (distinct keys of distinct lengths)
        v.push(base(
            (0..(128 + i32::from(d)))
                .map(|i| Op::Env(Key::Rep(10 + i as u32), Val::T(Txt::Lit("v".into()))))
                .collect(),
        ));
        // total env bytes: 8 pairs, keys 16..23 bytes, values fill up to 131072 (+d)
        let mut ops = Vec::new();
        let mut left: i64 = 131_072 + i64::from(d);
        for i in 0..8u32 {
            let k = 16 + i;
            let vlen = if i == 7 { left - i64::from(k) } else { 16_384 - i64::from(k) };
            left -= i64::from(k) + vlen;
            ops.push(Op::Env(Key::Rep(k), Val::T(Txt::Rep(vlen as u32))));
        }
        v.push(base(ops));
    }
    // program path one byte longer than max_program_bytes
    v.push(Case { prog: 5, ..base(vec![Op::Arg(Val::T(Txt::Lit("x".into())))]) });
    v
}

// -------------------------------------------------------------------- check --

impl Check for C15 {
    fn id(&self) -> &'static str {
        "C15"
    }

    fn rule(&self) -> String {
        "Generated (proptest, structured, shrinkable): builder scripts over command(<nschild helper>) with 0..70 \
         operations on two variables - arg (0..40+), env, cwd, stdin_text, stdin_null/inherit, timeout_ms, \
         stdout/stderr policy calls, copy of the builder to a second variable (then both are modified), \
         up to 4 run() per script - with texts concatenated from {empty, spaces, quotes, $VAR, *, ;, |, &, \
         backquote, backslash, newline, tab, control bytes, multi-byte, braces, NUL}, numbers and booleans as \
         values, env keys from a small pool (so that keys repeat) plus empty / '=' / NUL / cap-length keys, cwd \
         = existing directory (four spellings, padded to cap length), empty, missing, NUL, timeouts valid / at \
         max-1,max,max+1 / 0 / negative / fractional / huge; host policy generated: allow_process on/off, \
         0..3 of the 11 limits set to (quantity of the first command run)+{-1,0,+1} or to a small absolute \
         value, the rest default, wait_poll_ms in {1,2,5,10}. A second stage enumerates commands at -1/0/+1 \
         of every *default* limit (64 KiB argument, 256 arguments, 262144 total bytes, 128 pairs, ...). \
         The helper reports argv, the whole environment, cwd and all stdin bytes to a file named through \
         the inherited environment; the file is the spawn marker. One evaluation = one run() command whose \
         outcome (refused without marker / report equal to the model) was compared. Non-trivial: the command \
         has an argument that is empty, non-ASCII or contains a shell-significant byte, or some limited \
         quantity is within +-1 of its cap, or an env key is written more than once. Distinct by hash of the \
         canonical case (operations + policy generators)."
            .into()
    }

    fn assumptions(&self) -> Vec<String> {
        vec![
            "contract model: refusal exactly when a count/byte quantity is strictly greater than its cap, program / cwd / env key is empty, any text contains NUL, an env key contains '=', the timeout is not a positive whole number <= max_timeout_ms, or allow_process is false; refusal is the runtime error 'Invalid process configuration' ('Process execution denied' for the policy; either when both apply)".into(),
            "environment overrides are a map (last write per key wins); pair count and byte totals are taken over that map. Cases where counting every env() call instead would change the verdict (overwritten invalid value, pair cap between #keys and #calls) are discarded as undocumented".into(),
            "an invalid timeout may be reported by timeout_ms() or by the following run(): the generator always runs immediately after an invalid timeout so both readings coincide".into(),
            "a missing program / missing cwd / path beyond the OS limit is expected as 'Process spawn failed' without marker".into(),
            "numbers and booleans are stringified as their literal spelling (5, 1.5, 0.25, 1000000, true, false)".into(),
            "stdin_inherit / stdout_inherit children inherit /dev/null from the harness's forked case process".into(),
            "a copied builder (make b get a) is an independent value".into(),
        ]
    }

    fn plan(&self, _tier: Tier) -> Vec<ShardSpec> {
        (0..16).map(|_| ShardSpec { bin: Bin::Dbg }).collect()
    }

    fn shard(&self, ctx: &mut ShardCtx) {
        let t = ctx.tier;
        let all = default_boundary_cases();
        let reps = t.pick(1, 4);
        for (i, case) in all.iter().enumerate() {
            if (i as u32) % ctx.of == ctx.shard {
                for _ in 0..reps {
                    let o = check_case(ctx, case);
                    ctx.handle("defaults", o);
                }
            }
        }
        run_budgeted(ctx, "builder", t.pick(1000, 20_000), case_strategy(), 1, check_case);
    }

    fn replay(&self, ctx: &mut ShardCtx, _stage: &str, input: &J) -> Outcome {
        match Case::from_json(&input["case"]) {
            Some(case) => check_case(ctx, &case),
            None => Outcome::Discard("unreadable replay input"),
        }
    }
}


/// Wall-clock budget for shrinking one failure (presentation only: the verdict is fixed by then).
const SHRINK_BUDGET: Duration = Duration::from_secs(90);

/// `prop::run` with (1) a bounded shrinking phase and (2) support for failures that depend on
/// a sampled schedule (C16): while proptest shrinks, every candidate is tried up to
/// `shrink_attempts` times, and the last failure that was really observed is reported even when
/// the final re-run of the shrunk input passes or the shrink budget is used up.
pub fn run_budgeted<S, F>(
    ctx: &mut ShardCtx,
    stage: &str,
    cases: u32,
    strategy: S,
    shrink_attempts: u32,
    test: F,
) where
    S: Strategy,
    S::Value: Clone,
    F: Fn(&mut ShardCtx, &S::Value) -> Outcome,
{
    let last: std::cell::RefCell<Option<Failure>> = std::cell::RefCell::new(None);
    let shrinking_since: std::cell::Cell<Option<std::time::Instant>> = std::cell::Cell::new(None);
    crate::prop::run(ctx, stage, cases, strategy, |ctx, value| {
        let mut attempts = 1;
        if ctx.frozen {
            let t0 = shrinking_since.get().unwrap_or_else(std::time::Instant::now);
            shrinking_since.set(Some(t0));
            if t0.elapsed() > SHRINK_BUDGET {
                return Outcome::Pass; // stop shrinking: keep the smallest failure seen so far
            }
            attempts = shrink_attempts.max(1);
        }
        let mut outcome = Outcome::Pass;
        for _ in 0..attempts {
            outcome = test(ctx, value);
            if let Outcome::Fail(f) = &outcome {
                *last.borrow_mut() = Some(f.clone());
                break;
            }
        }
        outcome
    });
    // prop::run re-runs the shrunk and the original input at the end; once the shrink budget is
    // used up those re-runs are answered "pass" above, and a schedule-dependent failure may not
    // show again either: the failure that was really observed is reported then
    let lost = format!("stage {stage}: a failure with signature");
    if ctx.notes.iter().any(|n| n.starts_with(&lost))
        && let Some(f) = last.into_inner()
        && !ctx.is_known(&f)
    {
        ctx.notes.retain(|n| !n.starts_with(&lost));
        ctx.note(format!(
            "stage {stage}: reported as observed (shrinking stopped at its budget, or the failure is schedule-dependent and did not show on the final re-run)"
        ));
        ctx.violation(stage, &f);
    }
}
