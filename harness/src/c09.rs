//! C09 - Static rules enforced exactly: ill-formed rejected, well-formed accepted.
//!
//! Valid programs come from the intent-typed generator; violations are injected by AST-level
//! mutation operators (one per documented rule) at generated positions. The oracle is the
//! reference static checker over nsgen's AST (`nsgen::resolve`): expected verdict = "its rule
//! set is non-empty"; the implementation must reject exactly then, and some error diagnostic
//! must name the rule's category.

use proptest::prelude::*;
use serde_json::{Value as J, json};

use crate::ctx::{Failure, Outcome, ShardCtx};
use crate::driver::Check;
use crate::isolate;
use crate::nsgen::ast::*;
use crate::nsgen::build::generate;
use crate::nsgen::print::to_source;
use crate::nsgen::resolve::{self, Rule};
use crate::pipeline::{Diag, Obs, Stage};
use crate::progs::{profile_by_name, strip_names, tape_strategy};
use crate::util::{hash_str, hex, unhex};

pub struct C09;

// ------------------------------------------------------------- front end --

/// Lex + parse + resolve only (nothing is executed), isolated.
pub fn front_end(src: &str) -> Result<Obs, String> {
    let iso = isolate::run(isolate::Opts::default(), |out| {
        use naijascript::arena::Arena;
        use naijascript::resolver::Resolver;
        use naijascript::syntax::parser::Parser;
        use naijascript::syntax::scanner::Lexer;
        let arena = Arena::new(256 << 20).expect("arena");
        let mut obs = Obs {
            stage: Stage::Ran,
            front: Vec::new(),
            output: Vec::new(),
            runtime: Vec::new(),
            counters: Default::default(),
            plan: None,
            executed: Vec::new(),
            skipped: Vec::new(),
            unreachable: Vec::new(),
            work_done: 0,
        };
        let lexer = Lexer::new(src, &arena);
        let mut parser = Parser::new(lexer, &arena);
        let (root, errs) = parser.parse_program();
        if !errs.diagnostics.is_empty() {
            obs.stage = Stage::ParseRejected;
            obs.front = crate::pipeline::collect_diags(errs);
        } else {
            let mut resolver = Resolver::new(&arena);
            resolver.resolve(root);
            obs.front = crate::pipeline::collect_diags(&resolver.errors);
            if resolver.errors.has_errors() {
                obs.stage = Stage::ResolveRejected;
            }
        }
        out.frame(&obs.encode());
    });
    if let Some(f) = iso.frames.first()
        && iso.clean()
        && let Some(o) = Obs::decode(f)
    {
        return Ok(o);
    }
    Err(iso.crash_kind().unwrap_or_else(|| "no result".into()))
}

/// Accepted spellings of each rule's category: (message, substring of message+labels).
pub fn category_matches(rule: Rule, d: &Diag) -> bool {
    let text = d.text();
    let m = d.message.as_str();
    match rule {
        Rule::UndeclaredVariable => m == "Undeclared identifier" && text.contains("no dey scope"),
        Rule::AssignUndeclared => m == "Assignment to undeclared variable",
        Rule::UnknownFunction => m == "Undeclared identifier" && text.contains("Function"),
        Rule::Arity => m == "Invalid parameter count",
        Rule::BreakOutsideLoop => text.contains("`comot`") && text.contains("outside loop"),
        Rule::ContinueOutsideLoop => text.contains("`next`") && text.contains("outside loop"),
        Rule::ReturnOutsideFunction => text.contains("`return`") && text.contains("outside function"),
        Rule::DuplicateFunction => m == "Duplicate identifier" && text.contains("unction"),
        Rule::DuplicateParameter => m == "Duplicate identifier" && text.contains("arameter"),
        Rule::ReservedName => m == "Use of reserved keyword",
        Rule::TypeError => m == "Type mismatch",
        Rule::UnknownMethod => {
            (m == "Undeclared identifier" && text.contains("Method")) || m == "Type mismatch"
        }
    }
}

// ------------------------------------------------------------- injection --

#[derive(Debug, Clone, Copy, PartialEq, Eq)]
enum Sub {
    Then,
    Else,
    Body,
}

/// Path to a block: sequence of (statement index, which sub-block).
type Path = Vec<(usize, Sub)>;

#[derive(Debug, Clone, Default)]
struct BlockInfo {
    path: Path,
    len: usize,
    /// statement indexes after which nothing may be inserted (bare `return`)
    bare_return_at: Vec<usize>,
    in_function: bool,
    in_loop: bool,
    depth: usize,
    in_fn_in_loop: bool,
    in_loop_in_fn: bool,
}

#[derive(Default)]
struct Survey {
    blocks: Vec<BlockInfo>,
    var_names: Vec<String>,
    fn_names: Vec<String>,
    /// paths (block, index) of function definitions
    fn_defs: Vec<(Path, usize)>,
    /// number of user/builtin calls (for arity injection)
    calls: usize,
}

fn survey_block(b: &Block, info: BlockInfo, s: &mut Survey) {
    let mut me = info.clone();
    me.len = b.len();
    for (i, st) in b.iter().enumerate() {
        if matches!(st, Stmt::Return(None)) {
            me.bare_return_at.push(i);
        }
    }
    s.blocks.push(me);
    for (i, st) in b.iter().enumerate() {
        let child = |sub: Sub| {
            let mut c = info.clone();
            c.path.push((i, sub));
            c.depth += 1;
            c.bare_return_at.clear();
            c
        };
        match st {
            Stmt::Make(n, e) => {
                s.var_names.push(n.clone());
                if let Some(e) = e {
                    survey_expr(e, s);
                }
            }
            Stmt::Assign(_, e) | Stmt::Expr(e) | Stmt::Return(Some(e)) => survey_expr(e, s),
            Stmt::AssignIndex(t, e) => {
                survey_expr(t, s);
                survey_expr(e, s);
            }
            Stmt::If(c, t, e) => {
                survey_expr(c, s);
                survey_block(t, child(Sub::Then), s);
                if let Some(e) = e {
                    survey_block(e, child(Sub::Else), s);
                }
            }
            Stmt::Loop(c, body) => {
                survey_expr(c, s);
                let mut ci = child(Sub::Body);
                ci.in_loop = true;
                ci.in_loop_in_fn = ci.in_function;
                survey_block(body, ci, s);
            }
            Stmt::Block(body) => survey_block(body, child(Sub::Body), s),
            Stmt::FuncDef(f) => {
                s.fn_names.push(f.name.clone());
                s.fn_defs.push((info.path.clone(), i));
                let mut ci = child(Sub::Body);
                ci.in_fn_in_loop = info.in_loop;
                ci.in_function = true;
                ci.in_loop = false;
                ci.in_loop_in_fn = false;
                survey_block(&f.body, ci, s);
            }
            _ => {}
        }
    }
}

fn survey_expr(e: &Expr, s: &mut Survey) {
    match e {
        Expr::Call(_, args) => {
            s.calls += 1;
            args.iter().for_each(|a| survey_expr(a, s));
        }
        Expr::Method(r, _, args) => {
            s.calls += 1;
            survey_expr(r, s);
            args.iter().for_each(|a| survey_expr(a, s));
        }
        Expr::Unary(_, x) | Expr::Paren(x) | Expr::Member(x, _) => survey_expr(x, s),
        Expr::Binary(_, l, r) | Expr::Index(l, r) => {
            survey_expr(l, s);
            survey_expr(r, s);
        }
        Expr::Array(items) => items.iter().for_each(|a| survey_expr(a, s)),
        Expr::CallExpr(c, args) => {
            survey_expr(c, s);
            args.iter().for_each(|a| survey_expr(a, s));
        }
        _ => {}
    }
}

fn block_mut<'a>(p: &'a mut Program, path: &Path) -> &'a mut Block {
    let mut cur: &mut Block = &mut p.body;
    for (i, sub) in path {
        cur = match (&mut cur[*i], sub) {
            (Stmt::If(_, t, _), Sub::Then) => t,
            (Stmt::If(_, _, Some(e)), Sub::Else) => e,
            (Stmt::Loop(_, b), Sub::Body) | (Stmt::Block(b), Sub::Body) => b,
            (Stmt::FuncDef(f), Sub::Body) => &mut f.body,
            _ => unreachable!("stale path"),
        };
    }
    cur
}

/// Mutates the n-th call (pre-order) by adding or removing an argument.
fn mutate_nth_call(b: &mut Block, n: &mut isize, add: bool) -> bool {
    fn in_expr(e: &mut Expr, n: &mut isize, add: bool) -> bool {
        match e {
            Expr::Call(_, args) | Expr::Method(_, _, args) => {
                if *n == 0 {
                    if add || args.is_empty() {
                        args.push(Expr::Num(0.0));
                    } else {
                        args.pop();
                    }
                    *n -= 1;
                    return true;
                }
                *n -= 1;
                if let Expr::Method(r, _, _) = e
                    && in_expr(r, n, add)
                {
                    return true;
                }
                let args = match e {
                    Expr::Call(_, a) | Expr::Method(_, _, a) => a,
                    _ => unreachable!(),
                };
                args.iter_mut().any(|a| in_expr(a, n, add))
            }
            Expr::Unary(_, x) | Expr::Paren(x) | Expr::Member(x, _) => in_expr(x, n, add),
            Expr::Binary(_, l, r) | Expr::Index(l, r) => in_expr(l, n, add) || in_expr(r, n, add),
            Expr::Array(items) => items.iter_mut().any(|a| in_expr(a, n, add)),
            Expr::CallExpr(c, args) => in_expr(c, n, add) || args.iter_mut().any(|a| in_expr(a, n, add)),
            _ => false,
        }
    }
    for st in b.iter_mut() {
        let hit = match st {
            Stmt::Make(_, Some(e)) | Stmt::Assign(_, e) | Stmt::Expr(e) | Stmt::Return(Some(e)) => in_expr(e, n, add),
            Stmt::AssignIndex(t, e) => in_expr(t, n, add) || in_expr(e, n, add),
            Stmt::If(c, t, e) => {
                in_expr(c, n, add)
                    || mutate_nth_call(t, n, add)
                    || e.as_mut().is_some_and(|e| mutate_nth_call(e, n, add))
            }
            Stmt::Loop(c, body) => in_expr(c, n, add) || mutate_nth_call(body, n, add),
            Stmt::Block(body) => mutate_nth_call(body, n, add),
            Stmt::FuncDef(f) => mutate_nth_call(&mut f.body, n, add),
            _ => false,
        };
        if hit {
            return true;
        }
    }
    false
}

#[derive(Debug, Clone)]
pub struct Injection {
    /// operator family 0..OPS
    pub op: u8,
    /// site selector (mapped monotonically onto the candidate list)
    pub site: u16,
    pub variant: u8,
}

pub const OPS: u8 = 14;

fn pick<T>(list: &[T], sel: u16) -> Option<&T> {
    if list.is_empty() { None } else { Some(&list[(usize::from(sel) * list.len()) >> 16]) }
}

fn shout(e: Expr) -> Stmt {
    Stmt::Expr(Expr::call("shout", vec![e]))
}

/// Applies the injection; returns a short description, or None if there was no site.
pub fn inject(p: &mut Program, inj: &Injection) -> Option<String> {
    let mut s = Survey::default();
    survey_block(&p.body, BlockInfo::default(), &mut s);
    let blocks = s.blocks.clone();
    let site_block = pick(&blocks, inj.site)?;
    // insertion index inside the block, never directly after a bare `return`
    let mut idx = (usize::from(inj.variant) * (site_block.len + 1)) >> 8;
    while site_block.bare_return_at.iter().any(|r| r + 1 == idx) {
        idx += 1;
    }
    let idx = idx.min(site_block.len);
    if site_block.bare_return_at.iter().any(|r| r + 1 == idx) {
        return None;
    }
    let ctx_name = if site_block.in_fn_in_loop {
        "function-in-loop"
    } else if site_block.in_loop_in_fn {
        "loop-in-function"
    } else if site_block.in_loop {
        "loop"
    } else if site_block.in_function {
        "function"
    } else if site_block.depth > 0 {
        "block"
    } else {
        "top-level"
    };
    let v = inj.variant;
    let other_var = pick(&s.var_names, inj.site.rotate_left(7)).cloned();
    let other_fn = pick(&s.fn_names, inj.site.rotate_left(5)).cloned();
    let stmts: Vec<Stmt> = match inj.op {
        // undeclared use: fresh name, plain / in argument / in placeholder / in index
        0 => vec![match v % 4 {
            0 => shout(Expr::var("zz_undeclared")),
            1 => shout(Expr::call("to_string", vec![Expr::bin(BinOp::Add, Expr::Num(1.0), Expr::var("zz_undeclared"))])),
            2 => shout(Expr::Str(StrLit {
                quote: '"',
                parts: vec![
                    StrPart::Text("v=".into()),
                    StrPart::Interp { name: "zz_undeclared".into(), ws_before: String::new(), ws_after: String::new() },
                ],
            })),
            _ => shout(Expr::index(Expr::Array(vec![Expr::Num(1.0)]), Expr::var("zz_undeclared"))),
        }],
        // use of a name that exists somewhere in the program (out of scope here, or not)
        1 => vec![shout(Expr::var(&other_var?))],
        // assignment to an undeclared name / to a name from elsewhere
        2 => vec![if v % 2 == 0 {
            Stmt::Assign("zz_undeclared".into(), Expr::Num(1.0))
        } else {
            Stmt::Assign(other_var?, Expr::Num(1.0))
        }],
        // unknown function / function from elsewhere (outside its block, or not)
        3 => vec![if v % 2 == 0 {
            Stmt::Expr(Expr::call("zz_nofn", vec![Expr::Num(1.0)]))
        } else {
            // arity is unknown here: the reference decides whether it is an arity or scope issue
            Stmt::Expr(Expr::call(&other_fn?, vec![]))
        }],
        // arity of an existing call / built-in / method
        4 => {
            match v % 5 {
                0 | 1 => {
                    if s.calls == 0 {
                        return None;
                    }
                    let mut n = ((usize::from(inj.site) * s.calls) >> 16) as isize;
                    if !mutate_nth_call(&mut p.body, &mut n, v % 5 == 0) {
                        return None;
                    }
                    return Some(format!("arity of an existing call changed ({ctx_name})"));
                }
                2 => vec![Stmt::Expr(Expr::call("shout", vec![Expr::Num(1.0), Expr::Num(2.0)]))],
                3 => vec![shout(Expr::call("typeof", vec![]))],
                _ => vec![shout(Expr::method(Expr::str("abc"), "slice", vec![Expr::Num(1.0)]))],
            }
        }
        5 => vec![Stmt::Break],
        6 => vec![Stmt::Continue],
        7 => vec![Stmt::Return(Some(Expr::Num(1.0)))],
        // duplicate function in this block
        8 => {
            let (path, i) = pick(&s.fn_defs, inj.site)?.clone();
            let b = block_mut(p, &path);
            let copy = b[i].clone();
            let at = (usize::from(v) * (b.len() + 1)) >> 8;
            let at = if b.iter().enumerate().any(|(k, st)| matches!(st, Stmt::Return(None)) && k + 1 == at) {
                0
            } else {
                at
            };
            b.insert(at.min(b.len()), copy);
            return Some("function definition duplicated in its block".into());
        }
        // duplicate parameter
        9 => {
            let (path, i) = pick(&s.fn_defs, inj.site)?.clone();
            let b = block_mut(p, &path);
            if let Stmt::FuncDef(f) = &mut b[i] {
                if f.params.is_empty() {
                    f.params.push("dup".into());
                    f.params.push("dup".into());
                } else {
                    let k = usize::from(v) % f.params.len();
                    let name = f.params[k].clone();
                    f.params.push(name);
                }
            }
            // callers now have the wrong arity too; the category check accepts either
            return Some("parameter duplicated".into());
        }
        // built-in name as variable / function / parameter name
        10 => vec![match v % 3 {
            0 => Stmt::Make(["shout", "typeof", "to_string", "read_line", "command"][usize::from(v / 3) % 5].into(), Some(Expr::Num(1.0))),
            1 => Stmt::FuncDef(FuncDef { name: ["shout", "typeof", "to_string"][usize::from(v / 3) % 3].into(), params: vec![], body: vec![] }),
            _ => Stmt::FuncDef(FuncDef { name: "zz_fn".into(), params: vec!["typeof".into()], body: vec![] }),
        }],
        // keyword as a name
        11 => vec![match v % 3 {
            0 => Stmt::Make(["jasi", "make", "end", "na", "true", "null"][usize::from(v / 3) % 6].into(), Some(Expr::Num(1.0))),
            1 => Stmt::FuncDef(FuncDef { name: ["start", "return", "do"][usize::from(v / 3) % 3].into(), params: vec![], body: vec![] }),
            _ => Stmt::FuncDef(FuncDef { name: "zz_fn".into(), params: vec!["comot".into()], body: vec![] }),
        }],
        // clear-cut type errors on literal types
        12 => vec![match v % 14 {
            0 => shout(Expr::bin(BinOp::Add, Expr::Num(1.0), Expr::Bool(true))),
            1 => shout(Expr::un(UnOp::Neg, Expr::str("s"))),
            2 => shout(Expr::un(UnOp::Not, Expr::Num(5.0))),
            3 => shout(Expr::bin(BinOp::And, Expr::Num(5.0), Expr::Bool(true))),
            4 => shout(Expr::bin(BinOp::Times, Expr::str("s"), Expr::Num(2.0))),
            5 => shout(Expr::bin(BinOp::Eq, Expr::Bool(true), Expr::Num(1.0))),
            6 => Stmt::If(Expr::Num(5.0), vec![], None),
            7 => Stmt::Loop(Expr::str("s"), vec![Stmt::Break]),
            8 => shout(Expr::index(Expr::Num(5.0), Expr::Num(0.0))),
            9 => shout(Expr::index(Expr::Array(vec![Expr::Num(1.0)]), Expr::str("x"))),
            10 => shout(Expr::method(Expr::Num(5.0), "len", vec![])),
            11 => shout(Expr::method(Expr::str("s"), "push", vec![Expr::Num(1.0)])),
            12 => shout(Expr::method(Expr::Array(vec![Expr::Num(1.0)]), "join", vec![Expr::Num(2.0)])),
            _ => shout(Expr::bin(BinOp::Or, Expr::Bool(true), Expr::str("s"))),
        }],
        // clear-cut type errors on declared types
        _ => {
            let decl = match v % 4 {
                0 => Stmt::Make("zz_tn".into(), Some(Expr::Num(5.0))),
                1 => Stmt::Make("zz_tn".into(), Some(Expr::str("s"))),
                2 => Stmt::Make("zz_tn".into(), Some(Expr::Bool(true))),
                _ => Stmt::Make("zz_tn".into(), Some(Expr::Array(vec![Expr::Num(1.0)]))),
            };
            let use_ = match v % 4 {
                0 => shout(Expr::method(Expr::var("zz_tn"), "len", vec![])),
                1 => shout(Expr::bin(BinOp::Minus, Expr::var("zz_tn"), Expr::Num(1.0))),
                2 => shout(Expr::bin(BinOp::Add, Expr::var("zz_tn"), Expr::Num(1.0))),
                _ => Stmt::If(Expr::var("zz_tn"), vec![], None),
            };
            vec![decl, use_]
        }
    };
    let path = site_block.path.clone();
    let b = block_mut(p, &path);
    for (k, st) in stmts.into_iter().enumerate() {
        b.insert(idx + k, st);
    }
    Some(format!("operator {} in context {ctx_name}", inj.op))
}

// --------------------------------------------------------------- checking --

pub fn check_program(ctx: &mut ShardCtx, p: &Program, injected: Option<&str>, input: J) -> Outcome {
    let src = to_source(p);
    let res = resolve::resolve(p);
    let rules = res.rules();
    ctx.eval();
    let obs = match front_end(&src) {
        Ok(o) => o,
        Err(c) => {
            if crate::progs::is_arena_exhaustion(&c) {
                ctx.inconclusive += 1;
                return Outcome::Discard("U8 arena exhaustion");
            }
            return Outcome::Fail(Failure {
                sig: format!("front-end-crash|{c}"),
                what: format!("the front end crashed ({c})\n--- program ---\n{src}"),
                input,
            });
        }
    };
    let errors: Vec<&Diag> = obs.front.iter().filter(|d| d.is_error()).collect();
    if rules.is_empty() {
        ctx.class(if injected.is_some() { "valid (injection had no effect)" } else { "valid" });
        if crate::nsgen::ast::count_stmts(&p.body) >= 6 {
            ctx.nontrivial(hash_str(&src));
            ctx.sample("valid program", J::String(src.clone()));
        }
        if let Some(e) = errors.first() {
            // Arity of a *method* can only be judged when the receiver's type is known. The
            // reference types receivers conservatively (literal / declared types only); when the
            // implementation knows more and reports the changed arity, that is not asserted.
            if injected.is_some_and(|d| d.starts_with("arity of an existing call"))
                && errors.iter().all(|d| d.message == "Invalid parameter count" && d.text().contains("Method"))
            {
                return Outcome::Discard("method arity on a receiver the reference cannot type");
            }
            let lbl = e.labels.first().map(|l| strip_names(&l.0)).unwrap_or_default();
            return Outcome::Fail(Failure {
                sig: format!("valid-rejected|{}|{lbl}", e.message),
                what: format!(
                    "a program that breaks no documented static rule was rejected: {}\n--- program ---\n{src}",
                    e.text()
                ),
                input,
            });
        }
        return Outcome::Pass;
    }
    for r in &rules {
        ctx.class(&format!("violates {}", r.name()));
    }
    ctx.nontrivial(hash_str(&src));
    if rules.len() == 1 {
        ctx.sample(&format!("violates {}", rules[0].name()), J::String(src.clone()));
    }
    if errors.is_empty() {
        return Outcome::Fail(Failure {
            sig: format!("invalid-accepted|{}", rules[0].name()),
            what: format!(
                "a program that breaks a documented static rule ({}) was accepted\n--- program ---\n{src}",
                res.issues.iter().map(|i| format!("{}: {}", i.rule.name(), i.detail)).collect::<Vec<_>>().join("; ")
            ),
            input,
        });
    }
    // the rejecting diagnostics must name the category of a broken rule
    let named = errors.iter().any(|d| rules.iter().any(|r| category_matches(*r, d)));
    if !named {
        return Outcome::Fail(Failure {
            sig: format!("wrong-category|{}|{}", rules[0].name(), errors[0].message),
            what: format!(
                "rejected, but no diagnostic names the broken rule ({}): got {}\n--- program ---\n{src}",
                rules.iter().map(|r| r.name()).collect::<Vec<_>>().join(", "),
                errors.iter().map(|d| d.text()).collect::<Vec<_>>().join(" || ")
            ),
            input,
        });
    }
    Outcome::Pass
}

fn case(ctx: &mut ShardCtx, tape: &[u8], profile: &str, inj: Option<&Injection>) -> Outcome {
    let (mut program, _) = generate(tape, profile_by_name(profile));
    let base_ok = resolve::resolve(&program).ok();
    if !base_ok {
        ctx.note("generator produced an invalid base program; case discarded");
        return Outcome::Discard("generator-invalid (harness bug, see notes)");
    }
    let mut desc = None;
    if let Some(inj) = inj {
        desc = inject(&mut program, inj);
        if desc.is_none() {
            return Outcome::Discard("no site for this injection");
        }
    }
    let input = json!({
        "tape": hex(tape),
        "profile": profile,
        "injection": inj.map(|i| json!({"op": i.op, "site": i.site, "variant": i.variant})),
        "source": to_source(&program),
    });
    check_program(ctx, &program, desc.as_deref(), input)
}

/// rule x context grid written as source text (exhaustive, both tiers)
const CONTEXTS: [(&str, &str, &str); 8] = [
    ("top-level", "", ""),
    ("block", "start\n", "\nend"),
    ("loop", "make gi get 0\njasi (gi small pass 1) start\ngi get gi add 1\n", "\nend"),
    ("function", "do gf() start\n", "\nend\ngf()"),
    ("function-in-loop", "make gi get 0\njasi (gi small pass 1) start\ngi get gi add 1\ndo gf() start\n", "\nend\ngf()\nend"),
    ("loop-in-function", "do gf() start\nmake gi get 0\njasi (gi small pass 1) start\ngi get gi add 1\n", "\nend\nend\ngf()"),
    ("if-branch", "if to say (true) start\n", "\nend"),
    ("else-branch", "if to say (false) start\nend\nif not so start\n", "\nend"),
];

/// (rule, snippet, applies in loop?, applies in function?) - `None` means "always a violation".
const SNIPPETS: [(Rule, &str); 38] = [
    (Rule::UndeclaredVariable, "shout(nope)"),
    (Rule::UndeclaredVariable, "shout(\"v={nope}\")"),
    (Rule::UndeclaredVariable, "shout(to_string(1 add nope))"),
    (Rule::UndeclaredVariable, "start\nmake inner get 1\nend\nshout(inner)"),
    (Rule::UndeclaredVariable, "shout(later)\nmake later get 1"),
    (Rule::UndeclaredVariable, "do sib() start\nmake loc get 1\nend\nshout(loc)"),
    (Rule::AssignUndeclared, "nope get 1"),
    (Rule::AssignUndeclared, "start\nmake inner get 1\nend\ninner get 2"),
    (Rule::UnknownFunction, "nofn(1)"),
    (Rule::UnknownFunction, "start\ndo inner() start\nend\nend\ninner()"),
    (Rule::Arity, "do two(a, b) start\nend\ntwo(1)"),
    (Rule::Arity, "do two(a, b) start\nend\ntwo(1, 2, 3)"),
    (Rule::Arity, "shout(1, 2)"),
    (Rule::Arity, "shout(typeof())"),
    (Rule::Arity, "shout(\"abc\".slice(1))"),
    (Rule::Arity, "shout([1].len(2))"),
    (Rule::DuplicateFunction, "do twice() start\nend\ndo twice() start\nend"),
    (Rule::DuplicateParameter, "do dp(a, a) start\nend"),
    (Rule::ReservedName, "make shout get 1"),
    (Rule::ReservedName, "do typeof() start\nend"),
    (Rule::ReservedName, "do rp(to_string) start\nend"),
    (Rule::ReservedName, "make jasi get 1"),
    (Rule::TypeError, "shout(1 add true)"),
    (Rule::TypeError, "shout(minus \"s\")"),
    (Rule::TypeError, "shout(\"s\" times 2)"),
    (Rule::TypeError, "if to say (5) start\nend"),
    (Rule::TypeError, "shout(5[0])"),
    (Rule::TypeError, "make tn get 5\nshout(tn minus \"s\")"),
    (Rule::UnknownMethod, "shout((5).len())"),
    (Rule::UnknownMethod, "shout(\"s\".push(1))"),
    // the violation sits in the value (or index) of an index assignment whose target is rooted in
    // a call result or a method result, not in a variable
    (Rule::UndeclaredVariable, "do mk() start\nreturn [[1]]\nend\nmk()[0] get nope"),
    (Rule::UndeclaredVariable, "do mk() start\nreturn [[1]]\nend\nmk()[0][0] get \"v={nope}\""),
    (Rule::UnknownFunction, "do mk() start\nreturn [[1]]\nend\nmk()[0] get nofn(1)"),
    (Rule::Arity, "do mk() start\nreturn [[1]]\nend\nmk()[0] get mk(1)"),
    (Rule::TypeError, "do mk() start\nreturn [[1]]\nend\nmk()[0] get 1 minus \"s\""),
    (Rule::UndeclaredVariable, "make sv get \"a,b\"\nsv.split(\",\")[0] get nope"),
    (Rule::UndeclaredVariable, "do mk() start\nreturn [[1]]\nend\nmk()[nope] get 1"),
    (Rule::UndeclaredVariable, "make ia get [1]\nia[0] get nope"),
];

/// Static types of the typing table with three spellings each: literal, variable declared with a
/// literal of that type, parenthesised literal.
const TT_TYPES: [(&str, [&str; 3]); 5] = [
    ("number", ["1", "tvn", "(2)"]),
    ("string", ["\"s\"", "tvs", "(\"t\")"]),
    ("boolean", ["true", "tvb", "(false)"]),
    ("null", ["null", "tvz", "(null)"]),
    ("array", ["[1]", "tva", "([2])"]),
];
/// Spellings whose type is only known at run time (array element; a parameter needs a wrapper).
const TT_DYN: [&str; 2] = ["tva[0]", "tdp"];
const TT_DECLS: &str = "make tvn get 1\nmake tvs get \"s\"\nmake tvb get true\nmake tvz get null\nmake tva get [1]\n";
const TT_BINOPS: [&str; 10] = ["add", "minus", "times", "divide", "mod", "na", "pass", "small pass", "and", "or"];

/// Documented verdict for `<l> op <r>` with static operand types (index into TT_TYPES, None =
/// dynamically typed). Some(true) = a static type error, Some(false) = must be accepted, None =
/// not asserted (unspecified zones U6: string `add` bool/null/array, U10: ordering of booleans or
/// with null; and whatever only the run-time type of a dynamic operand can decide).
fn tt_binary_verdict(op: &str, l: Option<usize>, r: Option<usize>) -> Option<bool> {
    const N: usize = 0;
    const S: usize = 1;
    const B: usize = 2;
    const Z: usize = 3;
    const A: usize = 4;
    match (l, r) {
        (Some(l), Some(r)) => match op {
            "add" => match (l, r) {
                (N, N) | (S, S) | (S, N) | (N, S) => Some(false),
                (S, _) | (_, S) => None,
                _ => Some(true),
            },
            "minus" | "times" | "divide" | "mod" => Some(!(l == N && r == N)),
            "na" => Some(!((l == r && l != A) || l == Z || r == Z)),
            "pass" | "small pass" => match (l, r) {
                (N, N) | (S, S) => Some(false),
                (Z, _) | (_, Z) | (B, B) => None,
                _ => Some(true),
            },
            _ => Some(!(matches!(l, B | Z) && matches!(r, B | Z))),
        },
        // one operand is dynamically typed: the other one must still be possible for the operator
        (Some(t), None) | (None, Some(t)) => match op {
            "add" => match t {
                N | S => Some(false),
                _ => None,
            },
            "minus" | "times" | "divide" | "mod" => Some(t != N),
            "na" => Some(false),
            "pass" | "small pass" => match t {
                N | S => Some(false),
                _ => None,
            },
            _ => Some(!matches!(t, B | Z)),
        },
        (None, None) => Some(false),
    }
}

/// Bounded-exhaustive operator typing table: every binary operator over every pair of operand
/// spellings, unary operators, conditions and indexing, in every context.
fn typing_table(ctx: &mut ShardCtx) {
    let mut cases: Vec<(String, Option<bool>, String)> = Vec::new(); // (expression statement, verdict, class)
    let mut operands: Vec<(Option<usize>, &str)> = Vec::new();
    for (ti, (_, spell)) in TT_TYPES.iter().enumerate() {
        for s in spell {
            operands.push((Some(ti), s));
        }
    }
    for d in &TT_DYN {
        operands.push((None, d));
    }
    let tname = |t: Option<usize>| t.map_or("dynamic", |i| TT_TYPES[i].0);
    for op in &TT_BINOPS {
        for (lt, l) in &operands {
            for (rt, r) in &operands {
                cases.push((
                    format!("shout({l} {op} {r})"),
                    tt_binary_verdict(op, *lt, *rt),
                    format!("{} {op} {}", tname(*lt), tname(*rt)),
                ));
            }
        }
    }
    for (t, e) in &operands {
        let not_bad = t.map(|t| !matches!(t, 2 | 3));
        let neg_bad = t.map(|t| t != 0);
        cases.push((format!("shout(not {e})"), Some(not_bad.unwrap_or(false)), format!("not {}", tname(*t))));
        cases.push((format!("shout(minus {e})"), Some(neg_bad.unwrap_or(false)), format!("minus {}", tname(*t))));
        // conditions take a boolean; null is documented as falsy
        cases.push((format!("if to say ({e}) start\nend"), Some(not_bad.unwrap_or(false)), format!("if {}", tname(*t))));
        cases.push((format!("jasi ({e}) start\ncomot\nend"), Some(not_bad.unwrap_or(false)), format!("jasi {}", tname(*t))));
        for (it, i) in &operands {
            let bad = t.is_some_and(|t| t != 4) || it.is_some_and(|i| i != 0);
            cases.push((format!("shout({e}[{i}])"), Some(bad), format!("{}[{}]", tname(*t), tname(*it))));
        }
    }
    let mut idx = 0u32;
    for (cname, head, foot) in &CONTEXTS {
        for (stmt, verdict, class) in &cases {
            idx += 1;
            if idx % ctx.of != ctx.shard {
                continue;
            }
            // `tdp` is a parameter of a wrapper function around declarations and statement
            let src = if stmt.contains("tdp") {
                format!("{head}do tdf(tdp) start\n{TT_DECLS}{stmt}\nend\ntdf(1){foot}\n")
            } else {
                format!("{head}{TT_DECLS}{stmt}{foot}\n")
            };
            ctx.eval();
            let Some(bad) = *verdict else {
                ctx.discard("typing table: unspecified zone (not asserted)");
                continue;
            };
            let obs = match front_end(&src) {
                Ok(o) => o,
                Err(c) => {
                    ctx.handle("typing-table", Outcome::Fail(Failure {
                        sig: format!("front-end-crash|{c}"),
                        what: format!("front end crashed ({c})\n{src}"),
                        input: json!({"raw_source": src, "rule": if bad { Some("type-error") } else { None }}),
                    }));
                    continue;
                }
            };
            ctx.nontrivial(hash_str(&src));
            let errors: Vec<&Diag> = obs.front.iter().filter(|d| d.is_error()).collect();
            let input = json!({"raw_source": src, "rule": if bad { Some("type-error") } else { None }});
            if bad {
                ctx.class("typing table: statically wrong operand types");
                if errors.is_empty() {
                    ctx.handle("typing-table", Outcome::Fail(Failure {
                        sig: format!("invalid-accepted|type-error|{class}"),
                        what: format!("`{stmt}` ({class}) is a static type error but the program was accepted (context {cname})\n{src}"),
                        input,
                    }));
                } else if !errors.iter().any(|d| category_matches(Rule::TypeError, d)) {
                    ctx.handle("typing-table", Outcome::Fail(Failure {
                        sig: format!("wrong-category|type-error|{}|{class}", errors[0].message),
                        what: format!("`{stmt}` ({class}) in context {cname}; diagnostics: {}\n{src}", errors.iter().map(|d| d.text()).collect::<Vec<_>>().join(" || ")),
                        input,
                    }));
                }
            } else {
                ctx.class("typing table: well-typed operands");
                if let Some(e) = errors.first() {
                    ctx.handle("typing-table", Outcome::Fail(Failure {
                        sig: format!("valid-rejected|{}|{class}", e.message),
                        what: format!("`{stmt}` ({class}) is well typed but was rejected in context {cname}: {}\n{src}", e.text()),
                        input,
                    }));
                }
            }
        }
    }
}

/// Valid uses of a function result whose type is fixed by `return` statements at various nesting
/// positions (if / else / loop / block / else inside if), alone or next to a return of another
/// type: every use that is well typed for some `return` of the function must be accepted.
fn return_type_table(ctx: &mut ShardCtx) {
    // (type, literal, valid uses with $X for the call)
    let types: [(&str, &str, &[&str]); 4] = [
        ("number", "7", &["shout($X times 2)", "shout(minus $X)", "shout($X.abs())", "make rv get [1, 2]\nshout(rv[$X])"]),
        ("string", "\"text\"", &["shout($X.len())", "shout($X.to_uppercase())", "shout($X add \"!\")"]),
        ("boolean", "true", &["shout(not $X)", "shout($X and true)", "if to say ($X) start\nshout(1)\nend"]),
        ("array", "[1, 2]", &["shout($X[0])", "shout($X.len())", "shout($X.join(\",\"))"]),
    ];
    // single return at a position ($L = literal); every other path falls off the end
    let single: [(&str, &str); 6] = [
        ("top", "return $L"),
        ("if-branch", "if to say (c) start\nreturn $L\nend"),
        ("else-branch", "if to say (c) start\nshout(0)\nend\nif not so start\nreturn $L\nend"),
        ("loop-body", "jasi (c) start\nreturn $L\nend"),
        ("bare-block", "start\nreturn $L\nend"),
        ("else-inside-if", "if to say (c) start\nif to say (false) start\nshout(0)\nend\nif not so start\nreturn $L\nend\nend"),
    ];
    // two returns of different types ($L and $M)
    let pairs: [(&str, &str); 3] = [
        ("if/else", "if to say (c) start\nreturn $L\nend\nif not so start\nreturn $M\nend"),
        ("loop/after", "jasi (c) start\nreturn $L\nend\nreturn $M"),
        ("block-in-else/top", "if to say (c) start\nshout(0)\nend\nif not so start\nstart\nreturn $L\nend\nend\nreturn $M"),
    ];
    let mut cases: Vec<(String, String)> = Vec::new(); // (program fragment, class)
    for (tn, lit, uses) in &types {
        for (pn, body) in &single {
            for u in *uses {
                let f = format!("do trf(c) start\n{}\nend\n{}", body.replace("$L", lit), u.replace("$X", "trf(true)"));
                cases.push((f, format!("{tn} returned from {pn}")));
            }
        }
    }
    for (t1, l1, u1) in &types {
        for (t2, l2, u2) in &types {
            if t1 == t2 {
                continue;
            }
            for (pn, body) in &pairs {
                for u in u1.iter().chain(u2.iter()) {
                    let f = format!(
                        "do trf(c) start\n{}\nend\n{}",
                        body.replace("$L", l1).replace("$M", l2),
                        u.replace("$X", "trf(true)")
                    );
                    cases.push((f, format!("{t1} and {t2} returned from {pn}")));
                }
            }
        }
    }
    let mut idx = 0u32;
    for (cname, head, foot) in &CONTEXTS {
        for (frag, class) in &cases {
            idx += 1;
            if idx % ctx.of != ctx.shard {
                continue;
            }
            let src = format!("{head}{frag}{foot}\n");
            ctx.eval();
            let input = json!({"raw_source": src, "rule": J::Null});
            let obs = match front_end(&src) {
                Ok(o) => o,
                Err(c) => {
                    ctx.handle("return-types", Outcome::Fail(Failure {
                        sig: format!("front-end-crash|{c}"),
                        what: format!("front end crashed ({c})\n{src}"),
                        input,
                    }));
                    continue;
                }
            };
            ctx.nontrivial(hash_str(&src));
            ctx.class("return-type table: use that fits a `return` of the function");
            if let Some(e) = obs.front.iter().find(|d| d.is_error()) {
                ctx.handle("return-types", Outcome::Fail(Failure {
                    sig: format!("valid-rejected|{}|{class}", e.message),
                    what: format!("a use that fits a `return` of the function ({class}) was rejected in context {cname}: {}\n{src}", e.text()),
                    input,
                }));
            }
        }
    }
}

fn grid(ctx: &mut ShardCtx) {
    let mut idx = 0u32;
    let mut run = |ctx: &mut ShardCtx, rule: Option<Rule>, cname: &str, src: String| {
        idx += 1;
        if idx % ctx.of != ctx.shard {
            return;
        }
        ctx.eval();
        let obs = match front_end(&src) {
            Ok(o) => o,
            Err(c) => {
                ctx.handle("grid", Outcome::Fail(Failure {
                    sig: format!("front-end-crash|{c}"),
                    what: format!("front end crashed ({c})\n{src}"),
                    input: json!({"raw_source": src, "rule": rule.map(Rule::name)}),
                }));
                return;
            }
        };
        let errors: Vec<&Diag> = obs.front.iter().filter(|d| d.is_error()).collect();
        ctx.nontrivial(hash_str(&src));
        let input = json!({"raw_source": src, "rule": rule.map(Rule::name)});
        match rule {
            Some(r) => {
                ctx.class(&format!("grid {} x {cname}", r.name()));
                if errors.is_empty() {
                    ctx.handle("grid", Outcome::Fail(Failure {
                        sig: format!("invalid-accepted|{}|{cname}", r.name()),
                        what: format!("rule {} violated in context {cname} but the program was accepted\n{src}", r.name()),
                        input,
                    }));
                } else if !errors.iter().any(|d| category_matches(r, d)) {
                    ctx.handle("grid", Outcome::Fail(Failure {
                        sig: format!("wrong-category|{}|{}", r.name(), errors[0].message),
                        what: format!("rule {} violated in context {cname}; diagnostics: {}\n{src}", r.name(), errors.iter().map(|d| d.text()).collect::<Vec<_>>().join(" || ")),
                        input,
                    }));
                }
            }
            None => {
                ctx.class(&format!("grid valid x {cname}"));
                if let Some(e) = errors.first() {
                    ctx.handle("grid", Outcome::Fail(Failure {
                        sig: format!("valid-rejected|{}|{cname}", e.message),
                        what: format!("valid snippet rejected in context {cname}: {}\n{src}", e.text()),
                        input,
                    }));
                }
            }
        }
    };
    for (cname, head, foot) in &CONTEXTS {
        for (rule, snip) in &SNIPPETS {
            run(ctx, Some(*rule), cname, format!("{head}{snip}{foot}\n"));
        }
        // comot / next / return: violation depends on the context
        let in_loop = matches!(*cname, "loop" | "loop-in-function");
        let in_fn = matches!(*cname, "function" | "function-in-loop" | "loop-in-function");
        run(ctx, if in_loop { None } else { Some(Rule::BreakOutsideLoop) }, cname, format!("{head}comot{foot}\n"));
        run(ctx, if in_loop { None } else { Some(Rule::ContinueOutsideLoop) }, cname, format!("{head}next{foot}\n"));
        run(ctx, if in_fn { None } else { Some(Rule::ReturnOutsideFunction) }, cname, format!("{head}return 1{foot}\n"));
        // the same after a function definition / a loop of the same block has been closed
        run(
            ctx,
            if in_fn { None } else { Some(Rule::ReturnOutsideFunction) },
            cname,
            format!("{head}do rf() start\nreturn 2\nend\nshout(rf())\nreturn 1{foot}\n"),
        );
        for (word, rule) in [("comot", Rule::BreakOutsideLoop), ("next", Rule::ContinueOutsideLoop)] {
            run(
                ctx,
                if in_loop { None } else { Some(rule) },
                cname,
                format!("{head}make li get 0\njasi (li small pass 1) start\nli get li add 1\nend\ndo lf() start\nreturn 2\nend\n{word}{foot}\n"),
            );
        }
        // valid counterparts in every context
        for ok in [
            "make okv get 1\nshout(okv)",
            "shout(fwd())\ndo fwd() start\nreturn 1\nend",
            "do rec(n) start\nif to say (n small pass 1) start\nreturn 0\nend\nreturn rec(n minus 1)\nend\nshout(rec(2))",
            "make sv get 1\nstart\nmake sv get \"s\"\nshout(sv.len())\nend\nshout(sv add 1)",
            "do avg(a, b) start\nreturn (a add b) divide 2\nend\nshout(avg(1, 2))",
            "make len get 1\nshout(len)",
        ] {
            run(ctx, None, cname, format!("{head}{ok}{foot}\n"));
        }
    }
}

impl Check for C09 {
    fn id(&self) -> &'static str {
        "C09"
    }

    fn rule(&self) -> String {
        format!(
            "(a) valid programs from the intent-typed `general` and `scope` profiles (tape-driven); (b) the same programs \
             with one injected violation: {OPS} AST-level mutation operators (undeclared use incl. placeholder / argument / \
             index, use or assignment of a name from elsewhere in the program, unknown function, function from another \
             block, arity +-1 of an existing call / built-in / method, comot, next, return inserted anywhere, duplicated \
             function, duplicated parameter, built-in or keyword as variable / function / parameter name, 14 literal-typed \
             and 4 declared-type type errors) applied at a generated block and position; (c) an exhaustive grid of {} rule \
             snippets + comot/next/return + 6 valid snippets in {} nesting contexts; (d) an exhaustive operator typing table \
             (10 binary operators x 17 x 17 operand spellings - number/string/boolean/null/array as literal, declared \
             variable, parenthesised literal, plus array element and parameter as dynamically typed - and not / unary minus / \
             if / jasi / indexing) in the same contexts, verdicts written down from the documented rules. Oracle: the reference static checker \
             over nsgen's AST decides which rules the mutated program breaks (possibly none); the implementation must accept \
             iff none, and when rejecting, some error diagnostic must name a broken rule's category. Only lexer, parser and \
             resolver run. Non-trivial: every rule-breaking case; valid cases with >= 6 statements. Distinct by source.",
            SNIPPETS.len(),
            CONTEXTS.len()
        )
    }

    fn assumptions(&self) -> Vec<String> {
        vec![
            "generated programs: type errors are only asserted on literal or declared types (anything involving a dynamically typed operand is never asserted); typing table: with one dynamically typed operand the other operand must still be possible for the operator (a null or dynamic operand excuses nothing)".into(),
            "ordering (`pass`, `small pass`) of booleans or with null is an unspecified zone (not asserted either way)".into(),
            "string `add` with a boolean/null/array operand is an unspecified zone (not asserted either way)".into(),
            "category table: see c09::category_matches (e.g. comot outside a loop <-> label \"`comot` statement outside loop body\")".into(),
        ]
    }

    fn shard(&self, ctx: &mut ShardCtx) {
        grid(ctx);
        typing_table(ctx);
        return_type_table(ctx);
        let n_valid = ctx.tier.pick(5_000, 50_000);
        let n_inj = ctx.tier.pick(14_000, 120_000);
        for profile in ["general", "scope"] {
            crate::prop::run(ctx, &format!("valid-{profile}"), n_valid, tape_strategy(600), |ctx, tape| {
                case(ctx, tape, profile, None)
            });
        }
        let inj = (0..OPS, any::<u16>(), any::<u8>()).prop_map(|(op, site, variant)| Injection { op, site, variant });
        crate::prop::run(ctx, "injected", n_inj, (tape_strategy(500), inj), |ctx, (tape, inj)| {
            case(ctx, tape, "general", Some(inj))
        });
    }

    fn replay(&self, ctx: &mut ShardCtx, _stage: &str, input: &J) -> Outcome {
        if let Some(src) = input.get("raw_source").and_then(J::as_str) {
            // grid / regression inputs: expected verdict is recorded with the input
            let rule = input.get("rule").and_then(J::as_str);
            let obs = match front_end(src) {
                Ok(o) => o,
                Err(c) => {
                    return Outcome::Fail(Failure { sig: format!("front-end-crash|{c}"), what: c, input: input.clone() });
                }
            };
            let errors: Vec<&Diag> = obs.front.iter().filter(|d| d.is_error()).collect();
            return match (rule, errors.is_empty()) {
                (Some(r), true) => Outcome::Fail(Failure {
                    sig: format!("invalid-accepted|{r}"),
                    what: format!("accepted although it violates {r}\n{src}"),
                    input: input.clone(),
                }),
                (None, false) => Outcome::Fail(Failure {
                    sig: format!("valid-rejected|{}", errors[0].message),
                    what: format!("rejected: {}\n{src}", errors[0].text()),
                    input: input.clone(),
                }),
                _ => Outcome::Pass,
            };
        }
        let Some(tape) = input.get("tape").and_then(J::as_str).map(unhex) else {
            return Outcome::Discard("unreadable replay input");
        };
        let profile = input.get("profile").and_then(J::as_str).unwrap_or("general").to_string();
        let inj = input.get("injection").filter(|v| !v.is_null()).map(|v| Injection {
            op: v["op"].as_u64().unwrap_or(0) as u8,
            site: v["site"].as_u64().unwrap_or(0) as u16,
            variant: v["variant"].as_u64().unwrap_or(0) as u8,
        });
        case(ctx, &tape, &profile, inj.as_ref())
    }
}
