//! C16 - Captured child output is complete or an error, never silently truncated.
//!
//! Subject: `sys/process_common.rs` (reader threads, overflow flag, polling wait loop, timeout,
//! terminate) driven through a script under a generated `HostPolicy`.
//! The child is the `nschild` helper in emit mode: it follows a generated *emission plan*
//! (chunks on stdout/stderr in a planned interleaving with planned delays, optional invalid
//! UTF-8, enlarged pipes, close-stdout-then-sleep, linger, exit code or death by signal).
//! Oracle (from the plan): every captured stream within the cap, valid UTF-8 and the child done
//! before the timeout => stdout()/stderr() equal the planned bytes exactly, other streams are
//! null, success()/exit_code() match; a captured stream over the cap => "Process output limit
//! exceeded"; invalid UTF-8 => "Process output no be valid UTF-8"; run time >> timeout =>
//! "Process timeout"; after an erroring run the helper is no longer running.
//!
//! Schedule points inside the interpreter (hook H5) are NOT available: schedules are only
//! sampled (child-side timing, enlarged pipes, wait_poll_ms), never forced.

use std::path::Path;
use std::time::{Duration, Instant};

use naijascript::process::{HostPolicy, ProcessCaps};
use proptest::prelude::*;
use serde_json::{Value as J, json};

use crate::c15::{fresh_case_dir, helper_path, ns_string_expr};
use crate::ctx::{Failure, Outcome, ShardCtx, Tier};
use crate::driver::{Bin, Check, ShardSpec};
use crate::isolate;
use crate::pipeline::{self, Mode, NVal, Obs, RunOpts, Stage};
use crate::util::hash_str;

pub struct C16;

pub const E_LIMIT: &str = "Process output limit exceeded";
pub const E_UTF8: &str = "Process output no be valid UTF-8";
pub const E_TIMEOUT: &str = "Process timeout";

// -------------------------------------------------------------------- case --

#[derive(Debug, Clone, Copy, PartialEq, Eq)]
pub enum Pol {
    Inherit,
    Null,
    Capture,
}

impl Pol {
    fn name(self) -> &'static str {
        match self {
            Pol::Inherit => "inherit",
            Pol::Null => "null",
            Pol::Capture => "capture",
        }
    }
    fn from_name(s: &str) -> Pol {
        match s {
            "capture" => Pol::Capture,
            "null" => Pol::Null,
            _ => Pol::Inherit,
        }
    }
}

#[derive(Debug, Clone, Copy, PartialEq, Eq)]
pub enum Len {
    Abs(u32),
    /// capture cap + delta (clamped at 0)
    Rel(i32),
}

#[derive(Debug, Clone, PartialEq)]
pub struct StreamPlan {
    pub len: Len,
    /// 0 = one-byte characters, 1 = mixed 1..4-byte characters (chunks split them)
    pub kind: u8,
    pub seed: u32,
    /// Some(p <= 1000): byte at p/1000 of the length is replaced by 0xFF (never valid in UTF-8);
    /// Some(p > 1000): a malformed sequence (truncated / overlong / surrogate / stray) at the start,
    /// middle or end, see `content`
    pub invalid: Option<u16>,
    /// sizes of the leading chunks; what is left goes out in one last chunk
    pub chunks: Vec<u32>,
}

#[derive(Debug, Clone, Copy, PartialEq, Eq)]
pub enum Exit {
    Code(u8),
    /// index into `SIGNALS`
    Signal(u8),
}

const SIGNALS: [i32; 5] = [libc::SIGKILL, libc::SIGTERM, libc::SIGINT, libc::SIGUSR1, libc::SIGHUP];

#[derive(Debug, Clone, Copy, PartialEq, Eq)]
pub enum Timeout {
    /// no timeout_ms call, default_timeout_ms left at 900 s
    Unset,
    /// far above the child's run time: max(5 s, 10 x (planned sleeps + 300 ms)) + extra
    Above { extra: u32, via_caps: bool },
    /// far below: the child lingers >= max(10 x ms, 3 s) at the end of its plan
    Below { ms: u16, via_caps: bool },
    /// moderately below: the child ends `child_ms` (>= timeout + 400 ms, < 2 x timeout) after its
    /// start, so it exits soon after the deadline (a poll loop that sleeps past the deadline sees
    /// an exited child instead of a timeout)
    Near { ms: u16, child_ms: u16 },
}

#[derive(Debug, Clone, PartialEq)]
pub struct Case {
    pub out_pol: Pol,
    pub err_pol: Pol,
    /// an earlier policy call that the final one overrides: (on stderr?, policy)
    pub pre: Option<(bool, Pol)>,
    pub err_first: bool,
    pub cap: u32,
    pub poll: u32,
    pub out: StreamPlan,
    pub err: StreamPlan,
    /// interleaving: true = next stdout chunk, false = next stderr chunk (cyclic)
    pub order: Vec<bool>,
    /// sleep before each chunk in ms (cyclic)
    pub delays: Vec<u8>,
    /// close stdout after its last chunk, then sleep this long
    pub close_out: Option<u8>,
    pub linger: u8,
    pub exit: Exit,
    /// enlarge both pipes to 1 MiB first (the child can then exit with everything still unread)
    pub big_pipe: bool,
    pub timeout: Timeout,
    /// 0 nothing, 1 stdin_null(), 2 stdin_text("in"), 3 stdin_text(128 KiB) that the child never reads
    pub stdin: u8,
    /// when an over-cap capture is planned: keep running for 3 s after the last write
    pub hang: bool,
}

fn stream_json(s: &StreamPlan) -> J {
    let len = match s.len {
        Len::Abs(n) => json!({"abs": n}),
        Len::Rel(d) => json!({"cap_plus": d}),
    };
    json!({"len": len, "kind": s.kind, "seed": s.seed, "invalid": s.invalid, "chunks": s.chunks})
}

fn stream_from(j: &J) -> Option<StreamPlan> {
    let l = j.get("len")?;
    let len = if let Some(n) = l.get("abs") {
        Len::Abs(n.as_u64()? as u32)
    } else {
        Len::Rel(l.get("cap_plus")?.as_i64()? as i32)
    };
    Some(StreamPlan {
        len,
        kind: j.get("kind")?.as_u64()? as u8,
        seed: j.get("seed")?.as_u64()? as u32,
        invalid: j.get("invalid").and_then(J::as_u64).map(|v| v as u16),
        chunks: j.get("chunks")?.as_array()?.iter().filter_map(J::as_u64).map(|v| v as u32).collect(),
    })
}

impl Case {
    pub fn to_json(&self) -> J {
        let timeout = match self.timeout {
            Timeout::Unset => json!("unset"),
            Timeout::Above { extra, via_caps } => json!({"above_extra": extra, "via_caps": via_caps}),
            Timeout::Below { ms, via_caps } => json!({"below_ms": ms, "via_caps": via_caps}),
            Timeout::Near { ms, child_ms } => json!({"near_ms": ms, "child_ms": child_ms}),
        };
        let exit = match self.exit {
            Exit::Code(c) => json!({"code": c}),
            Exit::Signal(i) => json!({"signal": i}),
        };
        json!({
            "stdout": self.out_pol.name(), "stderr": self.err_pol.name(),
            "pre": self.pre.map(|(e, p)| json!([e, p.name()])),
            "err_first": self.err_first, "cap": self.cap, "poll": self.poll,
            "out": stream_json(&self.out), "err": stream_json(&self.err),
            "order": self.order, "delays": self.delays, "close_out": self.close_out,
            "linger": self.linger, "exit": exit, "big_pipe": self.big_pipe,
            "timeout": timeout, "stdin": self.stdin, "hang": self.hang,
        })
    }

    pub fn from_json(j: &J) -> Option<Case> {
        let t = j.get("timeout")?;
        let timeout = if let Some(x) = t.get("above_extra") {
            Timeout::Above { extra: x.as_u64()? as u32, via_caps: t.get("via_caps")?.as_bool()? }
        } else if let Some(x) = t.get("near_ms") {
            Timeout::Near { ms: x.as_u64()? as u16, child_ms: t.get("child_ms")?.as_u64()? as u16 }
        } else if let Some(x) = t.get("below_ms") {
            Timeout::Below { ms: x.as_u64()? as u16, via_caps: t.get("via_caps")?.as_bool()? }
        } else {
            Timeout::Unset
        };
        let e = j.get("exit")?;
        let exit = if let Some(c) = e.get("code") {
            Exit::Code(c.as_u64()? as u8)
        } else {
            Exit::Signal(e.get("signal")?.as_u64()? as u8)
        };
        let pre = match j.get("pre") {
            Some(J::Array(a)) if a.len() == 2 => Some((a[0].as_bool()?, Pol::from_name(a[1].as_str()?))),
            _ => None,
        };
        Some(Case {
            out_pol: Pol::from_name(j.get("stdout")?.as_str()?),
            err_pol: Pol::from_name(j.get("stderr")?.as_str()?),
            pre,
            err_first: j.get("err_first")?.as_bool()?,
            cap: j.get("cap")?.as_u64()? as u32,
            poll: j.get("poll")?.as_u64()? as u32,
            out: stream_from(j.get("out")?)?,
            err: stream_from(j.get("err")?)?,
            order: j.get("order")?.as_array()?.iter().filter_map(J::as_bool).collect(),
            delays: j.get("delays")?.as_array()?.iter().filter_map(J::as_u64).map(|v| v as u8).collect(),
            close_out: j.get("close_out").and_then(J::as_u64).map(|v| v as u8),
            linger: j.get("linger")?.as_u64()? as u8,
            exit,
            big_pipe: j.get("big_pipe")?.as_bool()?,
            timeout,
            stdin: j.get("stdin")?.as_u64()? as u8,
            hang: j.get("hang")?.as_bool()?,
        })
    }

    fn hash(&self) -> u64 {
        hash_str(&self.to_json().to_string())
    }
}

// ---------------------------------------------------------------- planning --

fn resolve_len(l: Len, cap: u32) -> usize {
    match l {
        Len::Abs(n) => n as usize,
        Len::Rel(d) => (i64::from(cap) + i64::from(d)).clamp(0, 2_200_000) as usize,
    }
}

/// Deterministic stream content: valid UTF-8 of exactly `len` bytes over an alphabet that is
/// disjoint between the two streams, then the optional invalid byte.
pub fn content(s: &StreamPlan, len: usize, is_err: bool) -> Vec<u8> {
    let one: &[&str] = if is_err {
        &["A", "B", "Q", "Z", "0", "7", "_", "\t", "#"]
    } else {
        &["a", "b", "q", "z", " ", "\n", "-", ".", "\0"]
    };
    let multi: &[&str] = if is_err { &["Ñ", "界", "🚀", "Ж"] } else { &["é", "世", "🌎", "ж"] };
    let mut x = u64::from(s.seed).wrapping_mul(0x9e37_79b9_7f4a_7c15) ^ 0x5851_f42d_4c95_7f2d;
    let mut next = move || {
        x = x.wrapping_mul(6_364_136_223_846_793_005).wrapping_add(1_442_695_040_888_963_407);
        (x >> 33) as usize
    };
    let mut out = Vec::with_capacity(len + 4);
    while out.len() < len {
        let r = next();
        let piece = if s.kind == 1 && r % 3 == 0 {
            multi[(r / 3) % multi.len()]
        } else {
            one[(r / 3) % one.len()]
        };
        if out.len() + piece.len() <= len {
            out.extend_from_slice(piece.as_bytes());
        } else {
            out.extend_from_slice(one[(r / 3) % 4].as_bytes());
        }
    }
    if let Some(p) = s.invalid
        && len > 0
    {
        if p <= 1000 {
            let at = (usize::from(p) * len / 1000).min(len - 1);
            out[at] = 0xFF;
        } else {
            // malformed sequences made of bytes that are each possible in UTF-8
            let (seq, place): (&[u8], u8) = match p {
                1001 => (&[0xC3], 2),             // output ends inside a 2-byte character
                1002 => (&[0xE2, 0x82], 2),       // ... inside a 3-byte character
                1003 => (&[0xF0, 0x9F, 0x98], 2), // ... inside a 4-byte character
                1004 => (&[0x80], 2),             // stray continuation byte at the end
                1005 => (&[0xC3, b'x'], 1),       // truncated character in the middle
                1006 => (&[0xE2, 0x82, b'x'], 1),
                1007 => (&[0xC0, 0x80], 1),       // overlong encoding
                1008 => (&[0xED, 0xA0, 0x80], 1), // surrogate
                1009 => (&[0xF4, 0x90, 0x80, 0x80], 1), // above U+10FFFF
                1010 => (&[0x80], 0),             // stray continuation byte at the start
                1011 => (&[0xF8], 0),
                _ => (&[0xF0, 0x9F], 2),
            };
            let n = seq.len().min(len);
            let at = match place {
                0 => 0,
                1 => (len / 2).min(len - n),
                _ => len - n,
            };
            out[at..at + n].copy_from_slice(&seq[..n]);
        }
    }
    out
}

/// What the model derives from a case.
struct Model {
    out_len: usize,
    err_len: usize,
    out_bytes: Vec<u8>,
    err_bytes: Vec<u8>,
    /// acceptable runtime errors with the streams they may name (empty = must succeed)
    errors: Vec<(&'static str, Vec<&'static str>)>,
    plan: String,
    /// sum of all planned sleeps (lower bound of the child's run time), ms
    sleeps_ms: u64,
    timeout_ms: Option<u32>,
    caps: ProcessCaps,
    source: String,
    hang: bool,
}

fn chunk_list(s: &StreamPlan, len: usize) -> Vec<(usize, usize)> {
    let mut v = Vec::new();
    let mut off = 0usize;
    for c in &s.chunks {
        if off >= len {
            break;
        }
        let n = (*c as usize).clamp(1, len - off);
        v.push((off, n));
        off += n;
    }
    if off < len {
        v.push((off, len - off));
    }
    v
}

fn build(case: &Case, helper: &str) -> Model {
    let out_len = resolve_len(case.out.len, case.cap);
    let err_len = resolve_len(case.err.len, case.cap);
    let out_bytes = content(&case.out, out_len, false);
    let err_bytes = content(&case.err, err_len, true);
    let cap = case.cap as usize;

    let mut errors: Vec<(&'static str, Vec<&'static str>)> = Vec::new();
    let mut over = Vec::new();
    let mut bad = Vec::new();
    for (name, pol, len, bytes) in [
        ("stdout", case.out_pol, out_len, &out_bytes),
        ("stderr", case.err_pol, err_len, &err_bytes),
    ] {
        if pol == Pol::Capture {
            if len > cap {
                over.push(name);
            }
            if std::str::from_utf8(bytes).is_err() {
                bad.push(name);
            }
        }
    }
    if !over.is_empty() {
        errors.push((E_LIMIT, over.clone()));
    }
    if !bad.is_empty() {
        errors.push((E_UTF8, bad));
    }
    let below = matches!(case.timeout, Timeout::Below { .. } | Timeout::Near { .. });
    if below {
        errors.push((E_TIMEOUT, vec![]));
    }
    let hang = case.hang && !over.is_empty() && !below;

    // emission plan
    let mut plan = String::new();
    let mut sleeps = 0u64;
    if case.big_pipe {
        plan.push_str("p 1048576\n");
    }
    let oc = chunk_list(&case.out, out_len);
    let ec = chunk_list(&case.err, err_len);
    let (mut oi, mut ei, mut step) = (0usize, 0usize, 0usize);
    let mut closed = false;
    while oi < oc.len() || ei < ec.len() {
        let pick_out = if oi >= oc.len() {
            false
        } else if ei >= ec.len() {
            true
        } else if case.order.is_empty() {
            step % 2 == 0
        } else {
            case.order[step % case.order.len()]
        };
        let d = if case.delays.is_empty() { 0 } else { case.delays[step % case.delays.len()] };
        if d > 0 {
            plan.push_str(&format!("s {d}\n"));
            sleeps += u64::from(d);
        }
        if pick_out {
            plan.push_str(&format!("w 1 {} {}\n", oc[oi].0, oc[oi].1));
            oi += 1;
        } else {
            plan.push_str(&format!("w 2 {} {}\n", ec[ei].0, ec[ei].1));
            ei += 1;
        }
        if oi == oc.len()
            && !closed
            && let Some(ms) = case.close_out
        {
            closed = true;
            plan.push_str(&format!("c 1\ns {ms}\n"));
            sleeps += u64::from(ms);
        }
        step += 1;
    }
    if !closed && let Some(ms) = case.close_out {
        plan.push_str(&format!("c 1\ns {ms}\n"));
        sleeps += u64::from(ms);
    }
    if case.linger > 0 {
        plan.push_str(&format!("s {}\n", case.linger));
        sleeps += u64::from(case.linger);
    }
    if hang {
        plan.push_str("s 3000\n");
        sleeps += 3000;
    }
    if let Timeout::Below { ms, .. } = case.timeout {
        let l = (u64::from(ms) * 10).max(3000);
        plan.push_str(&format!("s {l}\n"));
        sleeps += l;
    }
    if let Timeout::Near { child_ms, .. } = case.timeout {
        plan.push_str(&format!("s {child_ms}\n"));
        sleeps += u64::from(child_ms);
    }
    match case.exit {
        Exit::Code(c) => plan.push_str(&format!("x {c}\n")),
        Exit::Signal(i) => plan.push_str(&format!("k {}\n", SIGNALS[i as usize % SIGNALS.len()])),
    }

    // host policy
    let mut caps = ProcessCaps::defaults();
    caps.max_capture_bytes_per_stream = case.cap;
    caps.wait_poll_ms = case.poll.clamp(1, 50);
    let (timeout_ms, via_caps) = match case.timeout {
        Timeout::Unset => (None, false),
        Timeout::Above { extra, via_caps } => {
            let t = (10 * (sleeps + 300)).max(5000) + u64::from(extra);
            (Some(t.min(3_600_000) as u32), via_caps)
        }
        Timeout::Below { ms, via_caps } => (Some(u32::from(ms.max(1))), via_caps),
        Timeout::Near { ms, .. } => (Some(u32::from(ms.max(1))), false),
    };
    if let (Some(t), true) = (timeout_ms, via_caps) {
        caps.default_timeout_ms = t;
    }

    // script
    let mut src = format!("make c get command({})\n", ns_string_expr(helper));
    if let Some((on_err, p)) = case.pre {
        src.push_str(&format!("c.{}_{}()\n", if on_err { "stderr" } else { "stdout" }, p.name()));
    }
    let o = format!("c.stdout_{}()\n", case.out_pol.name());
    let e = format!("c.stderr_{}()\n", case.err_pol.name());
    if case.err_first {
        src.push_str(&e);
        src.push_str(&o);
    } else {
        src.push_str(&o);
        src.push_str(&e);
    }
    match case.stdin {
        1 => src.push_str("c.stdin_null()\n"),
        2 => src.push_str("c.stdin_text(\"in\")\n"),
        // 128 KiB of standard input that the helper never reads: more than a pipe buffer holds
        3 => src.push_str(
            "make big get \"0123456789abcdef\"\nmake bi get 0\njasi (bi small pass 13) start\nbig get big add big\nbi get bi add 1\nend\nc.stdin_text(big)\n",
        ),
        _ => {}
    }
    if let (Some(t), false) = (timeout_ms, via_caps) {
        src.push_str(&format!("c.timeout_ms({t})\n"));
    }
    src.push_str(
        "make r get c.run()\nshout(r.success())\nshout(r.exit_code())\nshout(r.stdout())\nshout(r.stderr())\n",
    );

    Model {
        out_len,
        err_len,
        out_bytes,
        err_bytes,
        errors,
        plan,
        sleeps_ms: sleeps,
        timeout_ms,
        caps,
        source: src,
        hang,
    }
}

fn len_class(len: usize, cap: u32) -> &'static str {
    let cap = cap as usize;
    if len == cap + 1 {
        "cap+1"
    } else if len > cap + 8192 {
        ">cap+8192"
    } else if len > cap {
        "cap+2..cap+8192"
    } else if len == cap {
        "cap"
    } else if len + 1 == cap {
        "cap-1"
    } else if len == 0 {
        "0"
    } else {
        "<cap-1"
    }
}

// ----------------------------------------------------------- helper liveness --

fn read_pid(dir: &Path) -> Option<(i32, u64)> {
    let text = std::fs::read_to_string(dir.join("pid")).ok()?;
    let mut it = text.split_ascii_whitespace();
    Some((it.next()?.parse().ok()?, it.next()?.parse().ok()?))
}

/// State letter of process `pid` if it is still the process that started at `start`.
fn proc_state(pid: i32, start: Option<u64>) -> Option<char> {
    let text = std::fs::read_to_string(format!("/proc/{pid}/stat")).ok()?;
    let rest = text.rsplit_once(')')?.1;
    let mut f = rest.split_ascii_whitespace();
    let state = f.next()?.chars().next()?;
    let st: u64 = f.nth(18)?.parse().ok()?;
    if let Some(want) = start
        && st != want
    {
        return None; // the pid was reused by another process
    }
    Some(state)
}

/// Running (not zombie) `nschild` processes that belong to this case directory.
fn scan_helpers(dir: &Path) -> Vec<i32> {
    let needle = format!("NSCHILD_DIR={}\0", dir.display());
    let mut v = Vec::new();
    let Ok(rd) = std::fs::read_dir("/proc") else { return v };
    for e in rd.filter_map(Result::ok) {
        let Some(pid) = e.file_name().to_str().and_then(|s| s.parse::<i32>().ok()) else { continue };
        let comm = std::fs::read_to_string(format!("/proc/{pid}/comm")).unwrap_or_default();
        if comm.trim_end() != "nschild" {
            continue;
        }
        let env = std::fs::read(format!("/proc/{pid}/environ")).unwrap_or_default();
        let mut env0 = env.clone();
        env0.push(0);
        if env0.windows(needle.len()).any(|w| w == needle.as_bytes())
            && proc_state(pid, None).is_some_and(|s| s != 'Z')
        {
            v.push(pid);
        }
    }
    v
}

/// Polls up to 2 s for the helper of this case to be gone. Returns the pids still running.
fn helper_still_running(dir: &Path) -> Vec<i32> {
    let known = read_pid(dir);
    let deadline = Instant::now() + Duration::from_secs(2);
    loop {
        let alive: Vec<i32> = match known {
            Some((pid, start)) => {
                // kill(pid, 0) also succeeds for zombies and for a reused pid: look at the
                // process identity (start time) and state as well
                let exists = unsafe { libc::kill(pid, 0) } == 0
                    || std::io::Error::last_os_error().raw_os_error() != Some(libc::ESRCH);
                if exists && proc_state(pid, Some(start)).is_some_and(|s| s != 'Z') {
                    vec![pid]
                } else {
                    vec![]
                }
            }
            None => scan_helpers(dir),
        };
        if alive.is_empty() {
            return alive;
        }
        if Instant::now() >= deadline {
            return alive;
        }
        std::thread::sleep(Duration::from_millis(10));
    }
}

fn kill_leftovers(dir: &Path) {
    if let Some((pid, start)) = read_pid(dir)
        && proc_state(pid, Some(start)).is_some_and(|s| s != 'Z')
    {
        unsafe { libc::kill(pid, libc::SIGKILL) };
    }
}

// ----------------------------------------------------------------- running --

fn fail(case: &Case, m: &Model, sig: String, what: String) -> Outcome {
    Outcome::Fail(Failure {
        sig,
        what,
        input: json!({"case": case.to_json(), "source": m.source, "plan": m.plan,
            "stdout_len": m.out_len, "stderr_len": m.err_len, "cap": case.cap,
            "timeout_ms": m.timeout_ms}),
    })
}

fn show_val(v: &NVal) -> String {
    match v {
        NVal::Str(b) if b.len() > 60 => {
            format!("string of {} bytes starting {:?}", b.len(), String::from_utf8_lossy(&b[..40]))
        }
        v => v.show(),
    }
}

/// Compares one stream value with the plan.
fn check_stream(
    name: &'static str,
    pol: Pol,
    got: &NVal,
    want: &[u8],
    other: &[u8],
    cap: u32,
) -> Result<(), (String, String)> {
    if pol != Pol::Capture {
        return if *got == NVal::Null {
            Ok(())
        } else {
            Err((
                format!("not-null|{name}|{}", pol.name()),
                format!("{name} is not captured ({}) but reads as {}", pol.name(), show_val(got)),
            ))
        };
    }
    let lc = len_class(want.len(), cap);
    match got {
        NVal::Str(b) if b.as_slice() == want => Ok(()),
        NVal::Str(b) => {
            let kind = if b.len() < want.len() && want.starts_with(b) {
                "truncated-output"
            } else if !other.is_empty() && b.len() > want.len() && b.starts_with(want) {
                "cross-stream"
            } else {
                "mismatch"
            };
            let first = b.iter().zip(want).position(|(x, y)| x != y).unwrap_or(b.len().min(want.len()));
            Err((
                format!("{kind}|{name}|{lc}"),
                format!(
                    "{name}() has {} bytes, the child wrote {} (capture cap {cap}); first difference at byte {first}",
                    b.len(),
                    want.len()
                ),
            ))
        }
        v => Err((
            format!("missing-capture|{name}|{lc}"),
            format!("{name} is captured but reads as {}", show_val(v)),
        )),
    }
}

fn evaluate(case: &Case, m: &Model, dir: &Path) -> Outcome {
    std::fs::write(dir.join("plan"), &m.plan).expect("write plan");
    std::fs::write(dir.join("out.bin"), &m.out_bytes).expect("write out.bin");
    std::fs::write(dir.join("err.bin"), &m.err_bytes).expect("write err.bin");
    let policy = HostPolicy { allow_process: true, process: m.caps };
    let src = m.source.clone();
    let dir_owned = dir.to_path_buf();
    let iso = isolate::run(
        isolate::Opts { timeout: Duration::from_secs(30), ..Default::default() },
        |out| {
            unsafe {
                std::env::set_var("NSCHILD_MODE", "emit");
                std::env::set_var("NSCHILD_DIR", &dir_owned);
            }
            let t0 = Instant::now();
            let obs = pipeline::run_source(&src, RunOpts { policy, ..RunOpts::new(Mode::FP) });
            let ms = t0.elapsed().as_millis() as u64;
            out.frame(&obs.encode());
            out.frame(&ms.to_le_bytes());
        },
    );
    let scenario = if m.errors.is_empty() {
        "ok".to_string()
    } else {
        m.errors.iter().map(|e| e.0).collect::<Vec<_>>().join("+")
    };
    if iso.end == isolate::End::Timeout {
        // The interpreter did not come back within 30 s (planned sleeps are < 5 s).
        let left = helper_still_running(dir);
        if !left.is_empty() && !m.errors.is_empty() {
            return fail(
                case,
                m,
                format!("child-left-running|hang|{scenario}"),
                "run() did not return within 30 s and the helper is still running".into(),
            );
        }
        return Outcome::Discard("watchdog");
    }
    if !iso.clean() || iso.frames.len() < 2 {
        let kind = iso.crash_kind().unwrap_or_else(|| "no result".into());
        return fail(case, m, format!("crash|{kind}|{scenario}"), format!("{kind} while running the command"));
    }
    let Some(obs) = Obs::decode(&iso.frames[0]) else {
        return fail(case, m, "crash|undecodable result".into(), "undecodable observation".into());
    };
    let elapsed_ms = iso.frames[1].as_slice().try_into().map(u64::from_le_bytes).unwrap_or(0);
    if obs.stage != Stage::Ran {
        return Outcome::Discard("generated script rejected by the front end");
    }
    let err = obs.rt_error();
    let detail = obs
        .runtime
        .first()
        .map(|d| d.labels.iter().map(|l| l.0.clone()).collect::<Vec<_>>().join(" / "))
        .unwrap_or_default();
    let named = if detail.contains("stdout") {
        Some("stdout")
    } else if detail.contains("stderr") {
        Some("stderr")
    } else {
        None
    };
    let out_lc = len_class(m.out_len, case.cap);
    let err_lc = len_class(m.err_len, case.cap);
    let lc_of = |s: Option<&str>| match s {
        Some("stdout") => out_lc,
        Some("stderr") => err_lc,
        _ => "-",
    };

    if let Some(e) = err {
        // every erroring run: the child must not be left running
        let left = helper_still_running(dir);
        if !left.is_empty() {
            let why = match e {
                E_TIMEOUT => "timeout",
                E_LIMIT => "overflow",
                E_UTF8 => "invalid-utf8",
                _ => "other-error",
            };
            return fail(
                case,
                m,
                format!("child-left-running|{why}"),
                format!("run() ended with {e:?} but the helper (pid {left:?}) is still running 2 s later"),
            );
        }
        if m.errors.is_empty() {
            if e == E_TIMEOUT {
                let t = u64::from(m.timeout_ms.unwrap_or(900_000));
                if elapsed_ms * 10 >= t {
                    return Outcome::Discard("missed timing margin (run took > timeout/10)");
                }
            }
            return fail(
                case,
                m,
                format!("spurious-error|{e}|{}|{}", named.unwrap_or("-"), lc_of(named)),
                format!(
                    "child wrote {} / {} bytes (cap {}), valid UTF-8, ends after ~{} ms (timeout {:?} ms), yet run() failed with {e:?}: {detail} (took {elapsed_ms} ms)",
                    m.out_len, m.err_len, case.cap, m.sleeps_ms, m.timeout_ms
                ),
            );
        }
        let Some((_, streams)) = m.errors.iter().find(|x| x.0 == e) else {
            let over = [(case.out_pol, m.out_len), (case.err_pol, m.err_len)]
                .iter()
                .filter(|(p, l)| *p == Pol::Capture && *l > case.cap as usize)
                .count();
            let class = match over {
                2 => "both-over-cap",
                1 => "one-over-cap",
                _ => "-",
            };
            return fail(
                case,
                m,
                format!("wrong-error|{scenario}|{e}|{class}"),
                format!(
                    "expected {scenario:?} (child wrote {} / {} bytes of {} UTF-8, cap {}), run() failed with {e:?}: {detail}",
                    m.out_len,
                    m.err_len,
                    if m.errors.iter().any(|x| x.0 == E_UTF8) { "partly invalid" } else { "valid" },
                    case.cap
                ),
            );
        };
        if let Some(n) = named
            && !streams.is_empty()
            && !streams.contains(&n)
        {
            return fail(
                case,
                m,
                format!("wrong-stream|{e}|{n}"),
                format!("{e:?} names {n}, but that applies to {streams:?} only: {detail}"),
            );
        }
        return Outcome::Pass;
    }

    // no runtime error
    if obs.output.len() != 4 {
        return fail(
            case,
            m,
            "mismatch|result|shape".into(),
            format!("expected 4 printed values, got {}", obs.output.len()),
        );
    }
    if !m.errors.is_empty() {
        // which promise was broken?
        for (name, pol, idx, want, len) in [
            ("stdout", case.out_pol, 2usize, &m.out_bytes, m.out_len),
            ("stderr", case.err_pol, 3usize, &m.err_bytes, m.err_len),
        ] {
            if pol == Pol::Capture
                && len > case.cap as usize
                && let NVal::Str(b) = &obs.output[idx]
                && b.len() < want.len()
            {
                return fail(
                    case,
                    m,
                    format!("truncated-output|{name}|{}", len_class(len, case.cap)),
                    format!(
                        "child wrote {len} bytes to {name} (cap {}), run() succeeded and {name}() has {} bytes",
                        case.cap,
                        b.len()
                    ),
                );
            }
        }
        let lc = m
            .errors
            .first()
            .and_then(|e| e.1.first().copied())
            .map_or("-", |s| lc_of(Some(s)));
        return fail(
            case,
            m,
            format!("missing-error|{scenario}|{lc}"),
            format!(
                "expected {scenario:?} (stdout {} bytes, stderr {} bytes, cap {}, timeout {:?} ms, child sleeps {} ms), but run() succeeded: {:?}",
                m.out_len,
                m.err_len,
                case.cap,
                m.timeout_ms,
                m.sleeps_ms,
                obs.output.iter().map(show_val).collect::<Vec<_>>()
            ),
        );
    }
    if let Err((sig, what)) =
        check_stream("stdout", case.out_pol, &obs.output[2], &m.out_bytes, &m.err_bytes, case.cap)
    {
        return fail(case, m, sig, what);
    }
    if let Err((sig, what)) =
        check_stream("stderr", case.err_pol, &obs.output[3], &m.err_bytes, &m.out_bytes, case.cap)
    {
        return fail(case, m, sig, what);
    }
    match case.exit {
        Exit::Code(c) => {
            if obs.output[0] != NVal::Bool(c == 0) || obs.output[1] != NVal::Num(f64::from(c)) {
                return fail(
                    case,
                    m,
                    format!("mismatch|exit_code|{}", if c == 0 { "zero" } else { "non-zero" }),
                    format!(
                        "child exited with {c}: success() = {}, exit_code() = {}",
                        obs.output[0].show(),
                        obs.output[1].show()
                    ),
                );
            }
        }
        Exit::Signal(_) => {
            // the documentation does not say what exit_code() is after death by signal:
            // only "not a success, not exit code 0" is asserted
            if obs.output[0] != NVal::Bool(false) || obs.output[1] == NVal::Num(0.0) {
                return fail(
                    case,
                    m,
                    "mismatch|exit_code|signal".into(),
                    format!(
                        "child died by a signal: success() = {}, exit_code() = {}",
                        obs.output[0].show(),
                        obs.output[1].show()
                    ),
                );
            }
        }
    }
    Outcome::Pass
}

pub fn check_case(ctx: &mut ShardCtx, case: &Case) -> Outcome {
    let helper = helper_path().to_string_lossy().into_owned();
    let m = build(case, &helper);
    // counting
    ctx.eval();
    ctx.class(&format!("policy stdout={} stderr={}", case.out_pol.name(), case.err_pol.name()));
    let cap = case.cap as usize;
    let mut near = false;
    let mut over = 0;
    for (name, pol, len) in [("stdout", case.out_pol, m.out_len), ("stderr", case.err_pol, m.err_len)] {
        if pol == Pol::Capture {
            let lc = len_class(len, case.cap);
            ctx.class(&format!("captured {name} length {lc}"));
            if matches!(lc, "cap-1" | "cap" | "cap+1") {
                near = true;
            }
            if len > cap {
                over += 1;
            }
            if (8191..=8193).contains(&len) {
                ctx.class("captured stream of 8191..8193 bytes (reader chunk)");
            }
            if (65535..=65537).contains(&len) {
                ctx.class("captured stream of 65535..65537 bytes (pipe buffer)");
            }
        }
    }
    for (pol, bytes) in [(case.out_pol, &m.out_bytes), (case.err_pol, &m.err_bytes)] {
        if pol == Pol::Capture
            && let Err(e) = std::str::from_utf8(bytes)
        {
            ctx.class(if e.error_len().is_none() {
                "captured stream ends inside a multi-byte character (valid up to there)"
            } else {
                "captured stream contains a malformed sequence before its end"
            });
        }
    }
    if m.errors.is_empty() {
        ctx.class("expected: complete result");
    }
    for e in &m.errors {
        ctx.class(&format!("expected error: {}", e.0));
    }
    if over == 2 {
        ctx.class("both streams over the cap");
    }
    if over > 0 && case.big_pipe {
        ctx.class("over-cap bytes fit into an enlarged pipe (child can exit before the reader looks)");
    }
    if m.hang {
        ctx.class("child keeps running after the over-cap write");
    }
    if matches!(case.exit, Exit::Signal(_)) {
        ctx.class("child dies by signal");
    }
    if case.close_out.is_some() {
        ctx.class("child closes stdout, then sleeps");
    }
    if near || over == 2 {
        ctx.nontrivial(case.hash());
        let cls = if over == 2 {
            "both over cap"
        } else if m.errors.is_empty() {
            "within +-1 of cap, complete result"
        } else {
            "within +-1 of cap, error"
        };
        ctx.sample(cls, json!({"case": case.to_json(), "plan": m.plan}));
    }

    let dir = fresh_case_dir("16");
    let outcome = evaluate(case, &m, &dir);
    kill_leftovers(&dir);
    let _ = std::fs::remove_dir_all(&dir);
    if std::env::var_os("NSVERIF_TRACE").is_some() {
        eprintln!(
            "C16 trace: expects {:?}, stdout {} / stderr {} bytes, cap {}, timeout {:?}, sleeps {} ms; outcome {}",
            m.errors.iter().map(|e| e.0).collect::<Vec<_>>(),
            m.out_len,
            m.err_len,
            case.cap,
            m.timeout_ms,
            m.sleeps_ms,
            match &outcome {
                Outcome::Pass => "pass".to_string(),
                Outcome::Discard(w) => format!("discard: {w}"),
                Outcome::Fail(f) => format!("FAIL {} :: {} :: {}", f.sig, f.what, case.to_json()),
            }
        );
    }
    if matches!(outcome, Outcome::Discard("watchdog")) && !ctx.frozen {
        ctx.inconclusive += 1;
    }
    outcome
}

// -------------------------------------------------------------- strategies --

fn pol() -> impl Strategy<Value = Pol> {
    prop_oneof![Just(Pol::Inherit), Just(Pol::Null), Just(Pol::Capture)]
}

fn cap_strategy() -> impl Strategy<Value = u32> {
    prop_oneof![
        30 => 0u32..64,
        10 => 64u32..3000,
        20 => prop::sample::select(vec![4096u32, 8191, 8192, 8193, 16_384, 65_535, 65_536, 65_537]),
        10 => prop::sample::select(vec![100_000u32, 262_144, 1_000_000]),
    ]
}

fn len_strategy() -> impl Strategy<Value = Len> {
    prop_oneof![
        30 => prop::sample::select(vec![-1i32, 0, 1]).prop_map(Len::Rel),
        12 => prop::sample::select(vec![2i32, 3, 64, 4096, 8191, 8192, 8193, 65_536, 100_000, -2, -8192, -8193])
            .prop_map(Len::Rel),
        12 => (0u32..200).prop_map(Len::Abs),
        6 => prop::sample::select(vec![8191u32, 8192, 8193, 65_535, 65_536, 65_537, 131_072]).prop_map(Len::Abs),
    ]
}

fn stream_strategy() -> impl Strategy<Value = StreamPlan> {
    (
        len_strategy(),
        0u8..2,
        any::<u32>(),
        prop_oneof![12 => Just(None), 1 => (0u16..1000).prop_map(Some), 1 => (1001u16..1013).prop_map(Some)],
        prop::collection::vec(
            prop_oneof![
                4 => 1u32..16,
                2 => 16u32..5000,
                2 => prop::sample::select(vec![4096u32, 8191, 8192, 8193, 65_535, 65_536, 65_537]),
            ],
            0..8,
        ),
    )
        .prop_map(|(len, kind, seed, invalid, chunks)| StreamPlan { len, kind, seed, invalid, chunks })
}

fn timeout_strategy() -> impl Strategy<Value = Timeout> {
    prop_oneof![
        2 => Just(Timeout::Unset),
        6 => (prop_oneof![Just(0u32), 0u32..100_000], any::<bool>())
            .prop_map(|(extra, via_caps)| Timeout::Above { extra, via_caps }),
        2 => (20u16..250, any::<bool>()).prop_map(|(ms, via_caps)| Timeout::Below { ms, via_caps }),
    ]
}

fn case_strategy() -> impl Strategy<Value = Case> {
    let exit = prop_oneof![
        10 => Just(Exit::Code(0)),
        6 => prop::sample::select(vec![1u8, 2, 7, 126, 127, 128, 137, 255]).prop_map(Exit::Code),
        2 => any::<u8>().prop_map(Exit::Code),
        3 => (0u8..SIGNALS.len() as u8).prop_map(Exit::Signal),
    ];
    let delay = prop::sample::select(vec![0u8, 0, 0, 0, 0, 1, 2, 5, 10, 20]);
    (
        (pol(), pol(), prop::option::weighted(0.2, (any::<bool>(), pol())), any::<bool>()),
        (cap_strategy(), 1u32..=50),
        (stream_strategy(), stream_strategy()),
        (prop::collection::vec(any::<bool>(), 0..6), prop::collection::vec(delay, 0..5)),
        (prop::option::weighted(0.15, 0u8..40), prop::sample::select(vec![0u8, 0, 0, 1, 5, 20, 40]), exit),
        (prop::bool::weighted(0.3), timeout_strategy(), 0u8..4, prop::bool::weighted(0.3)),
    )
        .prop_map(
            |(
                (out_pol, err_pol, pre, err_first),
                (cap, poll),
                (out, err),
                (order, delays),
                (close_out, linger, exit),
                (big_pipe, timeout, stdin, hang),
            )| Case {
                out_pol,
                err_pol,
                pre,
                err_first,
                cap,
                poll,
                out,
                err,
                order,
                delays,
                close_out,
                linger,
                exit,
                big_pipe,
                timeout,
                stdin,
                hang,
            },
        )
}

/// Capture-focused family: the child puts cap+1.. bytes into an enlarged pipe and exits at
/// once, with wait_poll_ms = 1..3 - the order "child exited before the reader looked" is
/// likely here (it cannot be forced without hook H5).
fn fast_exit_strategy() -> impl Strategy<Value = Case> {
    (
        prop::sample::select(vec![65_536u32, 100_000, 262_144, 500_000, 1_000_000]),
        prop::sample::select(vec![1i32, 1, 2, 64, 8192]),
        1u32..=3,
        any::<u32>(),
        prop::sample::select(vec![0u8, 0, 1, 2, 3]),
        0u8..3,
        any::<bool>(),
    )
        .prop_map(|(cap, d, poll, seed, delay, which, kind)| {
            let big = StreamPlan { len: Len::Rel(d), kind: u8::from(kind), seed, invalid: None, chunks: vec![] };
            let small = StreamPlan { len: Len::Abs(5), kind: 0, seed, invalid: None, chunks: vec![] };
            let (out, err, out_pol, err_pol) = match which {
                0 => (big, small, Pol::Capture, Pol::Null),
                1 => (small, big, Pol::Inherit, Pol::Capture),
                _ => (big.clone(), big, Pol::Capture, Pol::Capture),
            };
            Case {
                out_pol,
                err_pol,
                pre: None,
                err_first: false,
                cap,
                poll,
                out,
                err,
                order: vec![true],
                delays: vec![delay],
                close_out: None,
                linger: 0,
                exit: Exit::Code(0),
                big_pipe: true,
                timeout: Timeout::Above { extra: 0, via_caps: false },
                stdin: 1,
                hang: false,
            }
        })
}

// -------------------------------------------------------------------- check --

impl Check for C16 {
    fn id(&self) -> &'static str {
        "C16"
    }

    fn rule(&self) -> String {
        "Generated (proptest, structured, shrinkable): emission plans for the nschild helper - stdout and \
         stderr contents (disjoint alphabets, one-byte or mixed 1..4-byte characters, optional 0xFF byte at \
         a generated offset) of a length chosen relative to the capture cap (cap-1, cap, cap+1, cap+2.., \
         cap+-8 KiB, cap+64 KiB) or absolute (0..200, 8191..8193, 65535..65537, 131072), cut into 1..9 chunks \
         of generated sizes (splitting multi-byte characters), generated interleaving of the two streams, \
         delays 0..20 ms, optional close-stdout-then-sleep, linger, optional 1 MiB pipes, exit code 0..255 or \
         death by SIGKILL/TERM/INT/USR1/HUP - crossed with all nine stdout/stderr policy pairs (plus an \
         overridden earlier policy call), capture cap in {0..63, 64..3000, 4096, 8191, 8192, 8193, 16384, \
         65535, 65536, 65537, 100000, 262144, 1000000}, wait_poll_ms 1..50, stdin none/null/text, and a \
         timeout that is unset, far above (>= max(5 s, 10 x (planned sleeps + 300 ms)), set by timeout_ms or \
         by default_timeout_ms) or far below (20..250 ms against a child that lingers >= max(10 x timeout, \
         3 s)). A second family writes cap+d bytes into enlarged pipes and exits at once with \
         wait_poll_ms 1..3 (makes 'child exited before the reader looked' likely). Schedules are SAMPLED \
         only: hook H5 (forced schedule points) is not available. One evaluation = one run(). Non-trivial: \
         a captured stream within +-1 byte of the cap, or both captured streams over the cap. Distinct by \
         hash of the canonical case."
            .into()
    }

    fn assumptions(&self) -> Vec<String> {
        vec![
            "interleavings of the wait loop and the two reader threads are sampled (child-side timing, pipe size, wait_poll_ms), not enumerated or forced: no H5 schedule hooks".into(),
            "when several documented errors apply to one run (over-cap and invalid UTF-8, or either with a timeout) any of them is accepted: the documentation fixes no priority".into(),
            "death by signal: only success() = false and exit_code() != 0 are asserted (the documentation does not define exit_code() there)".into(),
            "'not left running' = within 2 s after the erroring run() returned, no live (non-zombie) process with the helper's pid and start time".into(),
            "timing margins are >= 10x both ways; a 'Process timeout' on a run that really took longer than timeout/10 is discarded, never failed".into(),
            "the helper never forks: grandchildren holding the capture pipes are out of scope".into(),
            "inherit = /dev/null of the harness's forked case process".into(),
        ]
    }

    fn plan(&self, _tier: Tier) -> Vec<ShardSpec> {
        (0..16).map(|_| ShardSpec { bin: Bin::Dbg }).collect()
    }

    fn shard(&self, ctx: &mut ShardCtx) {
        let t = ctx.tier;
        prop_stage(ctx, "emit", t.pick(200, 4000), case_strategy());
        prop_stage(ctx, "fast-exit", t.pick(60, 1200), fast_exit_strategy());
        // near-timeout cases: the child outlives its deadline by 500 ms or more, but by less than
        // the deadline itself. One (timeout, child) pair per shard; a failure must show twice.
        const NEAR: [(u16, u16); 6] = [(650, 1200), (700, 1250), (1300, 2400), (330, 850), (170, 700), (90, 600)];
        let (ms, child_ms) = NEAR[ctx.shard as usize % NEAR.len()];
        let case = Case {
            out_pol: Pol::Capture,
            err_pol: Pol::Null,
            pre: None,
            err_first: false,
            cap: 1000,
            poll: [1, 5, 10, 50][ctx.shard as usize % 4],
            out: StreamPlan { len: Len::Abs(5), kind: 0, seed: 1, invalid: None, chunks: vec![] },
            err: StreamPlan { len: Len::Abs(0), kind: 0, seed: 2, invalid: None, chunks: vec![] },
            order: vec![],
            delays: vec![],
            close_out: None,
            linger: 0,
            exit: Exit::Code(0),
            big_pipe: false,
            timeout: Timeout::Near { ms, child_ms },
            stdin: 0,
            hang: false,
        };
        ctx.class("near-timeout case (child ends 500..1100 ms after the deadline)");
        let first = check_case(ctx, &case);
        let outcome = if matches!(first, Outcome::Fail(_)) { check_case(ctx, &case) } else { first };
        ctx.handle("near-timeout", outcome);
    }

    fn replay(&self, ctx: &mut ShardCtx, _stage: &str, input: &J) -> Outcome {
        let Some(case) = Case::from_json(&input["case"]) else {
            return Outcome::Discard("unreadable replay input");
        };
        // Schedules are sampled, so one saved input is run repeatedly: the first failure counts.
        let repeat = input.get("repeat").and_then(J::as_u64).unwrap_or(40);
        let mut outcome = Outcome::Pass;
        for _ in 0..repeat.max(1) {
            outcome = check_case(ctx, &case);
            if matches!(outcome, Outcome::Fail(_)) {
                break;
            }
        }
        outcome
    }
}

/// Runs while proptest shrinks a failure: how often one candidate is tried (schedules are sampled).
const SHRINK_ATTEMPTS: u32 = 5;

fn prop_stage<S: Strategy<Value = Case>>(ctx: &mut ShardCtx, stage: &str, cases: u32, strat: S) {
    crate::c15::run_budgeted(ctx, stage, cases, strat, SHRINK_ATTEMPTS, check_case);
}
