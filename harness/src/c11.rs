//! C11 - Bump arena contract (stateful model test).
//!
//! Subjects: `naijascript::arena::Arena` through `std::alloc::Allocator`
//! (allocate, allocate_zeroed, grow, grow_zeroed, shrink), `alloc_uninit*`, `offset`,
//! `reset`, `decommit`, `contains_ptr`, real `Vec<u8, &Arena>` / `ArenaString` growth, and
//! nested `scratch_arena(None | Some)` borrows. In the `dbg` binary `Arena` is the debug
//! wrapper (poisoning, borrow counter), in the `rel` binary the raw bump arena.
//!
//! Oracle: a shadow model (per underlying arena: offset, capacity; list of live blocks as
//! offset ranges, each carrying a block-specific byte pattern) evaluated in the forked
//! child after every operation; the first divergence is reported as a frame, crashes are
//! seen by the parent.

use std::alloc::{Allocator, Layout};
use std::ptr::NonNull;
use std::sync::OnceLock;
use std::time::Duration;

use naijascript::arena::{self, Arena, ArenaString, ScratchArena};
use proptest::prelude::*;
use serde_json::{Value as J, json};

use crate::ctx::{Failure, Outcome, ShardCtx, Tier};
use crate::driver::{Bin, Check, ShardSpec};
use crate::isolate;
use crate::util::{Fnv, SplitMix};

pub struct C11;

const G: usize = 64 * 1024;
const MAX_LAYOUT: usize = isize::MAX as usize - 4095;
const MAX_DEPTH: usize = 6;

// ------------------------------------------------------------ shared helpers --

/// One page shared between a shard process and its forked children: the child stores the
/// index of the operation it is about to run, so that the parent can name the operation
/// after a crash. Also used by C12.
pub mod progress {
    use std::sync::atomic::{AtomicPtr, Ordering};

    static PAGE: AtomicPtr<u32> = AtomicPtr::new(std::ptr::null_mut());

    fn page() -> *mut u32 {
        let p = PAGE.load(Ordering::Relaxed);
        if !p.is_null() {
            return p;
        }
        let m = unsafe {
            libc::mmap(
                std::ptr::null_mut(),
                4096,
                libc::PROT_READ | libc::PROT_WRITE,
                libc::MAP_SHARED | libc::MAP_ANONYMOUS,
                -1,
                0,
            )
        };
        assert!(!std::ptr::eq(m, libc::MAP_FAILED), "mmap of the progress page failed");
        PAGE.store(m.cast(), Ordering::Relaxed);
        m.cast()
    }

    /// Must be called in the parent before forking (creates the mapping).
    pub fn set(v: u32) {
        unsafe { std::ptr::write_volatile(page(), v) }
    }

    pub fn get() -> u32 {
        unsafe { std::ptr::read_volatile(page()) }
    }
}

/// Pseudo-random byte table; the pattern of a block with seed `s` is the table read
/// cyclically from position `s * 7919`. Filling and checking are then memcpy / memcmp.
pub fn table() -> &'static [u8] {
    static T: OnceLock<Vec<u8>> = OnceLock::new();
    T.get_or_init(|| {
        let mut r = SplitMix(0x5eed_c0de);
        let mut v = Vec::with_capacity(TABLE_LEN);
        while v.len() < TABLE_LEN {
            v.extend_from_slice(&r.next().to_le_bytes());
        }
        v.truncate(TABLE_LEN);
        v
    })
}

const TABLE_LEN: usize = (1 << 20) + 4099;

fn pat_start(seed: u32, at: usize) -> usize {
    (seed as usize * 7919 + at) % TABLE_LEN
}

/// Bytes `[at, at+len)` of the pattern with the given seed.
pub fn pattern(seed: u32, at: usize, len: usize) -> Vec<u8> {
    let t = table();
    let mut out = Vec::with_capacity(len);
    let mut pos = pat_start(seed, at);
    while out.len() < len {
        let n = (len - out.len()).min(TABLE_LEN - pos);
        out.extend_from_slice(&t[pos..pos + n]);
        pos = 0;
    }
    out
}

/// Writes pattern bytes `[at, at+len)` to `ptr + at ..`.
///
/// # Safety
/// `ptr + at .. ptr + at + len` must be writable (that is what the check tests: a fault
/// here is seen by the parent as a signal).
pub unsafe fn fill(ptr: *mut u8, seed: u32, at: usize, len: usize) {
    let t = table();
    let mut done = 0;
    let mut pos = pat_start(seed, at);
    while done < len {
        let n = (len - done).min(TABLE_LEN - pos);
        unsafe { std::ptr::copy_nonoverlapping(t.as_ptr().add(pos), ptr.add(at + done), n) };
        done += n;
        pos = 0;
    }
}

/// Compares `ptr[at..at+len)` with the pattern; returns the first differing index.
///
/// # Safety
/// The range must be readable.
pub unsafe fn check(ptr: *const u8, seed: u32, at: usize, len: usize) -> Option<usize> {
    let t = table();
    let mut done = 0;
    let mut pos = pat_start(seed, at);
    while done < len {
        let n = (len - done).min(TABLE_LEN - pos);
        let got = unsafe { std::slice::from_raw_parts(ptr.add(at + done), n) };
        let want = &t[pos..pos + n];
        if got != want {
            let i = got.iter().zip(want).position(|(a, b)| a != b).unwrap_or(0);
            return Some(at + done + i);
        }
        done += n;
        pos = 0;
    }
    None
}

fn align_up(x: usize, a: usize) -> usize {
    (x + a - 1) & !(a - 1)
}

// ------------------------------------------------------------------- case --

/// A size, resolved against the state at execution time (`pos` = where the new bytes
/// would start, `cap` = capacity of the target arena).
#[derive(Debug, Clone, PartialEq)]
pub enum Sz {
    Abs(u32),
    /// `mult * 64 KiB + d`
    Gran { mult: u8, d: i8 },
    /// ends `d` bytes after the next 64 KiB boundary above `pos`
    ToGran(i8),
    /// remaining capacity + d
    Rem(i8),
    /// capacity + 1 + k
    Over(u32),
    /// the largest size a `Layout` accepts
    Huge,
}

impl Sz {
    fn resolve(&self, pos: usize, cap: usize) -> usize {
        let pos_i = pos as i64;
        let v: i64 = match *self {
            Sz::Abs(n) => i64::from(n),
            Sz::Gran { mult, d } => i64::from(mult) * G as i64 + i64::from(d),
            Sz::ToGran(d) => align_up(pos + 1, G) as i64 + i64::from(d) - pos_i,
            Sz::Rem(d) => cap as i64 + i64::from(d) - pos_i,
            Sz::Over(k) => cap as i64 + 1 + i64::from(k),
            Sz::Huge => return MAX_LAYOUT,
        };
        v.max(0) as usize
    }

    fn to_json(&self) -> J {
        match *self {
            Sz::Abs(n) => json!(["abs", n]),
            Sz::Gran { mult, d } => json!(["gran", mult, d]),
            Sz::ToGran(d) => json!(["togran", d]),
            Sz::Rem(d) => json!(["rem", d]),
            Sz::Over(k) => json!(["over", k]),
            Sz::Huge => json!(["huge"]),
        }
    }

    fn from_json(j: &J) -> Option<Sz> {
        let a = j.as_array()?;
        let n = |i: usize| a.get(i).and_then(J::as_i64);
        Some(match a.first()?.as_str()? {
            "abs" => Sz::Abs(n(1)? as u32),
            "gran" => Sz::Gran { mult: n(1)? as u8, d: n(2)? as i8 },
            "togran" => Sz::ToGran(n(1)? as i8),
            "rem" => Sz::Rem(n(1)? as i8),
            "over" => Sz::Over(n(1)? as u32),
            "huge" => Sz::Huge,
            _ => return None,
        })
    }
}

#[derive(Debug, Clone, PartialEq)]
pub enum Op {
    /// allocate / allocate_zeroed; `outer`: use the arena one scratch level below the top
    Alloc { sz: Sz, al: u8, zero: bool, outer: bool },
    /// alloc_uninit::<T>() (count == 1) / alloc_uninit_slice::<T>(count), T = u8 << ty
    Typed { ty: u8, count: u16 },
    /// grow / grow_zeroed of the `sel`-th live raw block of the top arena by `sz` bytes
    Grow { sel: u8, sz: Sz, al: u8, zero: bool },
    /// shrink of the tail block to `keep`/1000 of its size
    Shrink { keep: u16, al: u8 },
    Mark,
    Reset { sel: u8 },
    Decommit,
    VecNew { cap: u16, outer: bool },
    VecPush { sel: u8, n: Sz },
    VecShrink { sel: u8 },
    StrNew { cap: u16 },
    /// how: 0 push_str, 1 push(char) x n (n capped), 2 push_repeat ASCII, 3 push_repeat 2-byte char,
    /// 4 replace_range of a middle piece by n bytes
    StrPush { sel: u8, n: u16, how: u8 },
    ScratchOpen { conflict: bool },
    ScratchClose,
}

impl Op {
    pub fn kind(&self) -> &'static str {
        match self {
            Op::Alloc { zero: false, .. } => "allocate",
            Op::Alloc { zero: true, .. } => "allocate_zeroed",
            Op::Typed { .. } => "alloc_uninit",
            Op::Grow { zero: false, .. } => "grow",
            Op::Grow { zero: true, .. } => "grow_zeroed",
            Op::Shrink { .. } => "shrink",
            Op::Mark => "mark",
            Op::Reset { .. } => "reset",
            Op::Decommit => "decommit",
            Op::VecNew { .. } => "vec_new",
            Op::VecPush { .. } => "vec_push",
            Op::VecShrink { .. } => "vec_shrink_to_fit",
            Op::StrNew { .. } => "string_new",
            Op::StrPush { .. } => "string_push",
            Op::ScratchOpen { .. } => "scratch_open",
            Op::ScratchClose => "scratch_close",
        }
    }

    fn to_json(&self) -> J {
        match self {
            Op::Alloc { sz, al, zero, outer } => json!(["alloc", sz.to_json(), al, zero, outer]),
            Op::Typed { ty, count } => json!(["typed", ty, count]),
            Op::Grow { sel, sz, al, zero } => json!(["grow", sel, sz.to_json(), al, zero]),
            Op::Shrink { keep, al } => json!(["shrink", keep, al]),
            Op::Mark => json!(["mark"]),
            Op::Reset { sel } => json!(["reset", sel]),
            Op::Decommit => json!(["decommit"]),
            Op::VecNew { cap, outer } => json!(["vec_new", cap, outer]),
            Op::VecPush { sel, n } => json!(["vec_push", sel, n.to_json()]),
            Op::VecShrink { sel } => json!(["vec_shrink", sel]),
            Op::StrNew { cap } => json!(["str_new", cap]),
            Op::StrPush { sel, n, how } => json!(["str_push", sel, n, how]),
            Op::ScratchOpen { conflict } => json!(["scratch_open", conflict]),
            Op::ScratchClose => json!(["scratch_close"]),
        }
    }

    fn from_json(j: &J) -> Option<Op> {
        let a = j.as_array()?;
        let n = |i: usize| a.get(i).and_then(J::as_u64);
        let b = |i: usize| a.get(i).and_then(J::as_bool);
        Some(match a.first()?.as_str()? {
            "alloc" => Op::Alloc {
                sz: Sz::from_json(a.get(1)?)?,
                al: n(2)? as u8,
                zero: b(3)?,
                outer: b(4)?,
            },
            "typed" => Op::Typed { ty: n(1)? as u8, count: n(2)? as u16 },
            "grow" => Op::Grow {
                sel: n(1)? as u8,
                sz: Sz::from_json(a.get(2)?)?,
                al: n(3)? as u8,
                zero: b(4)?,
            },
            "shrink" => Op::Shrink { keep: n(1)? as u16, al: n(2)? as u8 },
            "mark" => Op::Mark,
            "reset" => Op::Reset { sel: n(1)? as u8 },
            "decommit" => Op::Decommit,
            "vec_new" => Op::VecNew { cap: n(1)? as u16, outer: b(2)? },
            "vec_push" => Op::VecPush { sel: n(1)? as u8, n: Sz::from_json(a.get(2)?)? },
            "vec_shrink" => Op::VecShrink { sel: n(1)? as u8 },
            "str_new" => Op::StrNew { cap: n(1)? as u16 },
            "str_push" => Op::StrPush { sel: n(1)? as u8, n: n(2)? as u16, how: n(3)? as u8 },
            "scratch_open" => Op::ScratchOpen { conflict: b(1)? },
            "scratch_close" => Op::ScratchClose,
            _ => return None,
        })
    }
}

#[derive(Debug, Clone, PartialEq)]
pub struct Case {
    /// main arena capacity in 64 KiB chunks (1..=16)
    pub chunks: u8,
    /// capacity of each global scratch arena in 64 KiB chunks
    pub scratch_chunks: u8,
    pub ops: Vec<Op>,
}

impl Case {
    pub fn to_json(&self) -> J {
        json!({
            "chunks": self.chunks,
            "scratch_chunks": self.scratch_chunks,
            "ops": self.ops.iter().map(Op::to_json).collect::<Vec<_>>(),
        })
    }

    pub fn from_json(j: &J) -> Option<Case> {
        let ops = j.get("ops")?.as_array()?.iter().map(Op::from_json).collect::<Option<Vec<_>>>()?;
        Some(Case {
            chunks: j.get("chunks")?.as_u64()? as u8,
            scratch_chunks: j.get("scratch_chunks")?.as_u64()? as u8,
            ops,
        })
    }

    fn hash(&self) -> u64 {
        let mut h = Fnv::new();
        h.write(self.to_json().to_string().as_bytes());
        h.finish()
    }
}

// ------------------------------------------------------------- the model --

pub const F_CROSS: u32 = 1;
pub const F_GROW_NONTAIL: u32 = 2;
pub const F_AFTER_RESET: u32 = 4;
pub const F_HIT_CAP: u32 = 8;
pub const F_GROW_TAIL: u32 = 16;
pub const F_DECOMMIT_REALLOC: u32 = 32;
pub const F_NEST2: u32 = 64;
pub const F_FLIP: u32 = 128;
pub const F_VEC_GROWTH: u32 = 256;
pub const F_SHRINK: u32 = 512;
pub const F_ZEROED: u32 = 1024;
pub const F_OUTER: u32 = 2048;
pub const F_NONTRIVIAL: u32 = F_CROSS | F_GROW_NONTAIL | F_AFTER_RESET | F_HIT_CAP;

const FLAG_NAMES: [(u32, &str); 12] = [
    (F_CROSS, "crosses a 64 KiB commit boundary"),
    (F_GROW_NONTAIL, "grows a non-tail block (copy path)"),
    (F_AFTER_RESET, "allocates into space freed by a reset / scratch release"),
    (F_HIT_CAP, "request exceeds capacity (AllocError)"),
    (F_GROW_TAIL, "grows the tail block in place"),
    (F_DECOMMIT_REALLOC, "allocates into decommitted space"),
    (F_NEST2, "scratch borrows nested >= 2 deep"),
    (F_FLIP, "scratch_arena(Some(scratch)) flips to the other scratch arena"),
    (F_VEC_GROWTH, "Vec / ArenaString reallocates"),
    (F_SHRINK, "shrinks the tail block"),
    (F_ZEROED, "zeroed allocation or growth"),
    (F_OUTER, "allocates in the caller's arena while a scratch arena is open"),
];

struct Bad {
    inv: &'static str,
    what: String,
}

type R<T> = Result<T, Bad>;

fn bad<T>(inv: &'static str, what: String) -> R<T> {
    Err(Bad { inv, what })
}

/// One underlying bump arena (main, scratch 0, scratch 1), identified by its base address.
struct Under {
    base: usize,
    cap: usize,
    offset: usize,
    high: usize,
    reset_pending: bool,
    decommit_keep: Option<usize>,
}

/// One handle through which the arena is used: level 0 is the owned main arena, every
/// further level is a `ScratchArena` borrow.
struct Level {
    arena: &'static Arena,
    scratch: *mut ScratchArena<'static>,
    uid: usize,
    saved: usize,
    marks: Vec<usize>,
}

enum Owner {
    Raw,
    V(Vec<u8, &'static Arena>),
    S(ArenaString<'static>, String),
    /// placeholder while the owner is moved out for an operation
    Taken,
}

struct Block {
    uid: usize,
    level: usize,
    beg: usize,
    size: usize,
    align: usize,
    seed: u32,
    owner: Owner,
}

struct Exec {
    unders: Vec<Under>,
    levels: Vec<Level>,
    blocks: Vec<Block>,
    next_seed: u32,
    flags: u32,
    max_depth: usize,
}

impl Exec {
    fn top(&self) -> usize {
        self.levels.len() - 1
    }

    /// The level one below the top when it is a different underlying arena (the "caller's
    /// arena" of the flip/flop scheme), otherwise the top.
    fn target(&self, outer: bool) -> usize {
        let t = self.top();
        if outer && t >= 1 && self.levels[t - 1].uid != self.levels[t].uid { t - 1 } else { t }
    }

    fn usable(&self, level: usize) -> bool {
        level == self.top() || level == self.target(true)
    }

    fn seed(&mut self) -> u32 {
        self.next_seed += 1;
        self.next_seed
    }

    fn predict_alloc(&self, uid: usize, size: usize, align: usize) -> Option<(usize, usize)> {
        let u = &self.unders[uid];
        let beg = align_up(u.offset, align);
        let end = beg.checked_add(size)?;
        (end <= u.cap).then_some((beg, end))
    }

    fn block_addr(&self, bi: usize) -> usize {
        self.unders[self.blocks[bi].uid].base + self.blocks[bi].beg
    }

    #[allow(clippy::too_many_arguments)]
    fn check_new_block(
        &self,
        uid: usize,
        addr: usize,
        len: usize,
        want_beg: usize,
        want_size: usize,
        align: usize,
        ignore: Option<usize>,
    ) -> R<()> {
        let u = &self.unders[uid];
        let end = addr.checked_add(len);
        if addr < u.base || end.is_none_or(|e| e > u.base + u.cap) {
            return bad(
                "bounds",
                format!(
                    "block [{addr:#x}, +{len}) is not inside the reservation [{:#x}, +{})",
                    u.base, u.cap
                ),
            );
        }
        if !addr.is_multiple_of(align) {
            return bad("align", format!("block at offset {} is not aligned to {align}", addr - u.base));
        }
        if len != want_size {
            return bad("len", format!("block has length {len}, requested {want_size}"));
        }
        if len > 0 {
            for (i, b) in self.blocks.iter().enumerate() {
                if Some(i) == ignore || b.size == 0 {
                    continue;
                }
                let bb = self.unders[b.uid].base + b.beg;
                if addr < bb + b.size && bb < addr + len {
                    return bad(
                        "overlap",
                        format!(
                            "new block [{}, {}) overlaps live block [{}, {}) of arena {}",
                            addr - u.base,
                            addr - u.base + len,
                            b.beg,
                            b.beg + b.size,
                            b.uid
                        ),
                    );
                }
            }
        }
        if addr != u.base + want_beg {
            return bad(
                "placement",
                format!(
                    "block starts at offset {}, bump arithmetic gives {want_beg} (offset before: {})",
                    addr - u.base,
                    u.offset
                ),
            );
        }
        Ok(())
    }

    /// Sets the model offset and compares with the real one.
    fn sync_offset(&mut self, lvl: usize, new_off: usize) -> R<()> {
        let uid = self.levels[lvl].uid;
        self.unders[uid].offset = new_off;
        let real = self.levels[lvl].arena.offset();
        if real != new_off {
            return bad("offset", format!("offset() = {real}, model expects {new_off}"));
        }
        Ok(())
    }

    fn note_alloc(&mut self, uid: usize, before: usize, beg: usize, end: usize) {
        if end > 0 && (end - 1) / G > before.saturating_sub(1) / G {
            self.flags |= F_CROSS;
        }
        let u = &mut self.unders[uid];
        if end > beg {
            if u.reset_pending && beg < u.high {
                self.flags |= F_AFTER_RESET;
            }
            u.reset_pending = false;
            if let Some(keep) = u.decommit_keep {
                if end > keep {
                    self.flags |= F_DECOMMIT_REALLOC;
                }
                u.decommit_keep = None;
            }
        }
        u.high = u.high.max(end);
    }

    fn drop_marks_above(&mut self, uid: usize, off: usize) {
        for l in &mut self.levels {
            if l.uid == uid {
                l.marks.retain(|&m| m <= off);
            }
        }
    }

    fn remove_blocks(&mut self, pred: impl Fn(&Block) -> bool) {
        let mut i = 0;
        while i < self.blocks.len() {
            if pred(&self.blocks[i]) {
                let b = self.blocks.swap_remove(i);
                std::mem::forget(b.owner);
            } else {
                i += 1;
            }
        }
    }

    fn do_alloc(&mut self, lvl: usize, size: usize, align: usize, zero: bool) -> R<()> {
        let arena = self.levels[lvl].arena;
        let uid = self.levels[lvl].uid;
        let layout = Layout::from_size_align(size, align).expect("generator makes valid layouts");
        let before = self.unders[uid].offset;
        let pred = self.predict_alloc(uid, size, align);
        let got = if zero { arena.allocate_zeroed(layout) } else { arena.allocate(layout) };
        match (pred, got) {
            (None, Err(_)) => {
                self.flags |= F_HIT_CAP;
                self.sync_offset(lvl, before)
            }
            (None, Ok(p)) => bad(
                "fit",
                format!(
                    "allocate({size}, align {align}) at offset {before} of a {}-byte arena returned a block of {} bytes",
                    self.unders[uid].cap,
                    p.len()
                ),
            ),
            (Some((beg, end)), Err(_)) => bad(
                "fit",
                format!(
                    "allocate({size}, align {align}) failed although [{beg}, {end}) fits capacity {}",
                    self.unders[uid].cap
                ),
            ),
            (Some((beg, end)), Ok(p)) => {
                let addr = p.cast::<u8>().as_ptr() as usize;
                self.check_new_block(uid, addr, p.len(), beg, size, align, None)?;
                self.sync_offset(lvl, end)?;
                if size > 0 && !arena.contains_ptr(addr as *const u8) {
                    return bad("contains_ptr", "contains_ptr is false for a block just returned".into());
                }
                if zero {
                    self.flags |= F_ZEROED;
                    let s = unsafe { std::slice::from_raw_parts(addr as *const u8, size) };
                    if let Some(i) = s.iter().position(|&b| b != 0) {
                        return bad("zeroed", format!("allocate_zeroed: byte {i} is {:#x}", s[i]));
                    }
                }
                let seed = self.seed();
                unsafe { fill(addr as *mut u8, seed, 0, size) };
                self.blocks.push(Block { uid, level: lvl, beg, size, align, seed, owner: Owner::Raw });
                self.note_alloc(uid, before, beg, end);
                Ok(())
            }
        }
    }

    fn do_typed(&mut self, ty: u8, count: usize) -> R<()> {
        fn call<T>(arena: &Arena, count: usize) -> (usize, usize, usize) {
            let (p, n) = if count == 1 {
                (std::ptr::from_mut(arena.alloc_uninit::<T>()) as usize, 1)
            } else {
                let s = arena.alloc_uninit_slice::<T>(count);
                (s.as_mut_ptr() as usize, s.len())
            };
            (p, n * size_of::<T>(), align_of::<T>())
        }
        let (esize, align) = match ty {
            0 => (1, align_of::<u8>()),
            1 => (2, align_of::<u16>()),
            2 => (4, align_of::<u32>()),
            3 => (8, align_of::<u64>()),
            _ => (16, align_of::<u128>()),
        };
        let lvl = self.top();
        let arena = self.levels[lvl].arena;
        let uid = self.levels[lvl].uid;
        let size = esize * count;
        let before = self.unders[uid].offset;
        // alloc_uninit* unwrap the result: real callers only use them when the request fits.
        let Some((beg, end)) = self.predict_alloc(uid, size, align) else { return Ok(()) };
        let (addr, len, al) = match ty {
            0 => call::<u8>(arena, count),
            1 => call::<u16>(arena, count),
            2 => call::<u32>(arena, count),
            3 => call::<u64>(arena, count),
            _ => call::<u128>(arena, count),
        };
        self.check_new_block(uid, addr, len, beg, size, al, None)?;
        self.sync_offset(lvl, end)?;
        let seed = self.seed();
        unsafe { fill(addr as *mut u8, seed, 0, size) };
        self.blocks.push(Block { uid, level: lvl, beg, size, align, seed, owner: Owner::Raw });
        self.note_alloc(uid, before, beg, end);
        Ok(())
    }

    fn pick(&self, sel: u8, f: impl Fn(&Block) -> bool) -> Option<usize> {
        let c: Vec<usize> = (0..self.blocks.len()).filter(|&i| f(&self.blocks[i])).collect();
        if c.is_empty() { None } else { Some(c[sel as usize % c.len()]) }
    }

    fn do_grow(&mut self, sel: u8, sz: &Sz, al: u8, zero: bool) -> R<()> {
        let Some(bi) =
            self.pick(sel, |b| matches!(b.owner, Owner::Raw) && self.usable(b.level))
        else {
            return Ok(());
        };
        let (uid, lvl, beg, old, old_align) = {
            let b = &self.blocks[bi];
            (b.uid, b.level, b.beg, b.size, b.align)
        };
        let arena = self.levels[lvl].arena;
        let new_align = (1usize << al).min(old_align);
        let before = self.unders[uid].offset;
        let cap = self.unders[uid].cap;
        let tail = beg + old == before;
        let pos = if tail { before } else { align_up(before, new_align) + old };
        let new_size = old.saturating_add(sz.resolve(pos, cap)).min(MAX_LAYOUT);
        let pred = if tail {
            before.checked_add(new_size - old).filter(|&e| e <= cap).map(|e| (beg, e))
        } else {
            self.predict_alloc(uid, new_size, new_align)
        };
        let ptr = NonNull::new(self.block_addr(bi) as *mut u8).expect("non-null block");
        let old_layout = Layout::from_size_align(old, old_align).expect("layout");
        let new_layout = Layout::from_size_align(new_size, new_align).expect("layout");
        let got = unsafe {
            if zero {
                arena.grow_zeroed(ptr, old_layout, new_layout)
            } else {
                arena.grow(ptr, old_layout, new_layout)
            }
        };
        let which = if tail { "tail" } else { "non-tail" };
        match (pred, got) {
            (None, Err(_)) => {
                self.flags |= F_HIT_CAP;
                self.sync_offset(lvl, before)
            }
            (None, Ok(_)) => bad(
                "fit",
                format!("grow of a {which} block {old} -> {new_size} at offset {before} of a {cap}-byte arena succeeded"),
            ),
            (Some(_), Err(_)) => bad(
                "fit",
                format!("grow of a {which} block {old} -> {new_size} at offset {before} failed although it fits {cap}"),
            ),
            (Some((nbeg, end)), Ok(p)) => {
                let addr = p.cast::<u8>().as_ptr() as usize;
                self.check_new_block(uid, addr, p.len(), nbeg, new_size, new_align, tail.then_some(bi))?;
                self.sync_offset(lvl, end)?;
                let seed = self.blocks[bi].seed;
                if let Some(i) = unsafe { check(addr as *const u8, seed, 0, old) } {
                    return bad(
                        "grow-contents",
                        format!("grow of a {which} block {old} -> {new_size}: byte {i} of the old contents changed"),
                    );
                }
                if zero {
                    self.flags |= F_ZEROED;
                    let s = unsafe { std::slice::from_raw_parts((addr + old) as *const u8, new_size - old) };
                    if let Some(i) = s.iter().position(|&b| b != 0) {
                        return bad("zeroed", format!("grow_zeroed: new byte {} is {:#x}", old + i, s[i]));
                    }
                }
                unsafe { fill(addr as *mut u8, seed, old, new_size - old) };
                let b = &mut self.blocks[bi];
                b.beg = nbeg;
                b.size = new_size;
                b.align = new_align;
                self.flags |= if tail { F_GROW_TAIL } else { F_GROW_NONTAIL };
                self.note_alloc(uid, before, if tail { before } else { nbeg }, end);
                Ok(())
            }
        }
    }

    fn tail_block(&self, want_vec: bool) -> Option<usize> {
        let mut best: Option<usize> = None;
        for (i, b) in self.blocks.iter().enumerate() {
            let kind_ok = match &b.owner {
                Owner::Raw => !want_vec,
                Owner::V(v) => want_vec && v.capacity() > v.len(),
                _ => false,
            };
            if kind_ok
                && self.usable(b.level)
                && b.size > 0
                && b.beg + b.size == self.unders[b.uid].offset
                && best.is_none_or(|j| self.blocks[j].size <= b.size)
            {
                best = Some(i);
            }
        }
        best
    }

    fn do_shrink(&mut self, keep: u16, al: u8) -> R<()> {
        let Some(bi) = self.tail_block(false) else { return Ok(()) };
        let (uid, lvl, beg, old, old_align) = {
            let b = &self.blocks[bi];
            (b.uid, b.level, b.beg, b.size, b.align)
        };
        let arena = self.levels[lvl].arena;
        let new_size = old * (keep as usize).min(1000) / 1000;
        let new_align = (1usize << al).min(old_align);
        let ptr = NonNull::new(self.block_addr(bi) as *mut u8).expect("non-null block");
        let got = unsafe {
            arena.shrink(
                ptr,
                Layout::from_size_align(old, old_align).expect("layout"),
                Layout::from_size_align(new_size, new_align).expect("layout"),
            )
        };
        let Ok(p) = got else { return bad("fit", format!("shrink {old} -> {new_size} failed")) };
        if p.cast::<u8>() != ptr {
            return bad("placement", "shrink of the tail block moved it".into());
        }
        if p.len() != new_size {
            return bad("len", format!("shrink {old} -> {new_size} returned length {}", p.len()));
        }
        self.blocks[bi].size = new_size;
        self.blocks[bi].align = new_align;
        self.flags |= F_SHRINK;
        self.sync_offset(lvl, beg + new_size)?;
        self.drop_marks_above(uid, beg + new_size);
        Ok(())
    }

    fn do_mark(&mut self) -> R<()> {
        let lvl = self.top();
        let uid = self.levels[lvl].uid;
        let off = self.unders[uid].offset;
        self.sync_offset(lvl, off)?;
        self.levels[lvl].marks.push(off);
        Ok(())
    }

    fn do_reset(&mut self, sel: u8) -> R<()> {
        let lvl = self.top();
        let uid = self.levels[lvl].uid;
        let before = self.unders[uid].offset;
        let valid: Vec<usize> =
            self.levels[lvl].marks.iter().copied().filter(|&m| m <= before).collect();
        if valid.is_empty() {
            return Ok(());
        }
        let m = valid[sel as usize % valid.len()];
        unsafe { self.levels[lvl].arena.reset(m) };
        self.remove_blocks(|b| b.uid == uid && b.beg + b.size > m);
        self.drop_marks_above(uid, m);
        if before > m {
            self.unders[uid].reset_pending = true;
        }
        self.sync_offset(lvl, m)
    }

    fn do_decommit(&mut self) -> R<()> {
        let lvl = self.top();
        let uid = self.levels[lvl].uid;
        let arena = self.levels[lvl].arena;
        let c0 = arena.verif_layout().2;
        arena.decommit();
        let c1 = arena.verif_layout().2;
        if c1 < c0 {
            self.unders[uid].decommit_keep = Some(c1);
        }
        let off = self.unders[uid].offset;
        self.sync_offset(lvl, off)
    }
}

// ------------------------------------------- Vec / ArenaString / scratch ops --

impl Exec {
    /// A Vec-like owner of block `bi` now reports `(new_addr, new_cap)`: derive which
    /// allocator call std must have made and check its result against the model.
    fn observe_growth(&mut self, bi: usize, new_addr: usize, new_cap: usize) -> R<()> {
        let (uid, lvl, old_beg, old_cap) = {
            let b = &self.blocks[bi];
            (b.uid, b.level, b.beg, b.size)
        };
        let before = self.unders[uid].offset;
        if new_cap == old_cap {
            if old_cap > 0 && new_addr != self.unders[uid].base + old_beg {
                return bad("placement", "vector buffer moved without a capacity change".into());
            }
            return self.sync_offset(lvl, before);
        }
        let tail = old_cap > 0 && old_beg + old_cap == before;
        let pred = if tail {
            before.checked_add(new_cap - old_cap).filter(|&e| e <= self.unders[uid].cap).map(|e| (old_beg, e))
        } else {
            self.predict_alloc(uid, new_cap, 1)
        };
        let Some((nbeg, end)) = pred else {
            return bad(
                "fit",
                format!(
                    "vector capacity went {old_cap} -> {new_cap} at offset {before} although that cannot fit {}",
                    self.unders[uid].cap
                ),
            );
        };
        self.check_new_block(uid, new_addr, new_cap, nbeg, new_cap, 1, tail.then_some(bi))?;
        self.sync_offset(lvl, end)?;
        self.blocks[bi].beg = nbeg;
        self.blocks[bi].size = new_cap;
        self.flags |= F_VEC_GROWTH;
        if old_cap > 0 {
            self.flags |= if tail { F_GROW_TAIL } else { F_GROW_NONTAIL };
        }
        self.note_alloc(uid, before, if tail { before } else { nbeg }, end);
        Ok(())
    }

    /// Does the worst-case request `a` of a growing vector (current block `bi`) fit?
    fn vec_request_fits(&self, bi: usize, a: usize) -> bool {
        let b = &self.blocks[bi];
        let u = &self.unders[b.uid];
        if b.size == 0 {
            self.predict_alloc(b.uid, a, 1).is_some()
        } else if b.beg + b.size == u.offset {
            u.offset - b.size + a <= u.cap
        } else {
            u.offset + a <= u.cap
        }
    }

    fn do_vec_new(&mut self, cap: usize, outer: bool) -> R<()> {
        let lvl = self.target(outer);
        if lvl != self.top() {
            self.flags |= F_OUTER;
        }
        let arena = self.levels[lvl].arena;
        let uid = self.levels[lvl].uid;
        let mut v: Vec<u8, &'static Arena> = Vec::new_in(arena);
        let seed = self.seed();
        let beg = self.unders[uid].offset;
        self.blocks.push(Block { uid, level: lvl, beg, size: 0, align: 1, seed, owner: Owner::Taken });
        let bi = self.blocks.len() - 1;
        if cap > 0 {
            let fits = self.predict_alloc(uid, cap, 1).is_some();
            match (fits, v.try_reserve_exact(cap)) {
                (false, Err(_)) => self.flags |= F_HIT_CAP,
                (true, Err(_)) => {
                    return bad("fit", format!("try_reserve_exact({cap}) failed at offset {beg} although it fits"));
                }
                _ => {}
            }
            self.observe_growth(bi, v.as_ptr() as usize, v.capacity())?;
        }
        self.blocks[bi].owner = Owner::V(v);
        Ok(())
    }

    fn do_vec_push(&mut self, sel: u8, n: &Sz) -> R<()> {
        let Some(bi) = self.pick(sel, |b| matches!(b.owner, Owner::V(_)) && self.usable(b.level))
        else {
            return Ok(());
        };
        let Owner::V(mut v) = std::mem::replace(&mut self.blocks[bi].owner, Owner::Taken) else {
            unreachable!()
        };
        let uid = self.blocks[bi].uid;
        let n = n.resolve(self.unders[uid].offset, self.unders[uid].cap).min(2 << 20);
        let (len, cap) = (v.len(), v.capacity());
        let needs = cap - len < n;
        // std's amortised growth asks for max(2 * cap, len + n, 8) bytes.
        let request = (2 * cap).max(len + n).max(8);
        let fits = self.vec_request_fits(bi, request);
        match v.try_reserve(n) {
            Err(_) => {
                if !needs {
                    return bad("fit", "try_reserve failed although no memory was needed".into());
                }
                if fits {
                    return bad(
                        "fit",
                        format!("vector growth to {request} bytes failed although it fits (len {len}, cap {cap})"),
                    );
                }
                self.flags |= F_HIT_CAP;
                self.observe_growth(bi, v.as_ptr() as usize, v.capacity())?;
            }
            Ok(()) => {
                self.observe_growth(bi, v.as_ptr() as usize, v.capacity())?;
                if v.capacity() < len + n {
                    return bad("len", format!("capacity {} after reserving {len} + {n}", v.capacity()));
                }
                let seed = self.blocks[bi].seed;
                if let Some(i) = unsafe { check(v.as_ptr(), seed, 0, len) } {
                    return bad("grow-contents", format!("vector growth changed byte {i} of {len}"));
                }
                v.extend_from_slice(&pattern(seed, len, n));
                self.observe_growth(bi, v.as_ptr() as usize, v.capacity())?;
            }
        }
        self.blocks[bi].owner = Owner::V(v);
        Ok(())
    }

    fn do_vec_shrink(&mut self) -> R<()> {
        let Some(bi) = self.tail_block(true) else { return Ok(()) };
        let Owner::V(mut v) = std::mem::replace(&mut self.blocks[bi].owner, Owner::Taken) else {
            unreachable!()
        };
        let (uid, lvl, beg) = (self.blocks[bi].uid, self.blocks[bi].level, self.blocks[bi].beg);
        let len = v.len();
        let before = self.unders[uid].offset;
        let addr0 = v.as_ptr() as usize;
        v.shrink_to_fit();
        if v.capacity() != len {
            return bad("len", format!("shrink_to_fit left capacity {} for length {len}", v.capacity()));
        }
        self.blocks[bi].size = len;
        if len == 0 {
            // std releases the buffer with deallocate (a no-op for the arena)
            self.sync_offset(lvl, before)?;
        } else {
            if v.as_ptr() as usize != addr0 {
                return bad("placement", "shrink_to_fit of the tail vector moved it".into());
            }
            self.flags |= F_SHRINK;
            self.sync_offset(lvl, beg + len)?;
            self.drop_marks_above(uid, beg + len);
        }
        self.blocks[bi].owner = Owner::V(v);
        Ok(())
    }

    fn do_str_new(&mut self, cap: usize) -> R<()> {
        let lvl = self.top();
        let arena = self.levels[lvl].arena;
        let uid = self.levels[lvl].uid;
        let fits = self.predict_alloc(uid, cap, 1).is_some();
        let s = if cap > 0 && fits {
            ArenaString::with_capacity_in(cap, arena)
        } else {
            ArenaString::new_in(arena)
        };
        let seed = self.seed();
        let beg = self.unders[uid].offset;
        self.blocks.push(Block { uid, level: lvl, beg, size: 0, align: 1, seed, owner: Owner::Taken });
        let bi = self.blocks.len() - 1;
        self.observe_growth(bi, s.as_ptr() as usize, s.capacity())?;
        self.blocks[bi].owner = Owner::S(s, String::new());
        Ok(())
    }

    fn do_str_push(&mut self, sel: u8, n: usize, how: u8) -> R<()> {
        let Some(bi) = self.pick(sel, |b| matches!(b.owner, Owner::S(..)) && self.usable(b.level))
        else {
            return Ok(());
        };
        let (uid, seed) = (self.blocks[bi].uid, self.blocks[bi].seed);
        let (len, cap) = match &self.blocks[bi].owner {
            Owner::S(s, _) => (s.len(), s.capacity()),
            _ => unreachable!(),
        };
        let text: String = match how {
            0 | 1 => pattern(seed, len, if how == 1 { n.min(64) } else { n })
                .into_iter()
                .map(|b| if b % 16 == 0 { 'é' } else { char::from(b'a' + b % 26) })
                .collect(),
            2 => "x".repeat(n),
            3 => "é".repeat(n / 2),
            // 4: replace_range of a middle piece by a (usually longer) text
            _ => pattern(seed, len + 1, n).into_iter().map(|b| char::from(b'A' + b % 26)).collect(),
        };
        let m = text.len();
        // The string API aborts the process when the arena is full; callers only push
        // what fits. Worst case: every growth step copies to a fresh block.
        let worst = if how == 1 { 4 * (cap + m + 8) } else { (2 * cap).max(len + m).max(8) };
        if self.unders[uid].offset + worst > self.unders[uid].cap {
            return Ok(());
        }
        let Owner::S(mut s, mut shadow) = std::mem::replace(&mut self.blocks[bi].owner, Owner::Taken)
        else {
            unreachable!()
        };
        match how {
            0 => s.push_str(&text),
            1 => {
                for ch in text.chars() {
                    s.push(ch);
                    self.observe_growth(bi, s.as_ptr() as usize, s.capacity())?;
                }
            }
            2 => s.push_repeat('x', n),
            3 => s.push_repeat('é', n / 2),
            _ => {
                // character boundaries at about 1/3 and 1/2 of the current text
                let bounds: Vec<usize> = shadow.char_indices().map(|(i, _)| i).chain(std::iter::once(shadow.len())).collect();
                let a = bounds[bounds.len() / 3];
                let b = bounds[bounds.len() / 2];
                s.replace_range(a..b, &text);
                self.observe_growth(bi, s.as_ptr() as usize, s.capacity())?;
                shadow.replace_range(a..b, &text);
                if s.as_bytes() != shadow.as_bytes() {
                    return bad("grow-contents", format!("ArenaString contents differ after replace_range({a}..{b}) with {m} bytes on {len}"));
                }
                self.blocks[bi].owner = Owner::S(s, shadow);
                return Ok(());
            }
        }
        self.observe_growth(bi, s.as_ptr() as usize, s.capacity())?;
        shadow.push_str(&text);
        if s.as_bytes() != shadow.as_bytes() {
            return bad("grow-contents", format!("ArenaString contents differ after pushing {m} bytes onto {len}"));
        }
        self.blocks[bi].owner = Owner::S(s, shadow);
        Ok(())
    }

    fn do_scratch_open(&mut self, conflict: bool) -> R<()> {
        if self.levels.len() > MAX_DEPTH {
            return Ok(());
        }
        let t = self.top();
        let top_arena = self.levels[t].arena;
        let top_uid = self.levels[t].uid;
        let sa = if conflict { arena::scratch_arena(Some(top_arena)) } else { arena::scratch_arena(None) };
        let raw: *mut ScratchArena<'static> = Box::into_raw(Box::new(sa));
        let arena: &'static Arena = unsafe { &**raw };
        let (base, cap, _) = arena.verif_layout();
        let uid = match self.unders.iter().position(|u| u.base == base) {
            Some(i) => i,
            None => {
                self.unders.push(Under {
                    base,
                    cap,
                    offset: arena.offset(),
                    high: 0,
                    reset_pending: false,
                    decommit_keep: None,
                });
                self.unders.len() - 1
            }
        };
        if uid == 0 || self.unders.len() > 3 {
            return bad("scratch-identity", "scratch_arena returned something else than one of the two scratch arenas".into());
        }
        if conflict && uid == top_uid {
            return bad("scratch-conflict", "scratch_arena(Some(&a)) returned the arena a itself".into());
        }
        if conflict && top_uid != 0 {
            self.flags |= F_FLIP;
        }
        let saved = self.unders[uid].offset;
        self.levels.push(Level { arena, scratch: raw, uid, saved, marks: Vec::new() });
        if self.levels.len() >= 3 {
            self.flags |= F_NEST2;
        }
        self.max_depth = self.max_depth.max(self.levels.len() - 1);
        let lvl = self.top();
        self.sync_offset(lvl, saved)
    }

    fn do_scratch_close(&mut self) -> R<()> {
        if self.levels.len() == 1 {
            return Ok(());
        }
        let l = self.top();
        // everything allocated through this borrow dies with it
        self.remove_blocks(|b| b.level == l);
        let lev = self.levels.pop().expect("level");
        let u = &mut self.unders[lev.uid];
        if u.offset > lev.saved {
            u.reset_pending = true;
        }
        u.offset = lev.saved;
        u.decommit_keep = Some(align_up(lev.saved, G));
        drop(unsafe { Box::from_raw(lev.scratch) });
        let t = self.top();
        if self.levels[t].uid == lev.uid {
            self.sync_offset(t, lev.saved)?;
        }
        Ok(())
    }

    fn verify_block(&self, bi: usize) -> R<()> {
        let b = &self.blocks[bi];
        let addr = self.unders[b.uid].base + b.beg;
        let diff = match &b.owner {
            Owner::Raw => unsafe { check(addr as *const u8, b.seed, 0, b.size) },
            Owner::V(v) => {
                if v.capacity() != b.size || (b.size > 0 && v.as_ptr() as usize != addr) {
                    return bad("pattern", "vector pointer/capacity changed behind the model".into());
                }
                unsafe { check(v.as_ptr(), b.seed, 0, v.len()) }
            }
            Owner::S(s, shadow) => {
                s.as_bytes().iter().zip(shadow.as_bytes()).position(|(a, b)| a != b).or_else(|| {
                    (s.len() != shadow.len()).then_some(s.len().min(shadow.len()))
                })
            }
            Owner::Taken => None,
        };
        if let Some(i) = diff {
            return bad(
                "pattern",
                format!(
                    "live block [{}, {}) of arena {} no longer carries its pattern at byte {i}",
                    b.beg,
                    b.beg + b.size,
                    b.uid
                ),
            );
        }
        Ok(())
    }

    fn verify_all(&self) -> R<()> {
        for lev in &self.levels {
            let u = &self.unders[lev.uid];
            let (base, cap, commit) = lev.arena.verif_layout();
            if base != u.base || cap != u.cap {
                return bad("layout", "base or capacity of an arena changed".into());
            }
            if u.offset > commit || commit > cap || !commit.is_multiple_of(G) {
                return bad(
                    "commit",
                    format!("offset {} / commit {commit} / capacity {cap} violate offset <= commit <= capacity, commit % 64 KiB == 0", u.offset),
                );
            }
        }
        for bi in 0..self.blocks.len() {
            self.verify_block(bi)?;
        }
        Ok(())
    }

    fn apply(&mut self, op: &Op) -> R<()> {
        match op {
            Op::Alloc { sz, al, zero, outer } => {
                let lvl = self.target(*outer);
                if lvl != self.top() {
                    self.flags |= F_OUTER;
                }
                let u = &self.unders[self.levels[lvl].uid];
                let align = 1usize << al;
                let size = sz.resolve(align_up(u.offset, align), u.cap).min(MAX_LAYOUT);
                self.do_alloc(lvl, size, align, *zero)
            }
            Op::Typed { ty, count } => self.do_typed(*ty, *count as usize),
            Op::Grow { sel, sz, al, zero } => self.do_grow(*sel, sz, *al, *zero),
            Op::Shrink { keep, al } => self.do_shrink(*keep, *al),
            Op::Mark => self.do_mark(),
            Op::Reset { sel } => self.do_reset(*sel),
            Op::Decommit => self.do_decommit(),
            Op::VecNew { cap, outer } => self.do_vec_new(*cap as usize, *outer),
            Op::VecPush { sel, n } => self.do_vec_push(*sel, n),
            Op::VecShrink { .. } => self.do_vec_shrink(),
            Op::StrNew { cap } => self.do_str_new(*cap as usize),
            Op::StrPush { sel, n, how } => self.do_str_push(*sel, *n as usize, *how),
            Op::ScratchOpen { conflict } => self.do_scratch_open(*conflict),
            Op::ScratchClose => self.do_scratch_close(),
        }
    }
}

/// Runs one history against a fresh arena (in the child). Returns the flags of what the
/// history exercised, or (op index, invariant, description) of the first divergence.
fn run_history(case: &Case) -> Result<(u32, usize), (usize, Bad)> {
    let cap = case.chunks.max(1) as usize * G;
    arena::init(case.scratch_chunks.max(1) as usize * G).expect("scratch arenas");
    let main: &'static Arena = Box::leak(Box::new(Arena::new(cap).expect("arena")));
    let (base, real_cap, _) = main.verif_layout();
    let mut ex = Exec {
        unders: vec![Under {
            base,
            cap: real_cap,
            offset: 0,
            high: 0,
            reset_pending: false,
            decommit_keep: None,
        }],
        levels: vec![Level { arena: main, scratch: std::ptr::null_mut(), uid: 0, saved: 0, marks: Vec::new() }],
        blocks: Vec::new(),
        next_seed: 0,
        flags: 0,
        max_depth: 0,
    };
    let mut result = Ok(());
    if real_cap != cap {
        result = Err((0, Bad { inv: "layout", what: format!("Arena::new({cap}) has capacity {real_cap}") }));
    }
    if result.is_ok() {
        for (i, op) in case.ops.iter().enumerate() {
            progress::set(i as u32);
            if let Err(b) = ex.apply(op).and_then(|()| ex.verify_all()) {
                result = Err((i, b));
                break;
            }
        }
    }
    let out = result.map(|()| (ex.flags, ex.max_depth));
    // Owners must not be dropped out of borrow order (the debug wrapper asserts on it).
    std::mem::forget(ex);
    out
}

// ------------------------------------------------------------ parent side --

fn fail_of(case: &Case, sig: String, what: String) -> Failure {
    Failure { sig, what, input: json!({"case": case.to_json()}) }
}

/// Runs one history isolated. Returns the outcome and, when it passed, the exercise flags
/// and the deepest scratch nesting.
pub fn check_case(case: &Case) -> (Outcome, u32, usize) {
    let _ = table();
    progress::set(u32::MAX);
    let iso = isolate::run(isolate::Opts { timeout: Duration::from_secs(30), ..Default::default() }, |out| {
        match run_history(case) {
            Ok((flags, depth)) => out.frame(format!("ok {flags} {depth}").as_bytes()),
            Err((i, b)) => out.frame(format!("bad\n{i}\n{}\n{}", b.inv, b.what).as_bytes()),
        }
    });
    let op_at = |i: usize| case.ops.get(i);
    if let Some(f) = iso.frames.first() {
        let text = String::from_utf8_lossy(f).into_owned();
        if let Some(rest) = text.strip_prefix("ok ") {
            if iso.clean() {
                let mut it = rest.split(' ');
                let flags = it.next().and_then(|s| s.parse().ok()).unwrap_or(0);
                let depth = it.next().and_then(|s| s.parse().ok()).unwrap_or(0);
                return (Outcome::Pass, flags, depth);
            }
        } else if let Some(rest) = text.strip_prefix("bad\n") {
            let mut it = rest.splitn(3, '\n');
            let i: usize = it.next().and_then(|s| s.parse().ok()).unwrap_or(0);
            let inv = it.next().unwrap_or("?").to_string();
            let what = it.next().unwrap_or("").to_string();
            let kind = op_at(i).map_or("setup", Op::kind);
            let shown = op_at(i).map(|o| o.to_json().to_string()).unwrap_or_default();
            return (
                Outcome::Fail(fail_of(
                    case,
                    format!("model-divergence|{inv}|{kind}"),
                    format!("after op #{i} {shown} (capacity {} KiB): {what}", case.chunks as usize * 64),
                )),
                0,
                0,
            );
        }
    }
    let kind = iso.crash_kind().unwrap_or_else(|| "no result".into());
    if kind == "timeout" {
        return (Outcome::Discard("timeout"), 0, 0);
    }
    let at = progress::get();
    let (opkind, shown) = match op_at(at as usize) {
        Some(o) if at != u32::MAX => (o.kind(), format!("op #{at} {}", o.to_json())),
        _ => ("setup-or-teardown", "outside any op".to_string()),
    };
    (
        Outcome::Fail(fail_of(
            case,
            format!("crash|{kind}|{opkind}"),
            format!("{kind} during {shown} (capacity {} KiB)", case.chunks as usize * 64),
        )),
        0,
        0,
    )
}

// -------------------------------------------------------------- generators --

fn sz_strategy() -> impl Strategy<Value = Sz> {
    prop_oneof![
        30 => (0u32..=64).prop_map(Sz::Abs),
        6 => prop::sample::select(vec![0u32, 1, 2, 7, 8, 9, 127, 128, 4095, 4096, 4097]).prop_map(Sz::Abs),
        12 => (0u32..=8192).prop_map(Sz::Abs),
        5 => (0u32..=300_000).prop_map(Sz::Abs),
        12 => (1u8..=4, -1i8..=1).prop_map(|(mult, d)| Sz::Gran { mult, d }),
        12 => (-2i8..=2).prop_map(Sz::ToGran),
        10 => (-2i8..=2).prop_map(Sz::Rem),
        4 => (0u32..=70_000).prop_map(Sz::Over),
        1 => Just(Sz::Huge),
    ]
}

fn align_strategy() -> impl Strategy<Value = u8> {
    prop_oneof![6 => 0u8..=4, 2 => 5u8..=8, 1 => 9u8..=12]
}

fn op_strategy() -> impl Strategy<Value = Op> {
    prop_oneof![
        30 => (sz_strategy(), align_strategy(), prop::bool::weighted(0.15), prop::bool::weighted(0.25))
            .prop_map(|(sz, al, zero, outer)| Op::Alloc { sz, al, zero, outer }),
        4 => (0u8..=4, prop_oneof![Just(1u16), 0u16..40, 0u16..9000])
            .prop_map(|(ty, count)| Op::Typed { ty, count }),
        18 => (any::<u8>(), sz_strategy(), align_strategy(), prop::bool::weighted(0.25))
            .prop_map(|(sel, sz, al, zero)| Op::Grow { sel, sz, al, zero }),
        5 => (prop_oneof![Just(0u16), Just(1000u16), 0u16..=1000], align_strategy())
            .prop_map(|(keep, al)| Op::Shrink { keep, al }),
        6 => Just(Op::Mark),
        6 => prop_oneof![3 => Just(0u8), 1 => any::<u8>()].prop_map(|sel| Op::Reset { sel }),
        3 => Just(Op::Decommit),
        4 => (prop_oneof![Just(0u16), 1u16..64, 0u16..20_000], prop::bool::weighted(0.25))
            .prop_map(|(cap, outer)| Op::VecNew { cap, outer }),
        10 => (any::<u8>(), sz_strategy()).prop_map(|(sel, n)| Op::VecPush { sel, n }),
        1 => any::<u8>().prop_map(|sel| Op::VecShrink { sel }),
        2 => prop_oneof![Just(0u16), 1u16..64, 0u16..10_000].prop_map(|cap| Op::StrNew { cap }),
        6 => (any::<u8>(), prop_oneof![0u16..40, 0u16..6000], 0u8..5)
            .prop_map(|(sel, n, how)| Op::StrPush { sel, n, how }),
        4 => any::<bool>().prop_map(|conflict| Op::ScratchOpen { conflict }),
        4 => Just(Op::ScratchClose),
    ]
}

/// Short scripted fragments for routes that random single ops reach rarely.
fn script_strategy() -> impl Strategy<Value = Vec<Op>> {
    let gran = || (1u8..=3, -1i8..=1).prop_map(|(mult, d)| Sz::Gran { mult, d });
    let alloc = |sz: Sz| Op::Alloc { sz, al: 0, zero: false, outer: false };
    prop_oneof![
        // commit, reset below, decommit, commit again
        (gran(), gran()).prop_map(move |(a, b)| vec![
            Op::Mark, alloc(a), Op::Reset { sel: 0 }, Op::Decommit, alloc(b)
        ]),
        // the same through a scratch borrow (release = reset + decommit)
        (gran(), gran(), any::<bool>()).prop_map(move |(a, b, conflict)| vec![
            Op::ScratchOpen { conflict }, alloc(a), Op::ScratchClose,
            Op::ScratchOpen { conflict }, alloc(b), Op::ScratchClose,
        ]),
        // grow a block that is no longer the tail
        (sz_strategy(), sz_strategy(), sz_strategy()).prop_map(move |(a, b, c)| vec![
            alloc(a), alloc(b), Op::Grow { sel: 254, sz: c, al: 0, zero: false }
        ]),
        // a vector interleaved with other allocations
        (1u16..300, sz_strategy(), sz_strategy()).prop_map(move |(cap, a, n)| vec![
            Op::VecNew { cap, outer: false }, Op::VecPush { sel: 255, n: Sz::Abs(u32::from(cap)) },
            alloc(a), Op::VecPush { sel: 255, n }
        ]),
    ]
}

fn case_strategy(max_ops: usize) -> impl Strategy<Value = Case> {
    let seg = prop_oneof![12 => op_strategy().prop_map(|o| vec![o]), 1 => script_strategy()];
    (
        prop::sample::select(vec![1u8, 1, 2, 2, 3, 4, 8, 16]),
        prop::sample::select(vec![1u8, 2, 4]),
        prop::collection::vec(seg, 0..max_ops),
    )
        .prop_map(|(chunks, scratch_chunks, segs)| Case {
            chunks,
            scratch_chunks,
            ops: segs.into_iter().flatten().collect(),
        })
}

fn classify(ctx: &mut ShardCtx, case: &Case, flags: u32, depth: usize) {
    for (bit, name) in FLAG_NAMES {
        if flags & bit != 0 {
            ctx.class(name);
        }
    }
    if depth > 0 {
        ctx.class(&format!("scratch depth {}", depth.min(4)));
    }
    ctx.class(&format!("capacity {} KiB", case.chunks as usize * 64));
    if flags & F_NONTRIVIAL != 0 {
        ctx.nontrivial(case.hash());
        // one sample class per history, so the few sample slots show different routes
        if case.ops.len() <= 12
            && let Some((_, name)) = FLAG_NAMES
                .iter()
                .find(|(bit, name)| flags & bit != 0 && !ctx.sample_classes.contains(*name))
        {
            ctx.sample(name, case.to_json());
        }
    } else {
        ctx.class("trivial history (none of the four non-trivial events)");
    }
}

impl Check for C11 {
    fn id(&self) -> &'static str {
        "C11"
    }

    fn rule(&self) -> String {
        "Generated: proptest histories of 0..16 segments (stage short) and 0..300 segments (stage long); a segment \
         is one random operation or, 1 in 13, a 3-6 operation script (commit/reset/decommit/commit, the same through a scratch borrow, grow of a \
         non-tail block, vector interleaved with allocations); each history runs on a fresh arena of 64 KiB..1 MiB and two \
         global scratch arenas of 64..256 KiB. Operations: allocate / allocate_zeroed(size, align 1..4096), \
         alloc_uninit / alloc_uninit_slice<u8..u128>, grow / grow_zeroed of a random live block (tail or not, \
         alignment never raised), shrink of the tail block, offset() mark, reset to a recorded mark <= offset, \
         decommit, Vec<u8,&Arena> try_reserve_exact / try_reserve+extend_from_slice / shrink_to_fit (tail only), \
         ArenaString with_capacity_in / push_str / push / push_repeat (only when the worst-case growth fits, \
         as the API aborts otherwise), properly nested scratch_arena(None | Some(current)) borrow and release, \
         allocations in the caller's arena while a scratch arena is open. Sizes: 0..64, boundary constants, \
         0..8 KiB, 0..300 KB, k*64 KiB+-1, up to the next 64 KiB boundary +-2, remaining capacity +-2, \
         capacity+1+k, Layout's maximum. Each history runs in a forked child against the shadow model; every \
         live block is filled with its own pseudo-random pattern and all live blocks are compared completely \
         after every operation. Non-trivial: the history crosses a 64 KiB commit boundary, or grows a non-tail \
         block (Allocator::grow directly or through Vec/ArenaString), or allocates into space released by a \
         reset / scratch release, or makes a request that exceeds capacity. Distinct by hash of the canonical \
         op list. Every 4th shard runs the optimised build (raw bump arena), the others the debug-assertion \
         build (debug wrapper, poisoning, borrow counter)."
            .into()
    }

    fn assumptions(&self) -> Vec<String> {
        vec![
            "caller preconditions are respected by construction: alignment is a power of two <= 4096; grow never raises the alignment; shrink only of the tail block; reset only to an offset observed through offset() that is <= the current offset; dead blocks are never touched; scratch borrows are released in LIFO order and only the most recent borrow of an underlying arena is used".into(),
            "a Vec/ArenaString reallocation is modelled from the capacity std reports afterwards (no assumption about std's growth policy), except that a failed try_reserve must be justified by max(2*cap, len+n, 8) not fitting (growth policy of the pinned toolchain)".into(),
            "exact commit size is not part of the contract: only offset <= commit <= capacity, 64 KiB granularity, and that every handed-out byte is readable and writable".into(),
            "a history that does not finish within 30 s is discarded as inconclusive (termination is not part of C11)".into(),
        ]
    }

    fn plan(&self, _tier: Tier) -> Vec<ShardSpec> {
        (0..16).map(|i| ShardSpec { bin: if i % 4 == 3 { Bin::Rel } else { Bin::Dbg } }).collect()
    }

    fn shard(&self, ctx: &mut ShardCtx) {
        let t = ctx.tier;
        let run = |ctx: &mut ShardCtx, stage: &str, cases: u32, max_ops: usize| {
            crate::prop::run(ctx, stage, cases, case_strategy(max_ops), |ctx, case| {
                let (outcome, flags, depth) = check_case(case);
                ctx.eval();
                if matches!(outcome, Outcome::Pass) {
                    classify(ctx, case, flags, depth);
                }
                if matches!(outcome, Outcome::Discard("timeout")) && !ctx.frozen {
                    ctx.inconclusive += 1;
                }
                outcome
            });
        };
        // short histories (small enough to be shown as samples) and long ones
        run(ctx, "short", t.pick(800, 16_000), 16);
        run(ctx, "long", t.pick(2_500, 50_000), 300);
    }

    fn replay(&self, _ctx: &mut ShardCtx, _stage: &str, input: &J) -> Outcome {
        match Case::from_json(&input["case"]) {
            Some(case) => check_case(&case).0,
            None => Outcome::Discard("unreadable replay input"),
        }
    }
}
