//! C12 - String pool exclusivity and conservation (stateful model test).
//!
//! Subjects (through the `verif` wrappers in src/arena/pool.rs):
//! (a) `SinglePool`: one `Pool` with a small geometry, where exhaustion, refill and reuse
//!     are reached within a few operations: all alloc/free words up to a length bound
//!     are enumerated, longer ones are random;
//! (b) `Set`: the real 20-class `PoolSet` (alloc, alloc_str, dealloc, contains).
//!
//! Oracle: an abstract model per class (live slots, free slots, first never-used slot),
//! evaluated in the forked child after every operation, plus a byte pattern in every
//! live buffer that is re-read after every operation.

use std::collections::{BTreeMap, BTreeSet};
use std::ptr::NonNull;
use std::time::Duration;

use naijascript::arena::Arena;
use naijascript::arena::pool_verif::{Set, SinglePool, class_count, class_of, slot_count, slot_size};
use proptest::prelude::*;
use serde_json::{Value as J, json};

use crate::c11::{check as pat_check, fill as pat_fill, progress, table};
use crate::ctx::{Failure, Outcome, ShardCtx, Tier};
use crate::driver::{Bin, Check, ShardSpec};
use crate::isolate;
use crate::util::Fnv;

pub struct C12;

const BOUNDARY_SIZES: [u32; 10] = [0, 1, 8, 9, 128, 129, 160, 161, 256, 257];
/// Arena bytes a Set history may consume through fallback allocations.
const FALLBACK_BUDGET: usize = 24 << 20;

pub const F_REUSE: u32 = 1;
pub const F_EXHAUST: u32 = 2;
pub const F_BOUNDARY: u32 = 4;
pub const F_OVERSIZE: u32 = 8;
pub const F_FALLBACK_RELEASE: u32 = 16;
pub const F_STR: u32 = 32;
pub const F_REFILL: u32 = 64;
pub const F_NONTRIVIAL: u32 = F_REUSE | F_EXHAUST | F_BOUNDARY;

const FLAG_NAMES: [(u32, &str); 7] = [
    (F_REUSE, "re-allocates a freed slot of the same class"),
    (F_EXHAUST, "exhausts a class (fallback / None)"),
    (F_BOUNDARY, "uses a class-boundary size"),
    (F_OVERSIZE, "request larger than 256 bytes"),
    (F_FALLBACK_RELEASE, "releases a fallback (non-pooled) buffer"),
    (F_STR, "alloc_str"),
    (F_REFILL, "refills a class after exhaustion"),
];

struct Bad {
    inv: &'static str,
    what: String,
}

type R<T> = Result<T, Bad>;

fn bad<T>(inv: &'static str, what: String) -> R<T> {
    Err(Bad { inv, what })
}

// -------------------------------------------------------------- the model --

/// Abstract state of one size class.
struct ClassModel {
    start: usize,
    slot: usize,
    count: u32,
    /// slot index -> buffer id
    live: BTreeMap<u32, usize>,
    free: BTreeSet<u32>,
    /// slots at or above are never-used
    bump: u32,
    was_exhausted: bool,
}

impl ClassModel {
    fn new(range: (usize, usize), slot: u32, count: u32) -> R<Self> {
        if range.1 - range.0 != slot as usize * count as usize || !range.0.is_multiple_of(8) {
            return bad(
                "geometry",
                format!("slot block [{:#x}, {:#x}) is not {count} slots of {slot} bytes, 8-aligned", range.0, range.1),
            );
        }
        Ok(Self {
            start: range.0,
            slot: slot as usize,
            count,
            live: BTreeMap::new(),
            free: BTreeSet::new(),
            bump: 0,
            was_exhausted: false,
        })
    }

    fn end(&self) -> usize {
        self.start + self.slot * self.count as usize
    }

    fn contains(&self, p: usize) -> bool {
        p >= self.start && p < self.end()
    }

    fn exhausted(&self) -> bool {
        self.free.is_empty() && self.bump >= self.count
    }

    fn conservation(&self) -> (u32, u32, u32, u32) {
        (self.live.len() as u32, self.free.len() as u32, self.count - self.bump, self.count)
    }

    /// A pooled buffer `[addr, addr+len)` was handed out for buffer `id`.
    fn on_alloc(&mut self, addr: usize, len: usize, id: usize, flags: &mut u32) -> R<u32> {
        if len != self.slot {
            return bad("length", format!("pooled buffer has length {len}, the slot size is {}", self.slot));
        }
        if addr < self.start || addr + len > self.end() {
            return bad(
                "in-block",
                format!("pooled buffer {addr:#x}+{len} is not inside its class block [{:#x}, {:#x})", self.start, self.end()),
            );
        }
        if !(addr - self.start).is_multiple_of(self.slot) {
            return bad("slot-boundary", format!("pooled buffer starts {} bytes into the block, slot size {}", addr - self.start, self.slot));
        }
        let idx = ((addr - self.start) / self.slot) as u32;
        if let Some(other) = self.live.get(&idx) {
            return bad("double-handout", format!("slot {idx} handed out for buffer #{id} is still owned by live buffer #{other}"));
        }
        if !self.free.is_empty() {
            if !self.free.remove(&idx) {
                return bad(
                    "reuse-free-slot",
                    format!("class has free slots {:?} but slot {idx} was handed out (first never-used slot: {})", self.free, self.bump),
                );
            }
            *flags |= F_REUSE;
            if self.was_exhausted {
                *flags |= F_REFILL;
            }
        } else {
            if idx != self.bump {
                return bad("next-virgin", format!("no free slot: expected the first never-used slot {}, got slot {idx}", self.bump));
            }
            self.bump += 1;
        }
        self.live.insert(idx, id);
        Ok(idx)
    }

    fn on_free(&mut self, idx: u32) {
        self.live.remove(&idx);
        self.free.insert(idx);
    }
}

struct Buf {
    addr: usize,
    len: usize,
    /// size passed to alloc (for dealloc)
    req: u32,
    /// (class, slot index) when pooled
    slot: Option<(u32, u32)>,
    seed: u32,
}

fn check_conservation(real: (u32, u32, u32, u32), m: &ClassModel, class: u32) -> R<()> {
    let want = m.conservation();
    if real != want || real.0 + real.1 + real.2 != real.3 {
        return bad(
            "conservation",
            format!("class {class}: (live, free, never-used, capacity) = {real:?}, model {want:?}"),
        );
    }
    Ok(())
}

fn check_pattern(b: &Buf, id: usize) -> R<()> {
    if let Some(i) = unsafe { pat_check(b.addr as *const u8, b.seed, 0, b.len) } {
        return bad("pattern", format!("live buffer #{id} at {:#x}+{} lost its pattern at byte {i}", b.addr, b.len));
    }
    Ok(())
}

// ---------------------------------------------------- subject (a): one pool --

/// Word letters: 0 = alloc, k >= 1 = free a live buffer (1 newest, 2 oldest, 3 middle,
/// k > 3: the (k mod live)-th in allocation order).
fn pick_live(live: &[usize], k: u8) -> usize {
    match k {
        1 => live.len() - 1,
        2 => 0,
        3 => live.len() / 2,
        k => k as usize % live.len(),
    }
}

#[derive(Debug, Clone, PartialEq)]
pub struct Single {
    pub slot: u32,
    pub count: u32,
    pub word: Vec<u8>,
}

fn run_single(arena: &Arena, slot: u32, count: u32, word: &[u8], mut at: impl FnMut(usize)) -> Result<u32, (usize, Bad)> {
    let mark = arena.offset();
    let pool = SinglePool::new(arena, slot, count);
    let mut flags = 0u32;
    let mut model = ClassModel::new(pool.block_range(), slot, count).map_err(|b| (0, b))?;
    let (abase, acap, _) = arena.verif_layout();
    if model.start < abase || model.end() > abase + acap {
        return Err((0, Bad { inv: "geometry", what: "slot block lies outside the backing arena".into() }));
    }
    let mut bufs: Vec<Buf> = Vec::new();
    let mut live: Vec<usize> = Vec::new();
    for (i, &letter) in word.iter().enumerate() {
        at(i);
        let step = (|| -> R<()> {
            if letter == 0 {
                let want_none = model.exhausted();
                match pool.alloc() {
                    None => {
                        if !want_none {
                            return bad("exhausted", format!("alloc returned None with {:?} (live, free, never-used, capacity)", model.conservation()));
                        }
                        model.was_exhausted = true;
                        flags |= F_EXHAUST;
                    }
                    Some(p) => {
                        if want_none {
                            return bad("exhausted", format!("alloc returned a buffer although all {count} slots are live"));
                        }
                        let id = bufs.len();
                        let addr = p.cast::<u8>().as_ptr() as usize;
                        let idx = model.on_alloc(addr, p.len(), id, &mut flags)?;
                        unsafe { pat_fill(addr as *mut u8, id as u32, 0, p.len()) };
                        bufs.push(Buf { addr, len: p.len(), req: slot, slot: Some((0, idx)), seed: id as u32 });
                        live.push(id);
                    }
                }
            } else if !live.is_empty() {
                let id = live.remove(pick_live(&live, letter));
                let b = &bufs[id];
                check_pattern(b, id)?;
                unsafe { pool.dealloc(NonNull::new(b.addr as *mut u8).expect("non-null")) };
                model.on_free(b.slot.expect("pooled").1);
            }
            check_conservation(pool.conservation(), &model, 0)?;
            for &id in &live {
                check_pattern(&bufs[id], id)?;
            }
            let mut probes = vec![model.start - 1, model.start, model.end() - 1, model.end()];
            if let Some(&id) = live.last() {
                probes.extend([bufs[id].addr, bufs[id].addr + bufs[id].len - 1]);
            }
            for p in probes {
                if pool.contains(p as *const u8) != model.contains(p) {
                    return bad(
                        "contains",
                        format!("contains(block start {:+}) = {}, block is {} bytes", p as i64 - model.start as i64, !model.contains(p), model.end() - model.start),
                    );
                }
            }
            Ok(())
        })();
        if let Err(b) = step {
            return Err((i, b));
        }
    }
    drop(pool);
    unsafe { arena.reset(mark) };
    Ok(flags)
}

/// Flags of a word computed from counts only (parent side, independent of the child).
fn sim_single(count: u32, word: &[u8]) -> u32 {
    let (mut live, mut free, mut bump, mut flags) = (0u32, 0u32, 0u32, 0u32);
    let mut was_exhausted = false;
    for &l in word {
        if l == 0 {
            if free > 0 {
                free -= 1;
                live += 1;
                flags |= F_REUSE;
                if was_exhausted {
                    flags |= F_REFILL;
                }
            } else if bump < count {
                bump += 1;
                live += 1;
            } else {
                flags |= F_EXHAUST;
                was_exhausted = true;
            }
        } else if live > 0 {
            live -= 1;
            free += 1;
        }
    }
    flags
}

fn single_json(s: &Single) -> J {
    json!({"kind": "single", "slot": s.slot, "count": s.count, "word": s.word})
}

fn letter_name(l: u8) -> &'static str {
    if l == 0 { "alloc" } else { "free" }
}

fn divergence(input: J, inv: &str, opkind: &str, what: String) -> Outcome {
    Outcome::Fail(Failure { sig: format!("model-divergence|{inv}|{opkind}"), what, input })
}

fn crash(input: J, iso: &isolate::Iso, opkind: &str, shown: &str) -> Outcome {
    let kind = iso.crash_kind().unwrap_or_else(|| "no result".into());
    if kind == "timeout" {
        return Outcome::Discard("timeout");
    }
    Outcome::Fail(Failure { sig: format!("crash|{kind}|{opkind}"), what: format!("{kind} during {shown}"), input })
}

/// One word against a fresh pool in its own child.
pub fn check_single(s: &Single) -> (Outcome, u32) {
    let _ = table();
    progress::set(u32::MAX);
    let iso = isolate::run(isolate::Opts { timeout: Duration::from_secs(20), ..Default::default() }, |out| {
        let arena = Arena::new(1 << 20).expect("arena");
        match run_single(&arena, s.slot, s.count, &s.word, |i| progress::set(i as u32)) {
            Ok(flags) => out.frame(format!("ok {flags}").as_bytes()),
            Err((i, b)) => out.frame(format!("bad\n{i}\n{}\n{}", b.inv, b.what).as_bytes()),
        }
    });
    let input = single_json(s);
    let geo = format!("pool of {} slots of {} bytes, word {:?}", s.count, s.slot, s.word);
    if let Some(f) = iso.frames.first() {
        let text = String::from_utf8_lossy(f).into_owned();
        if let Some(rest) = text.strip_prefix("ok ") {
            if iso.clean() {
                return (Outcome::Pass, rest.trim().parse().unwrap_or(0));
            }
        } else if let Some(rest) = text.strip_prefix("bad\n") {
            let mut it = rest.splitn(3, '\n');
            let i: usize = it.next().and_then(|x| x.parse().ok()).unwrap_or(0);
            let inv = it.next().unwrap_or("?").to_string();
            let what = it.next().unwrap_or("");
            let kind = s.word.get(i).map_or("setup", |&l| letter_name(l));
            return (divergence(input, &inv, kind, format!("{geo}, after letter #{i}: {what}")), 0);
        }
    }
    let at = progress::get();
    let kind = if at == u32::MAX { "setup-or-teardown" } else { s.word.get(at as usize).map_or("?", |&l| letter_name(l)) };
    (crash(input, &iso, kind, &format!("letter #{at} of {geo}")), 0)
}

// ------------------------------------------------ subject (b): the real Set --

#[derive(Debug, Clone, PartialEq)]
pub enum SetOp {
    Alloc { size: u32 },
    AllocStr { len: u32 },
    /// release the (sel mod live)-th live buffer (pooled or fallback)
    Free { sel: u16 },
    /// allocate `n` buffers of class `class` (its slot size, or with `low` its smallest size)
    Bulk { class: u8, n: u16, low: bool },
    /// release up to `n` live pooled buffers of the class, newest or oldest first
    BulkFree { class: u8, n: u16, oldest: bool },
    /// contains() at an interior address of a class block
    Probe { class: u8, off: u32 },
}

impl SetOp {
    fn kind(&self) -> &'static str {
        match self {
            SetOp::Alloc { .. } => "alloc",
            SetOp::AllocStr { .. } => "alloc_str",
            SetOp::Free { .. } => "free",
            SetOp::Bulk { .. } => "bulk_alloc",
            SetOp::BulkFree { .. } => "bulk_free",
            SetOp::Probe { .. } => "probe",
        }
    }

    fn to_json(&self) -> J {
        match *self {
            SetOp::Alloc { size } => json!(["alloc", size]),
            SetOp::AllocStr { len } => json!(["alloc_str", len]),
            SetOp::Free { sel } => json!(["free", sel]),
            SetOp::Bulk { class, n, low } => json!(["bulk", class, n, low]),
            SetOp::BulkFree { class, n, oldest } => json!(["bulk_free", class, n, oldest]),
            SetOp::Probe { class, off } => json!(["probe", class, off]),
        }
    }

    fn from_json(j: &J) -> Option<SetOp> {
        let a = j.as_array()?;
        let n = |i: usize| a.get(i).and_then(J::as_u64);
        let b = |i: usize| a.get(i).and_then(J::as_bool);
        Some(match a.first()?.as_str()? {
            "alloc" => SetOp::Alloc { size: n(1)? as u32 },
            "alloc_str" => SetOp::AllocStr { len: n(1)? as u32 },
            "free" => SetOp::Free { sel: n(1)? as u16 },
            "bulk" => SetOp::Bulk { class: n(1)? as u8, n: n(2)? as u16, low: b(3)? },
            "bulk_free" => SetOp::BulkFree { class: n(1)? as u8, n: n(2)? as u16, oldest: b(3)? },
            "probe" => SetOp::Probe { class: n(1)? as u8, off: n(2)? as u32 },
            _ => return None,
        })
    }
}

fn set_json(ops: &[SetOp]) -> J {
    json!({"kind": "set", "ops": ops.iter().map(SetOp::to_json).collect::<Vec<_>>()})
}

/// Documented mapping: the smallest class whose slot holds `size` bytes; none above 256.
fn model_class(size: u32) -> Option<u32> {
    (0..class_count()).find(|&c| slot_size(c) >= size)
}

struct SetExec<'a> {
    arena: &'a Arena,
    abase: usize,
    set: Set<'a>,
    classes: Vec<ClassModel>,
    bufs: Vec<Buf>,
    live: Vec<usize>,
    /// every fallback buffer ever handed out, released or not (address order)
    fallback: Vec<usize>,
    fallback_bytes: usize,
    flags: u32,
    exhausted_classes: BTreeSet<u32>,
}

impl<'a> SetExec<'a> {
    fn new(arena: &'a Arena) -> R<Self> {
        let set = Set::new(arena);
        let (abase, acap, _) = arena.verif_layout();
        let mut classes = Vec::new();
        for c in 0..class_count() {
            let m = ClassModel::new(set.block_range(c), slot_size(c), slot_count(c))?;
            if m.start < abase || m.end() > abase + arena.offset() || m.end() > abase + acap {
                return bad("geometry", format!("block of class {c} is not inside the allocated part of the arena"));
            }
            classes.push(m);
        }
        for (i, a) in classes.iter().enumerate() {
            for b in &classes[..i] {
                if a.start < b.end() && b.start < a.end() {
                    return bad("geometry", format!("slot blocks of two classes overlap (class {i})"));
                }
            }
        }
        Ok(Self {
            arena,
            abase,
            set,
            classes,
            bufs: Vec::new(),
            live: Vec::new(),
            fallback: Vec::new(),
            fallback_bytes: 0,
            flags: 0,
            exhausted_classes: BTreeSet::new(),
        })
    }

    fn model_contains(&self, p: usize) -> bool {
        self.classes.iter().any(|c| c.contains(p))
    }

    fn alloc_one(&mut self, size: u32, as_str: bool) -> R<()> {
        if self.fallback_bytes + size as usize > FALLBACK_BUDGET {
            return Ok(());
        }
        let want = model_class(size);
        if class_of(size) != want {
            return bad("class-mapping", format!("size {size} maps to class {:?}, smallest fitting class is {want:?}", class_of(size)));
        }
        if BOUNDARY_SIZES.contains(&size) {
            self.flags |= F_BOUNDARY;
        }
        let id = self.bufs.len();
        let seed = id as u32;
        let off_before = self.arena.offset();
        let (addr, len) = if as_str {
            self.flags |= F_STR;
            let bytes: Vec<u8> = crate::c11::pattern(seed ^ 0x55aa, 0, size as usize).into_iter().map(|b| b'a' + b % 26).collect();
            let text = String::from_utf8(bytes).expect("ascii");
            let s = self.set.alloc_str(&text);
            if s.len() != size as usize || s.as_bytes() != text.as_bytes() {
                return bad("alloc_str-contents", format!("alloc_str of {size} bytes returned {:?}", s.as_str()));
            }
            let addr = s.as_ptr() as usize;
            std::mem::forget(s);
            (addr, None)
        } else {
            let p = self.set.alloc(size);
            (p.cast::<u8>().as_ptr() as usize, Some(p.len()))
        };
        if len.is_some_and(|l| l < size as usize) {
            return bad("length", format!("alloc({size}) returned a buffer of {} bytes", len.unwrap_or(0)));
        }
        let pooled = want.filter(|&c| !self.classes[c as usize].exhausted());
        let slot = if let Some(c) = pooled {
            let m = &mut self.classes[c as usize];
            let idx = m.on_alloc(addr, len.unwrap_or(m.slot), id, &mut self.flags)?;
            if self.arena.offset() != off_before {
                return bad("arena-growth", format!("a pooled allocation moved the arena offset {off_before} -> {}", self.arena.offset()));
            }
            Some((c, idx))
        } else {
            match want {
                Some(c) => {
                    self.flags |= F_EXHAUST;
                    self.classes[c as usize].was_exhausted = true;
                    self.exhausted_classes.insert(c);
                }
                None => self.flags |= F_OVERSIZE,
            }
            let l = len.unwrap_or(size as usize);
            if l > 0 {
                if let Some(c) = self.classes.iter().position(|m| addr < m.end() && m.start < addr + l) {
                    return bad("fallback-in-pool", format!("fallback buffer for size {size} overlaps the slot block of class {c}"));
                }
                if self.set.contains(addr as *const u8) || self.set.contains((addr + l - 1) as *const u8) {
                    return bad("fallback-contains", format!("contains() is true for a fallback buffer (size {size})"));
                }
                if let Some(&prev) = self.fallback.last()
                    && addr < self.bufs[prev].addr + self.bufs[prev].len
                {
                    return bad("fallback-recycled", format!("fallback buffer for size {size} overlaps memory of an earlier fallback buffer #{prev}"));
                }
            }
            if addr < self.abase + off_before || self.arena.offset() != addr - self.abase + l {
                return bad("fallback-fresh", format!("fallback buffer for size {size} is not fresh arena memory (offset {off_before} -> {}, buffer at {})", self.arena.offset(), addr.wrapping_sub(self.abase)));
            }
            self.fallback.push(id);
            self.fallback_bytes += l;
            None
        };
        let own = if as_str { size as usize } else { len.unwrap_or(0) };
        unsafe { pat_fill(addr as *mut u8, seed, 0, own) };
        self.bufs.push(Buf { addr, len: own, req: size, slot, seed });
        self.live.push(id);
        Ok(())
    }

    fn free_one(&mut self, id: usize) -> R<()> {
        let b = &self.bufs[id];
        check_pattern(b, id)?;
        unsafe { self.set.dealloc(NonNull::new(b.addr as *mut u8).expect("non-null"), b.req) };
        match b.slot {
            Some((c, idx)) => self.classes[c as usize].on_free(idx),
            None => self.flags |= F_FALLBACK_RELEASE,
        }
        Ok(())
    }

    fn verify(&self) -> R<()> {
        for (c, m) in self.classes.iter().enumerate() {
            check_conservation(self.set.conservation(c as u32), m, c as u32)?;
        }
        for &id in &self.live {
            check_pattern(&self.bufs[id], id)?;
        }
        // fallback memory is never recycled: its bytes stay, released or not
        for &id in &self.fallback {
            check_pattern(&self.bufs[id], id)?;
        }
        for (c, m) in self.classes.iter().enumerate() {
            for (name, p) in [("start-1", m.start - 1), ("start", m.start), ("end-1", m.end() - 1), ("end", m.end())] {
                let want = self.model_contains(p);
                if self.set.contains(p as *const u8) != want {
                    return bad("contains", format!("contains(class {c} block {name}) = {}, model says {want}", !want));
                }
            }
        }
        Ok(())
    }

    fn apply(&mut self, op: &SetOp) -> R<()> {
        match *op {
            SetOp::Alloc { size } => self.alloc_one(size, false)?,
            SetOp::AllocStr { len } => self.alloc_one(len, true)?,
            SetOp::Free { sel } => {
                if !self.live.is_empty() {
                    let id = self.live.remove(sel as usize % self.live.len());
                    self.free_one(id)?;
                }
            }
            SetOp::Bulk { class, n, low } => {
                let c = u32::from(class) % class_count();
                let size = if !low { slot_size(c) } else if c == 0 { 0 } else { slot_size(c - 1) + 1 };
                for _ in 0..n {
                    self.alloc_one(size, false)?;
                }
            }
            SetOp::BulkFree { class, n, oldest } => {
                let c = u32::from(class) % class_count();
                let mut ids: Vec<usize> = self
                    .live
                    .iter()
                    .copied()
                    .filter(|&id| self.bufs[id].slot.is_some_and(|(k, _)| k == c))
                    .collect();
                if !oldest {
                    ids.reverse();
                }
                ids.truncate(n as usize);
                for id in ids {
                    self.live.retain(|&x| x != id);
                    self.free_one(id)?;
                }
            }
            SetOp::Probe { class, off } => {
                let m = &self.classes[class as usize % self.classes.len()];
                let p = m.start + off as usize % (m.end() - m.start);
                if !self.set.contains(p as *const u8) {
                    return bad("contains", format!("contains() is false {} bytes into the block of class {}", p - m.start, class));
                }
            }
        }
        self.verify()
    }
}

fn run_set(ops: &[SetOp]) -> Result<(u32, Vec<u32>), (usize, Bad)> {
    let arena = Arena::new(64 << 20).expect("arena");
    let mut ex = SetExec::new(&arena).map_err(|b| (0, b))?;
    ex.verify().map_err(|b| (0, b))?;
    for (i, op) in ops.iter().enumerate() {
        progress::set(i as u32);
        ex.apply(op).map_err(|b| (i, b))?;
    }
    Ok((ex.flags, ex.exhausted_classes.iter().copied().collect()))
}

/// One Set history in its own child. Returns (outcome, flags, exhausted classes).
pub fn check_set(ops: &[SetOp]) -> (Outcome, u32, Vec<u32>) {
    let _ = table();
    progress::set(u32::MAX);
    let iso = isolate::run(isolate::Opts { timeout: Duration::from_secs(30), ..Default::default() }, |out| {
        match run_set(ops) {
            Ok((flags, ex)) => {
                let list: Vec<String> = ex.iter().map(u32::to_string).collect();
                out.frame(format!("ok {flags} {}", list.join(",")).as_bytes());
            }
            Err((i, b)) => out.frame(format!("bad\n{i}\n{}\n{}", b.inv, b.what).as_bytes()),
        }
    });
    let input = set_json(ops);
    if let Some(f) = iso.frames.first() {
        let text = String::from_utf8_lossy(f).into_owned();
        if let Some(rest) = text.strip_prefix("ok ") {
            if iso.clean() {
                let mut it = rest.split(' ');
                let flags = it.next().and_then(|x| x.parse().ok()).unwrap_or(0);
                let ex = it.next().unwrap_or("").split(',').filter_map(|x| x.parse().ok()).collect();
                return (Outcome::Pass, flags, ex);
            }
        } else if let Some(rest) = text.strip_prefix("bad\n") {
            let mut it = rest.splitn(3, '\n');
            let i: usize = it.next().and_then(|x| x.parse().ok()).unwrap_or(0);
            let inv = it.next().unwrap_or("?").to_string();
            let what = it.next().unwrap_or("");
            let (kind, shown) = ops.get(i).map_or(("setup", String::new()), |o| (o.kind(), o.to_json().to_string()));
            return (divergence(input, &inv, kind, format!("PoolSet, after op #{i} {shown}: {what}")), 0, Vec::new());
        }
    }
    let at = progress::get();
    let (kind, shown) = match ops.get(at as usize) {
        Some(o) if at != u32::MAX => (o.kind(), format!("op #{at} {} of a PoolSet history", o.to_json())),
        _ => ("setup-or-teardown", "PoolSet set-up".to_string()),
    };
    (crash(input, &iso, kind, &shown), 0, Vec::new())
}

// ------------------------------------------------------------------ stages --

/// Geometry used for pools of `count` slots in the enumeration.
const ENUM_SLOT_SIZES: [u32; 8] = [8, 16, 24, 64, 136, 200, 248, 256];

/// The `v`-th word of length `len` over `letters` letters (base-`letters` digits).
fn word_of(len: u32, mut v: u64, letters: u8) -> Vec<u8> {
    let mut w = vec![0u8; len as usize];
    for d in w.iter_mut().rev() {
        *d = (v % u64::from(letters)) as u8;
        v /= u64::from(letters);
    }
    w
}

fn word_hash(slot: u32, count: u32, word: &[u8]) -> u64 {
    let mut h = Fnv::new();
    h.write_u64(u64::from(slot) << 32 | u64::from(count));
    h.write(word);
    h.finish()
}

fn count_single(ctx: &mut ShardCtx, s: &Single, flags: u32) {
    for (bit, name) in FLAG_NAMES {
        if flags & bit != 0 {
            ctx.class(&format!("single pool: {name}"));
        }
    }
    if flags & F_NONTRIVIAL != 0 {
        ctx.nontrivial(word_hash(s.slot, s.count, &s.word));
    }
}

/// All words over {alloc, free newest, free oldest[, free middle]} up to `max_len`, against
/// pools of 1..=8 slots; this shard takes every `of`-th word.
fn exhaustive_stage(ctx: &mut ShardCtx, letters: u8, max_len: u32) {
    let _ = table();
    ctx.exhaustive = Some(true);
    let total: u64 = (0..=max_len).map(|l| u64::from(letters).pow(l)).sum();
    ctx.note(format!(
        "exhaustive sub-space: every word of length 0..={max_len} over {letters} letters (alloc, free newest, \
         free oldest{}) = {total} words, each against a fresh pool of 1, 2, .., 8 slots (slot sizes {ENUM_SLOT_SIZES:?})",
        if letters > 3 { ", free middle" } else { "" }
    ));
    let mut deaths = 0u32;
    for count in 1..=8u32 {
        let slot = ENUM_SLOT_SIZES[count as usize - 1];
        let mut mine: Vec<Vec<u8>> = Vec::new();
        let mut n = 0u64;
        for len in 0..=max_len {
            for v in 0..u64::from(letters).pow(len) {
                if n % u64::from(ctx.of) == u64::from(ctx.shard) {
                    mine.push(word_of(len, v, letters));
                }
                n += 1;
            }
        }
        let mut from = 0usize;
        while from < mine.len() {
            progress::set(u32::MAX);
            let batch = &mine[from..];
            let iso = isolate::run(isolate::Opts { timeout: Duration::from_secs(300), ..Default::default() }, |out| {
                let arena = Arena::new(1 << 20).expect("arena");
                let mut reported = 0;
                for (wi, w) in batch.iter().enumerate() {
                    progress::set(wi as u32);
                    if let Err((i, b)) = run_single(&arena, slot, count, w, |_| {})
                        && reported < 4
                    {
                        out.frame(json!({"w": wi, "i": i, "inv": b.inv, "what": b.what}).to_string().as_bytes());
                        reported += 1;
                        // the arena may hold a half-used pool: start over
                        unsafe { arena.reset(0) };
                    }
                }
                out.frame(b"done");
            });
            let finished = iso.clean() && iso.frames.last().is_some_and(|f| f == b"done");
            for f in &iso.frames {
                if let Ok(doc) = serde_json::from_slice::<J>(f)
                    && let Some(wi) = doc["w"].as_u64()
                {
                    let s = Single { slot, count, word: batch[wi as usize].clone() };
                    let i = doc["i"].as_u64().unwrap_or(0) as usize;
                    let kind = s.word.get(i).map_or("setup", |&l| letter_name(l));
                    let o = divergence(
                        single_json(&s),
                        doc["inv"].as_str().unwrap_or("?"),
                        kind,
                        format!(
                            "pool of {count} slots of {slot} bytes, word {:?}, after letter #{i}: {}",
                            s.word,
                            doc["what"].as_str().unwrap_or("")
                        ),
                    );
                    ctx.handle("single-exh", o);
                }
            }
            let done_upto = if finished {
                batch.len()
            } else if deaths >= 32 {
                // safety valve on a badly broken tree: the violations are already recorded
                ctx.note(format!(
                    "enumeration for {count} slots stopped after {deaths} child deaths; {} words not run",
                    batch.len()
                ));
                break;
            } else {
                deaths += 1;
                // the child died inside word `at`: re-run that word alone, continue behind it
                let at = progress::get();
                let at = if at == u32::MAX { 0 } else { at as usize };
                if iso.end == isolate::End::Timeout {
                    ctx.inconclusive += 1;
                } else if let Some(w) = batch.get(at) {
                    let (o, _) = check_single(&Single { slot, count, word: w.clone() });
                    ctx.handle("single-exh", o);
                }
                (at + 1).min(batch.len())
            };
            for w in &batch[..done_upto] {
                let s = Single { slot, count, word: w.clone() };
                ctx.eval();
                count_single(ctx, &s, sim_single(count, w));
            }
            from += done_upto;
        }
        if let Some(w) = mine.iter().rev().find(|w| sim_single(count, w) & F_REFILL != 0) {
            ctx.sample(
                &format!("enumerated word, {count} slots"),
                single_json(&Single { slot, count, word: w.clone() }),
            );
        }
    }
}

fn single_strategy() -> impl Strategy<Value = Single> {
    let letter = prop_oneof![11 => Just(0u8), 3 => Just(1u8), 2 => Just(2u8), 2 => Just(3u8), 2 => 4u8..=11];
    (1u32..=32, 1u32..=8, prop::collection::vec(letter, 11..120))
        .prop_map(|(s, count, word)| Single { slot: s * 8, count, word })
}

fn size_strategy() -> impl Strategy<Value = u32> {
    prop_oneof![
        5 => prop::sample::select(BOUNDARY_SIZES.to_vec()),
        2 => 0u32..=264,
        1 => prop::sample::select(vec![7u32, 15, 16, 17, 24, 120, 127, 136, 137, 159, 191, 192, 193, 224, 225, 255]),
        1 => 257u32..5000,
    ]
}

fn set_op_strategy() -> impl Strategy<Value = SetOp> {
    let bulk_class = || prop_oneof![5 => 16u8..=19, 1 => 0u8..=19];
    let bulk_n = || prop_oneof![2 => 505u16..=520, 1 => 1u16..=600];
    prop_oneof![
        40 => size_strategy().prop_map(|size| SetOp::Alloc { size }),
        10 => size_strategy().prop_map(|len| SetOp::AllocStr { len }),
        30 => any::<u16>().prop_map(|sel| SetOp::Free { sel }),
        4 => (bulk_class(), bulk_n(), any::<bool>()).prop_map(|(class, n, low)| SetOp::Bulk { class, n, low }),
        4 => (bulk_class(), bulk_n(), any::<bool>())
            .prop_map(|(class, n, oldest)| SetOp::BulkFree { class, n, oldest }),
        4 => (0u8..20, any::<u32>()).prop_map(|(class, off)| SetOp::Probe { class, off }),
    ]
}

fn set_hash(ops: &[SetOp]) -> u64 {
    let mut h = Fnv::new();
    h.write(set_json(ops).to_string().as_bytes());
    h.finish()
}

impl Check for C12 {
    fn id(&self) -> &'static str {
        "C12"
    }

    fn rule(&self) -> String {
        "Generated: (1) bounded-exhaustive: every word over {alloc, free newest live, free oldest live} up to \
         length 10 (thorough tier: plus 'free middle', up to length 9) against a fresh Pool of 1, 2, .., 8 slots \
         (one slot size per slot count, 8..256 bytes); (2) proptest words of 11..120 letters (alloc 55%, free of \
         the newest / oldest / middle / k-th live buffer) against a Pool of 1..8 slots of 8..256 bytes; (3) proptest \
         histories of 0..160 operations on the real 20-class PoolSet behind a 64 MiB arena: alloc(size), \
         alloc_str(len), release of a random live buffer (pooled or fallback), bulk allocation of 505..520 or 1..600 \
         buffers of one class (mostly the 512-slot classes 16..19, with the largest or smallest size of the class), \
         bulk release newest- or oldest-first, contains() probes; sizes: 50% from {0,1,8,9,128,129,160,161,256,257}, \
         else 0..264, other slot-size neighbours, 257..5000. After every operation, in the forked child: the model's \
         (live, free, never-used, capacity) against the real counters of every class, the byte pattern of every live \
         buffer and of every fallback buffer ever handed out, contains() at start-1, start, end-1, end of every class \
         block. Non-trivial: the history re-allocates a freed slot of the same class, or exhausts a class (None / \
         arena fallback), or uses one of the ten boundary sizes. Distinct by hash of (geometry, word) resp. of the op \
         list. Every 4th shard runs the optimised build, the others the debug-assertion build (slot poisoning and \
         the pool's own assertions active)."
            .into()
    }

    fn assumptions(&self) -> Vec<String> {
        vec![
            "the harness respects the caller contract: a buffer is released once, with the size it was requested with, and is not touched afterwards (debug builds poison freed slots and assert the poison on reuse)".into(),
            "reuse order among free slots is not asserted (the implementation is LIFO): a re-used address must be one of the class's free slots, a first use the lowest never-used slot".into(),
            "size -> class mapping is the documented one: the smallest class whose slot holds the request (8-byte spacing to 128, 32-byte spacing to 256), none above 256".into(),
            "fallback memory is compared forever, released or not: the pool never recycles it".into(),
        ]
    }

    fn plan(&self, _tier: Tier) -> Vec<ShardSpec> {
        (0..16).map(|i| ShardSpec { bin: if i % 4 == 3 { Bin::Rel } else { Bin::Dbg } }).collect()
    }

    fn shard(&self, ctx: &mut ShardCtx) {
        let t = ctx.tier;
        match t {
            Tier::Quick => exhaustive_stage(ctx, 3, 10),
            Tier::Thorough => exhaustive_stage(ctx, 4, 9),
        }
        crate::prop::run(ctx, "single", t.pick(5_000, 100_000), single_strategy(), |ctx, s| {
            let (o, flags) = check_single(s);
            ctx.eval();
            if matches!(o, Outcome::Pass) {
                count_single(ctx, s, flags);
                if flags & F_REFILL != 0 && s.word.len() <= 24 {
                    ctx.sample("random long word with refill", single_json(s));
                }
            }
            o
        });
        crate::prop::run(
            ctx,
            "set",
            t.pick(3_000, 60_000),
            prop::collection::vec(set_op_strategy(), 0..160),
            |ctx, ops| {
                let (o, flags, exhausted) = check_set(ops);
                ctx.eval();
                if matches!(o, Outcome::Pass) {
                    for (bit, name) in FLAG_NAMES {
                        if flags & bit != 0 {
                            ctx.class(&format!("PoolSet: {name}"));
                        }
                    }
                    for c in &exhausted {
                        ctx.class(&format!("PoolSet: class {c} exhausted"));
                    }
                    if flags & F_NONTRIVIAL != 0 {
                        ctx.nontrivial(set_hash(ops));
                        if ops.len() <= 10 {
                            let cls = if flags & F_EXHAUST != 0 { "PoolSet history with exhaustion" } else { "PoolSet history" };
                            ctx.sample(cls, set_json(ops));
                        }
                    }
                }
                if matches!(o, Outcome::Discard("timeout")) && !ctx.frozen {
                    ctx.inconclusive += 1;
                }
                o
            },
        );
    }

    fn replay(&self, _ctx: &mut ShardCtx, _stage: &str, input: &J) -> Outcome {
        match input["kind"].as_str() {
            Some("single") => {
                let word: Option<Vec<u8>> =
                    input["word"].as_array().map(|a| a.iter().filter_map(J::as_u64).map(|x| x as u8).collect());
                match (input["slot"].as_u64(), input["count"].as_u64(), word) {
                    (Some(slot), Some(count), Some(word)) if slot > 0 && count > 0 => {
                        check_single(&Single { slot: slot as u32, count: count as u32, word }).0
                    }
                    _ => Outcome::Discard("unreadable replay input"),
                }
            }
            Some("set") => {
                match input["ops"].as_array().and_then(|a| a.iter().map(SetOp::from_json).collect::<Option<Vec<_>>>()) {
                    Some(ops) => check_set(&ops).0,
                    None => Outcome::Discard("unreadable replay input"),
                }
            }
            _ => Outcome::Discard("unreadable replay input"),
        }
    }
}
