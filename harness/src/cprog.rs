//! C02 (reclamation differential), C03 (pruning differential), C04 (lexical scoping vs R),
//! C05 (array value semantics vs R): same pipeline as C01 with other profiles and oracles.

use serde_json::{Value as J, json};

use crate::ctx::{Outcome, ShardCtx};
use crate::driver::Check;
use crate::nsgen::refint::Ending;
use crate::pipeline::{Mode, ModeResult, NVal, Obs};
use crate::progs::*;

#[derive(Clone, Copy, PartialEq, Eq)]
pub enum Kind {
    Reclaim,
    Prune,
    Scope,
    Arrays,
}

pub struct ProgCheck {
    pub id: &'static str,
    pub kind: Kind,
}

pub static C02: ProgCheck = ProgCheck { id: "C02", kind: Kind::Reclaim };
pub static C03: ProgCheck = ProgCheck { id: "C03", kind: Kind::Prune };
pub static C04: ProgCheck = ProgCheck { id: "C04", kind: Kind::Scope };
pub static C05: ProgCheck = ProgCheck { id: "C05", kind: Kind::Arrays };

impl ProgCheck {
    fn profile(&self) -> &'static str {
        match self.kind {
            Kind::Reclaim => "reclaim",
            Kind::Prune => "prune",
            Kind::Scope => "scope",
            Kind::Arrays => "arrays",
        }
    }
}

fn obs_summary(o: &Obs) -> String {
    format!("{} values, ending {:?}: {}", o.output.len(), o.rt_error().unwrap_or("normal"), show_vals(&o.output))
}

/// Differential comparison of two observations of the same program.
fn diff_obs(a: &Obs, an: &str, b: &Obs, bn: &str) -> Result<(), (String, String)> {
    if a.stage != b.stage {
        return Err((
            "mismatch|acceptance".into(),
            format!("accepted in one configuration only: {an}={:?} {bn}={:?}", a.stage, b.stage),
        ));
    }
    let n = a.output.len().min(b.output.len());
    for i in 0..n {
        if a.output[i] != b.output[i] {
            let stale = matches!(&a.output[i], NVal::Str(s) if s.contains(&0xDD) || s.contains(&0xCD))
                || matches!(&b.output[i], NVal::Str(s) if s.contains(&0xDD) || s.contains(&0xCD));
            return Err((
                format!("mismatch|output{}", if stale { "|poison-bytes" } else { "" }),
                format!(
                    "printed value #{i} differs: {an}: {} vs {bn}: {}\n{an}: {}\n{bn}: {}",
                    a.output[i].show(),
                    b.output[i].show(),
                    obs_summary(a),
                    obs_summary(b)
                ),
            ));
        }
    }
    if a.output.len() != b.output.len() {
        return Err((
            "mismatch|output-count".into(),
            format!("{an}: {}\n{bn}: {}", obs_summary(a), obs_summary(b)),
        ));
    }
    if a.rt_error() != b.rt_error() {
        return Err((
            format!("mismatch|ending|{}|{}", a.rt_error().unwrap_or("normal"), b.rt_error().unwrap_or("normal")),
            format!("{an}: {}\n{bn}: {}", obs_summary(a), obs_summary(b)),
        ));
    }
    Ok(())
}

fn resource(o: &Obs) -> bool {
    o.accepted() && is_resource_ending(o)
}

impl ProgCheck {
    pub fn check_case(&self, ctx: &mut ShardCtx, tape: &[u8], profile: &str) -> Outcome {
        let p = prepare(tape, profile);
        ctx.eval();
        let r = if self.kind == Kind::Prune {
            // differential only: programs need not be intent-type correct (reported runtime
            // errors are part of the property), so the reference interpreter is not consulted
            if !p.resolved.ok() {
                ctx.note("generator produced a program the reference static checker rejects; case discarded");
                return Outcome::Discard("generator-invalid (harness bug, see notes)");
            }
            crate::nsgen::refint::RefRun {
                output: Vec::new(),
                ending: Ending::Normal,
                ambiguous: None,
                stats: Default::default(),
            }
        } else {
            match preflight(ctx, &p) {
                Ok(r) => r,
                Err(o) => return o,
            }
        };
        classify_features(ctx, &p.features);
        let src = &p.source;
        let failf = |sig: String, what: String| fail(sig, what, tape, profile, src);
        match self.kind {
            Kind::Reclaim => {
                // baselines (reclamation off) run first: their measured work bounds the other runs
                let modes = [Mode::_P, Mode::FP, Mode::__, Mode::F_];
                let res = run_impl_budget(src, &modes, false, WORK_BUDGET, &[None, Some(0), None, Some(2)]);
                // crashes: only those that reclamation introduces belong to this property
                for (on, off) in [(1usize, 0usize), (3, 2)] {
                    match (&res[on], &res[off]) {
                        // the run without reclamation is the baseline: if it does not stop either, the
                        // program is outside the compared domain (U8)
                        (_, ModeResult::Crash(b)) if is_work_budget(b) => {
                            return Outcome::Discard("U8 work budget exceeded without reclamation");
                        }
                        (ModeResult::Crash(c), ModeResult::Ok(_)) if is_work_budget(c) => {
                            return failf(
                                "runs-on-with-reclamation".into(),
                                format!(
                                    "mode {} (reclamation on) did more than twice the work of mode {} (reclamation off), which ended: it has stopped following the program",
                                    modes[on].name(),
                                    modes[off].name()
                                ),
                            );
                        }
                        (ModeResult::Crash(c), ModeResult::Ok(_)) => {
                            if is_arena_exhaustion(c) || c == "timeout" {
                                ctx.inconclusive += 1;
                                return Outcome::Discard("U8 arena exhaustion / watchdog");
                            }
                            return failf(
                                format!("crash-with-reclamation|{c}"),
                                format!(
                                    "mode {} (reclamation on) crashed with {c}; mode {} (reclamation off) ran normally",
                                    modes[on].name(),
                                    modes[off].name()
                                ),
                            );
                        }
                        (_, ModeResult::Crash(c)) => {
                            if is_arena_exhaustion(c) || c == "timeout" {
                                ctx.inconclusive += 1;
                                return Outcome::Discard("U8 arena exhaustion / watchdog");
                            }
                            ctx.note(format!("crash without reclamation ({c}): not a C02 matter, see C01/C06"));
                            return Outcome::Discard("crash independent of reclamation");
                        }
                        _ => {}
                    }
                }
                let o: Vec<&Obs> = res.iter().map(|m| m.obs().unwrap()).collect();
                if o.iter().any(|x| resource(x)) {
                    return Outcome::Discard("U8 implementation stack budget");
                }
                let c = &o[1].counters;
                let prints_heap = o[1].output.iter().any(|v| matches!(v, NVal::Str(_) | NVal::Arr(_)));
                if c.frame_resets >= 1 && c.pool_returns >= 1 && c.promotions >= 1 && prints_heap {
                    ctx.nontrivial(source_hash(src));
                    ctx.sample("reclamation exercised", J::String(src.clone()));
                }
                if c.frame_resets > 0 {
                    ctx.class("run had frame resets");
                }
                if c.pool_returns > 0 {
                    ctx.class("run returned pool slots");
                }
                if c.promotions > 0 {
                    ctx.class("run promoted strings");
                }
                for (on, off) in [(1usize, 0usize), (3, 2)] {
                    if let Err((sig, what)) = diff_obs(o[on], modes[on].name(), o[off], modes[off].name()) {
                        // blame: which side agrees with the reference?
                        let blame = match compare_with_reference(&r, o[off], "off") {
                            Ok(()) => "the run without reclamation matches the reference interpreter",
                            Err(_) => "neither side was checked against the reference here",
                        };
                        return failf(sig, format!("{what}\n({blame})"));
                    }
                }
                Outcome::Pass
            }
            Kind::Prune => {
                let modes = [Mode::F_, Mode::FP];
                let res = run_impl_budget(src, &modes, true, WORK_BUDGET, &[None, Some(0)]);
                match (&res[0], &res[1]) {
                    // a program that does not stop when every statement is executed is outside the
                    // compared domain ("runs ending in resource exhaustion are not compared")
                    (ModeResult::Crash(a), _) if is_work_budget(a) => {
                        return Outcome::Discard("U8 work budget exceeded without the plan");
                    }
                    (ModeResult::Ok(_), ModeResult::Crash(c)) if is_work_budget(c) => {
                        return failf(
                            "runs-on-with-plan".into(),
                            "executing every statement the program ends; with the optimisation plan it did more than twice that work and was still running".to_string(),
                        );
                    }
                    _ => {}
                }
                for (i, m) in res.iter().enumerate() {
                    if let ModeResult::Crash(c) = m {
                        if is_arena_exhaustion(c) || c == "timeout" {
                            ctx.inconclusive += 1;
                            return Outcome::Discard("U8 arena exhaustion / watchdog");
                        }
                        if i == 1 && res[0].obs().is_some() {
                            return failf(
                                format!("crash-with-plan|{c}"),
                                format!("the run with the optimisation plan crashed ({c}); without it the program ran"),
                            );
                        }
                        ctx.note(format!("crash without plan ({c}): not a C03 matter, see C01/C06"));
                        return Outcome::Discard("crash independent of pruning");
                    }
                }
                let (noplan, plan) = (res[0].obs().unwrap(), res[1].obs().unwrap());
                if resource(noplan) || resource(plan) {
                    return Outcome::Discard("U8 implementation stack budget");
                }
                if !noplan.accepted() {
                    // valid by construction: a rejection is C01/C09's finding
                    return Outcome::Discard("rejected by the front end (see C01/C09)");
                }
                let plan_size = plan.plan.map_or(0, |(a, b)| a + b);
                if plan_size > 0 {
                    ctx.class("plan non-empty");
                }
                if plan.counters.skipped_stmts > 0 {
                    ctx.class("statement skipped at run time");
                }
                if plan.counters.pruned_function_defs > 0 {
                    ctx.class("function definition pruned at run time");
                }
                if plan_size > 0 && (plan.counters.skipped_stmts > 0 || plan.counters.pruned_function_defs > 0) {
                    ctx.nontrivial(source_hash(src));
                    ctx.sample("plan applied", J::String(src.clone()));
                }
                // (2) a statement reported unreachable never executes (run without plan)
                if let Some(bad) = noplan.executed.iter().find(|id| noplan.unreachable.contains(id)) {
                    return failf(
                        "unreachable-executed".into(),
                        format!("statement id {bad} is reported unreachable by the analysis but was executed without the plan"),
                    );
                }
                if let Err((sig, what)) = diff_obs(noplan, "no plan", plan, "with plan") {
                    return failf(sig, what);
                }
                Outcome::Pass
            }
            Kind::Scope | Kind::Arrays => {
                let modes = [Mode::FP, Mode::F_];
                // R's step count bounds the work only when R followed the program to its end
                let budget = if r.ambiguous.is_none() { budget_for(r.stats.steps) } else { WORK_BUDGET };
                let res = run_impl_budget(src, &modes, false, budget, &[]);
                for m in &res {
                    if let ModeResult::Crash(c) = m {
                        if is_arena_exhaustion(c) || c == "timeout" {
                            ctx.inconclusive += 1;
                            return Outcome::Discard("U8 arena exhaustion / watchdog");
                        }
                        if is_work_budget(c) && r.ambiguous.is_some() {
                            return Outcome::Discard("U8 work budget (reference stopped at an unspecified zone)");
                        }
                        if is_work_budget(c) {
                            return failf(
                                format!("runs-on|reference ends {}", ending_name(&r.ending)),
                                format!(
                                    "the reference interpreter ends ({}) after {} steps; the implementation was still running after {budget} executed statements + loop iterations",
                                    ending_name(&r.ending),
                                    r.stats.steps
                                ),
                            );
                        }
                        return failf(format!("crash|{c}"), format!("the interpreter crashed ({c})"));
                    }
                }
                let o: Vec<&Obs> = res.iter().map(|m| m.obs().unwrap()).collect();
                if o.iter().any(|x| resource(x)) {
                    return Outcome::Discard("U8 implementation stack budget");
                }
                let s = &r.stats;
                if self.kind == Kind::Scope {
                    if s.shadowed_reference > 0 {
                        ctx.class("referenced a name bound in >= 2 live scopes");
                    }
                    if s.shadowed_path_mutation > 0 {
                        ctx.class("array changed through a path while its name was bound in >= 2 live scopes");
                    }
                    if s.capture_reads + s.capture_writes > 0 {
                        ctx.class("captured variable accessed at run time");
                    }
                    if s.recursion_live_activations >= 2 {
                        ctx.class(">= 2 live activations of one function");
                    }
                    if s.recursion_live_activations >= 3 {
                        ctx.class(">= 3 live activations of one function");
                    }
                    if s.shadowed_reference > 0
                        && (s.capture_reads + s.capture_writes > 0 || s.recursion_live_activations >= 2)
                    {
                        ctx.nontrivial(source_hash(src));
                        ctx.sample("shadowing + capture/recursion", J::String(src.clone()));
                    }
                } else {
                    let arrays_printed = r.output.iter().filter(|v| matches!(v, crate::nsgen::refint::RVal::Arr(_))).count();
                    if s.array_mutations > 0 {
                        ctx.class("array mutated at run time");
                    }
                    if s.array_mutations > 0 && p.features.array_copies > 0 && arrays_printed >= 2 {
                        ctx.nontrivial(source_hash(src));
                        ctx.sample("mutation with live copies", J::String(src.clone()));
                    }
                }
                if matches!(r.ending, Ending::Error(_)) {
                    ctx.class("ends with runtime error");
                }
                if let Some(zone) = r.ambiguous {
                    ctx.discard(&format!("unspecified zone (prefix still compared): {zone}"));
                }
                for (i, obs) in o.iter().enumerate() {
                    if let Err((sig, what)) = compare_with_reference(&r, obs, modes[i].name()) {
                        return failf(sig, what);
                    }
                }
                Outcome::Pass
            }
        }
    }
}

impl Check for ProgCheck {
    fn id(&self) -> &'static str {
        self.id
    }

    fn rule(&self) -> String {
        match self.kind {
            Kind::Reclaim => "Programs from the `reclaim` profile of nsgen (strings of every pool size class and > 256 bytes, \
                arrays of strings, values flowing through loops, calls, returns of locals/parameters/captured variables, \
                captured reassignment, overwrite inside loops) are run on the same source in four configurations: frame \
                arena + pool (reclamation on) with/without plan, and a single arena (nothing ever reset or recycled) \
                with/without plan; debug-assertion build, so reset frames and recycled slots are poisoned. Oracle: printed \
                values and ending with reclamation on equal those with reclamation off; a crash that only occurs with \
                reclamation on is a violation. Non-trivial (measured by hook counters in the FP run): >= 1 frame reset AND \
                >= 1 pool slot returned AND >= 1 promotion, and a string or array value was printed. Distinct by source. \
                A run with reclamation on may do at most twice the work (executed statements + loop iterations, hook \
                counter) of the run without; more means it has stopped following the program. Second stage (host values): \
                process command builders whose arg/env/cwd/stdin calls are spread over loop iterations, at top level or on \
                parameters inside a function, then run against a helper child that reports the argv, environment, cwd and \
                stdin it received; oracle = C15's contract model (a builder corrupted by a frame reset shows up as a wrong \
                report or a crash)."
                .into(),
            Kind::Prune => "Programs from the `prune` profile of nsgen (statements after return/comot/next, dead stores and \
                unused declarations with pure / may-trap / impure right-hand sides, unused functions, functions called only \
                from dead code, functions reading and writing variables of enclosing scopes, recursion, locals interleaved \
                with nested function definitions, planted runtime errors) are run with plan = None and with the resolver's \
                optimisation plan (same AST, same facts). Oracle: identical printed values and ending; and, using the \
                executed-statement log (hook) and reachability recomputed through the public analysis API, no statement the \
                analysis calls unreachable is executed when nothing is pruned. Non-trivial: plan non-empty AND at least one \
                statement or function definition actually skipped at run time (hook counters). Distinct by source."
                .into(),
            Kind::Scope => "Programs from the `scope` profile of nsgen (names drawn from a pool of three per namespace, nesting to \
                depth 6, same-block redeclaration, parameters and locals with caller's names, recursion and mutual recursion \
                with several live activations, nested functions reading and assigning variables of every enclosing level, \
                placeholders, forward calls, inner functions shadowing outer ones; literals tagged with their declaration \
                site) against the reference interpreter R with lexical environments, in mode FP and in mode F- (no pruning). \
                Non-trivial (measured by R at run time): a name bound in >= 2 simultaneously live scopes was referenced AND \
                (a captured variable was accessed OR a function had >= 2 live activations). Distinct by source."
                .into(),
            Kind::Arrays => "Programs from the `arrays` profile of nsgen: histories of copy (make/assign from a variable, store in \
                another array, pass, return), push, pop, reverse, a[i] get v, a[i][j] get v, a[i].push(v) over arrays of \
                numbers, strings (pool-sized and long), booleans and nested arrays, inside and outside loops and functions, \
                with a dump of ALL visible arrays after every mutation. Oracle: reference interpreter R (arrays are Vec, copied \
                on every read); every dump compared, in modes FP and F-. Non-trivial: R saw >= 1 in-place mutation, the program \
                copies an array out of a variable, and >= 2 array values were printed. Distinct by source."
                .into(),
        }
    }

    fn assumptions(&self) -> Vec<String> {
        match self.kind {
            Kind::Reclaim => vec![
                "a stale read is only visible if the stale bytes reach an output, a condition or a trap (poisoning + observation epilogues raise the odds)".into(),
                "crashes that also occur with reclamation off are routed to C01/C06".into(),
            ],
            Kind::Prune => vec![
                "runs ending in resource exhaustion are not compared (U8)".into(),
                "programs that do not stop within the work budget when every statement is executed are not compared; a program that stops then but runs on with the plan is a violation (deterministic work count, not wall-clock)".into(),
            ],
            _ => vec!["reference interpreter R restates docs/*.md; unspecified zones are never asserted".into()],
        }
    }

    fn shard(&self, ctx: &mut ShardCtx) {
        let cases = match self.kind {
            Kind::Reclaim => ctx.tier.pick(5_000, 80_000),
            Kind::Prune => ctx.tier.pick(7_000, 100_000),
            Kind::Scope => ctx.tier.pick(7_000, 100_000),
            Kind::Arrays => ctx.tier.pick(6_000, 80_000),
        };
        let profile = self.profile();
        crate::prop::run(ctx, profile, cases, tape_strategy(700), |ctx, tape| {
            self.check_case(ctx, tape, profile)
        });
        if matches!(self.kind, Kind::Scope | Kind::Arrays) {
            // captured (nested) arrays changed through paths while a namesake is live in the caller
            let n = match self.kind {
                Kind::Scope => ctx.tier.pick(2_000, 30_000),
                _ => ctx.tier.pick(3_000, 40_000),
            };
            crate::prop::run(ctx, "scope-arrays", n, tape_strategy(700), |ctx, tape| {
                self.check_case(ctx, tape, "scope-arrays")
            });
        }
        if self.kind == Kind::Prune {
            self.summary_cycles(ctx);
        }
        if self.kind == Kind::Reclaim {
            // host values (process command builders) are frame-allocated too: builder calls on a
            // parameter inside a loop, then a run that reports the argv/env/cwd/stdin it received
            // (C15's contract model is the oracle; the helper child is the observer)
            let n = ctx.tier.pick(250, 4_000);
            crate::c15::run_budgeted(ctx, "host-values", n, crate::c15::reclaim_case_strategy(), 1, crate::c15::check_case);
        }
        if matches!(self.kind, Kind::Reclaim | Kind::Prune) {
            tape_triage(ctx, |ctx, tape, profile| self.check_case(ctx, tape, profile));
        }
    }

    fn replay(&self, ctx: &mut ShardCtx, _stage: &str, input: &J) -> Outcome {
        if let Some(src) = input.get("raw_source").and_then(J::as_str) {
            return self.check_source(ctx, src);
        }
        if self.kind == Kind::Reclaim
            && let Some(case) = input.get("case").and_then(crate::c15::Case::from_json)
        {
            return crate::c15::check_case(ctx, &case);
        }
        match tape_from_input(input) {
            Some((tape, profile)) => self.check_case(ctx, &tape, &profile),
            None => Outcome::Discard("unreadable replay input"),
        }
    }
}

impl ProgCheck {
    /// Bounded-exhaustive family for the interprocedural summaries: a recursion cycle of k
    /// functions (k = 2..6, definitions in three orders) in which exactly one member, `far` calls
    /// away from the entry, reads or assigns a variable of the enclosing scope - silently, so that
    /// all members have the same effect class - while the caller stores to that variable right
    /// before the call (read kinds) or calls the entry from an unused declaration (write kind).
    fn summary_cycles(&self, ctx: &mut ShardCtx) {
        let mut idx = 0u32;
        for k in 2usize..=6 {
            for far in 0..k {
                for kind in 0..4u8 {
                    for order in 0..3u8 {
                        for context in 0..3u8 {
                            idx += 1;
                            if idx % ctx.of != ctx.shard {
                                continue;
                            }
                            let mut defs: Vec<String> = Vec::new();
                            // kind 3: an acyclic chain of parameterless functions (nothing in them can
                            // fail), member `far` assigns the enclosing variable
                            for i in 0..k {
                                if kind != 3 {
                                    break;
                                }
                                let touch = if i == far { "finished get true\n" } else { "" };
                                let ret = if i + 1 < k { format!("cy{}()", i + 1) } else { "1".to_string() };
                                defs.push(format!("do cy{i}() start\n{touch}return {ret}\nend\n"));
                            }
                            for i in 0..k {
                                if kind == 3 {
                                    break;
                                }
                                let next = (i + 1) % k;
                                let touch = if i == far {
                                    match kind {
                                        0 => "if to say (mode na \"loud\") start\nreturn 100 add cy".to_string() + &format!("{next}(n minus 1)\nend\n"),
                                        1 => "make lbl get \"m={mode}\"\nif to say (lbl na \"m=loud\") start\nreturn 100 add cy".to_string() + &format!("{next}(n minus 1)\nend\n"),
                                        _ => "finished get true\n".to_string(),
                                    }
                                } else {
                                    String::new()
                                };
                                defs.push(format!(
                                    "do cy{i}(n) start\nif to say (n small pass 1) start\nreturn 0\nend\n{touch}return cy{next}(n minus 1)\nend\n"
                                ));
                            }
                            match order {
                                1 => defs.reverse(),
                                2 => defs.rotate_left(k / 2),
                                _ => {}
                            }
                            let arg = if kind == 3 { String::new() } else { (2 * k).to_string() };
                            let body = if kind < 2 {
                                // the store must survive: a member of the cycle reads `mode`
                                format!("make mode get \"quiet\"\n{}shout(cy0({}))\nmode get \"loud\"\nshout(cy0({}))\n", defs.concat(), 2 * k, 2 * k)
                            } else {
                                // the call must survive: a member of the cycle assigns `finished`
                                format!("make finished get false\n{}make ignored get cy0({arg})\nshout(finished)\n", defs.concat())
                            };
                            let src = match context {
                                0 => body,
                                1 => format!("do outer() start\n{body}return 0\nend\nshout(outer())\n"),
                                // variable and cycle at script level, the store / the unused call inside
                                // a function: the variable's owner is not the function holding the statement
                                _ if kind < 2 => format!(
                                    "make mode get \"quiet\"\n{}shout(cy0({n}))\ndo outer() start\nmode get \"loud\"\nreturn cy0({n})\nend\nshout(outer())\n",
                                    defs.concat(),
                                    n = 2 * k
                                ),
                                _ => format!(
                                    "make finished get false\n{}do outer() start\nmake ignored get cy0({arg})\nreturn 0\nend\nshout(outer())\nshout(finished)\n",
                                    defs.concat()
                                ),
                            };
                            ctx.eval();
                            ctx.nontrivial(source_hash(&src));
                            ctx.class("summary cycle family (k functions, capture `far` calls from the entry)");
                            let o = self.check_source(ctx, &src);
                            ctx.handle("summary-cycles", o);
                        }
                    }
                }
            }
        }
    }

    /// Differential oracles on hand-written source (regression inputs without a tape).
    pub fn check_source(&self, _ctx: &mut ShardCtx, src: &str) -> Outcome {
        let mk = |sig: String, what: String| {
            Outcome::Fail(crate::ctx::Failure {
                sig,
                what: format!("{what}\n--- program ---\n{src}"),
                input: json!({"raw_source": src}),
            })
        };
        match self.kind {
            Kind::Reclaim => {
                let modes = [Mode::FP, Mode::_P];
                let res = run_impl(src, &modes, false);
                match (&res[0], &res[1]) {
                    (ModeResult::Crash(c), ModeResult::Ok(_)) => {
                        mk(format!("crash-with-reclamation|{c}"), format!("crash with reclamation on: {c}"))
                    }
                    (ModeResult::Ok(a), ModeResult::Ok(b)) => match diff_obs(a, "FP", b, "-P") {
                        Ok(()) => Outcome::Pass,
                        Err((s, w)) => mk(s, w),
                    },
                    (_, ModeResult::Crash(c)) => {
                        // regression inputs are known-good programs: any crash is a failure
                        mk(format!("crash|{c}"), format!("crash even without reclamation: {c}"))
                    }
                }
            }
            Kind::Prune => {
                let modes = [Mode::F_, Mode::FP];
                let res = run_impl(src, &modes, true);
                match (&res[0], &res[1]) {
                    (ModeResult::Ok(_), ModeResult::Crash(c)) => {
                        mk(format!("crash-with-plan|{c}"), format!("crash with the plan: {c}"))
                    }
                    (ModeResult::Ok(a), ModeResult::Ok(b)) => {
                        if let Some(bad) = a.executed.iter().find(|id| a.unreachable.contains(id)) {
                            return mk("unreachable-executed".into(), format!("statement id {bad} executed"));
                        }
                        match diff_obs(a, "no plan", b, "with plan") {
                            Ok(()) => Outcome::Pass,
                            Err((s, w)) => mk(s, w),
                        }
                    }
                    (ModeResult::Crash(c), _) => {
                        mk(format!("crash|{c}"), format!("crash even without the plan: {c}"))
                    }
                }
            }
            _ => Outcome::Discard("raw source replay is only defined for the differential checks"),
        }
    }
}
