//! Known findings: committed list of genuine, unrepaired defects, keyed by signature.
//!
//! `known_findings.json` is read-only at run time. An *open* entry tolerates
//! exactly its signature; a `fixed` entry suppresses nothing.

use serde_json::Value as J;

use crate::util::verif_root;

#[derive(Debug, Clone)]
pub struct Finding {
    pub id: String,
    pub property: String,
    /// Full signature `PROP|kind|message|class`. A trailing `*` makes it a prefix match.
    pub signature: String,
    pub what: String,
    pub replay: Option<String>,
}

#[derive(Debug, Clone, Default)]
pub struct Known {
    pub open: Vec<Finding>,
}

impl Known {
    pub fn load(prop: &str) -> Known {
        let path = verif_root().join("known_findings.json");
        let Ok(text) = std::fs::read_to_string(&path) else {
            return Known::default();
        };
        let Ok(doc) = serde_json::from_str::<J>(&text) else {
            eprintln!("known_findings.json is not valid JSON; treating as empty");
            return Known::default();
        };
        let mut open = Vec::new();
        if let Some(list) = doc.get("findings").and_then(J::as_array) {
            for f in list {
                let s = |k: &str| f.get(k).and_then(J::as_str).unwrap_or("").to_string();
                if s("status") != "open" || s("property") != prop {
                    continue;
                }
                open.push(Finding {
                    id: s("id"),
                    property: s("property"),
                    signature: s("signature"),
                    what: s("what"),
                    replay: f.get("replay").and_then(J::as_str).map(str::to_string),
                });
            }
        }
        Known { open }
    }

    /// Returns the finding id whose signature matches `full_sig`.
    pub fn matches(&self, full_sig: &str) -> Option<String> {
        for f in &self.open {
            if let Some(prefix) = f.signature.strip_suffix('*') {
                if full_sig.starts_with(prefix) {
                    return Some(f.id.clone());
                }
            } else if f.signature == full_sig {
                return Some(f.id.clone());
            }
        }
        None
    }

    pub fn get(&self, id: &str) -> Option<&Finding> {
        self.open.iter().find(|f| f.id == id)
    }
}
