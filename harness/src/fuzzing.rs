//! In-process oracles for the libFuzzer targets (fuzz/). No fork: libFuzzer's -fork mode
//! isolates crashes; every artifact is re-run afterwards through the isolated, strict
//! oracles of the checks (see `Check::replay` and the `fuzz-triage` stages).

use naijascript::arena::Arena;

use crate::c13::{Case, eval_case};
use crate::nsgen::refint::Ending;
use crate::pipeline::{Mode, RunOpts, run_source};
use crate::progs::{compare_with_reference, is_resource_ending, prepare, reference};

/// One tape case: reference comparison (C01/C04/C05), reclamation differential (C02),
/// pruning differential (C03). Returns Err(description) on any disagreement.
pub fn tape_case(tape: &[u8], profile: &str) -> Result<(), String> {
    let p = prepare(tape, profile);
    if !p.resolved.ok() {
        return Ok(());
    }
    let r = reference(&p);
    if matches!(r.ending, Ending::IllTyped(_) | Ending::Budget) {
        return Ok(());
    }
    // small arenas keep the per-iteration cost low; exhaustion aborts are ignored by triage
    let opts = |m: Mode| RunOpts { persistent_cap: 64 << 20, frame_cap: 32 << 20, ..RunOpts::new(m) };
    let fp = run_source(&p.source, opts(Mode::FP));
    if fp.accepted() && is_resource_ending(&fp) {
        return Ok(());
    }
    compare_with_reference(&r, &fp, "FP").map_err(|(sig, what)| format!("C01 {sig}: {what}\n{}", p.source))?;
    let off = run_source(&p.source, opts(Mode::_P));
    if off.accepted() && is_resource_ending(&off) {
        return Ok(());
    }
    if fp.output != off.output || fp.rt_error() != off.rt_error() {
        return Err(format!(
            "C02 reclamation changes behaviour: on {} ending {:?}; off {} ending {:?}\n{}",
            crate::progs::show_vals(&fp.output),
            fp.rt_error(),
            crate::progs::show_vals(&off.output),
            off.rt_error(),
            p.source
        ));
    }
    let noplan = run_source(&p.source, opts(Mode::F_));
    if noplan.accepted() && is_resource_ending(&noplan) {
        return Ok(());
    }
    if fp.output != noplan.output || fp.rt_error() != noplan.rt_error() {
        return Err(format!(
            "C03 pruning changes behaviour: with plan {} ending {:?}; without {} ending {:?}\n{}",
            crate::progs::show_vals(&fp.output),
            fp.rt_error(),
            crate::progs::show_vals(&noplan.output),
            noplan.rt_error(),
            p.source
        ));
    }
    Ok(())
}

fn take_str(data: &[u8], pos: &mut usize, max: usize) -> String {
    // length byte, then that many bytes; invalid UTF-8 is replaced (keeps the target total)
    let n = usize::from(data.get(*pos).copied().unwrap_or(0)) % (max + 1);
    *pos += 1;
    let end = (*pos + n).min(data.len());
    let s = String::from_utf8_lossy(&data[(*pos).min(data.len())..end]).into_owned();
    *pos = end;
    s
}

pub fn strings_case(data: &[u8]) -> Result<(), String> {
    if data.len() > 600 {
        return Ok(());
    }
    let mut pos = 0;
    let needle = take_str(data, &mut pos, 48);
    let repl = take_str(data, &mut pos, 6);
    let hay = String::from_utf8_lossy(&data[pos.min(data.len())..]).into_owned();
    let arena = Arena::new(8 << 20).map_err(|e| format!("arena {e}"))?;
    let case = Case::Search { hay, needle, repl };
    eval_case(&case, &arena).map_err(|(sig, what)| format!("C13 {sig}: {what}"))
}
