//! C18 - Exceeding an analysis budget only disables optimisation, never correctness.
//!
//! Parametric program families, one per analysis limit, each with *analysis bait* (unused
//! variable, dead store, statement after return, unused function) and a known output. For every
//! family the size at which the limit warning first appears is located by a generated search
//! (guided by the warning itself), starting from a committed hint; the oracle is checked at every
//! probed size, in particular just below, at and above the threshold.

use std::time::Duration;

use proptest::prelude::*;
use serde_json::{Value as J, json};

use crate::ctx::{Failure, Outcome, ShardCtx};
use crate::driver::Check;
use crate::pipeline::{Mode, NVal, Obs, RunOpts};
use crate::util::hash_str;

pub struct C18;

pub const LIMITS: [(&str, u64); 11] = [
    ("functions", 16_384),
    ("locals", 131_072),
    ("scopes", 131_072),
    ("statements", 262_144),
    ("cfg ops", 262_144),
    ("ops in one function", 262_144),
    ("cfg blocks", 524_288),
    ("blocks in one function", 65_536),
    ("direct user calls", 262_144),
    ("summary events", 16_777_216),
    ("liveness events", 33_554_432),
];

fn limit_of(metric: &str) -> u64 {
    LIMITS.iter().find(|(m, _)| *m == metric).map_or(0, |(_, l)| *l)
}

/// Independent counts of the directly countable metrics of a family instance.
#[derive(Debug, Clone, Default)]
pub struct Counts {
    pub functions: u64,
    pub locals: u64,
    pub scopes: u64,
    pub statements: u64,
    pub calls: u64,
}

impl Counts {
    fn summary_events(&self) -> u64 {
        self.functions * (self.functions + 2 * self.locals + 2)
    }
    /// First exceeded countable metric in the implementation's documented check order
    /// (cfg ops / blocks / liveness are derived and not predicted here).
    fn first_exceeded(&self) -> Option<&'static str> {
        if self.functions > limit_of("functions") {
            return Some("functions");
        }
        if self.locals > limit_of("locals") {
            return Some("locals");
        }
        if self.scopes > limit_of("scopes") {
            return Some("scopes");
        }
        if self.statements > limit_of("statements") {
            return Some("statements");
        }
        if self.calls > limit_of("direct user calls") {
            return Some("direct user calls");
        }
        if self.summary_events() > limit_of("summary events") {
            return Some("summary events");
        }
        None
    }
}

const BAIT: &str = "make bait_unused get 1\n\
make bait_store get 1\n\
bait_store get 2\n\
shout(bait_store)\n\
do bait_unused_fn() start\n    return 1\nend\n\
do bait_ret() start\n    return 1\n    shout(99)\nend\n\
shout(bait_ret())\n";

/// A small ordinary program appended after the sized part of every instance: its values depend on
/// lexical binding of calls (nested calls, nested definitions, a block-local function with the name
/// of a top-level one that is dynamically but not lexically in scope), captures and recursion.
const KERNEL: &str = "do k_rate() start\n    return 1\nend\n\
do k_pick(a, b) start\n    return a add b\nend\n\
do k_price(n) start\n    return k_pick(k_pick(n times k_rate(), 0), k_pick(0, k_pick(0, 0)))\nend\n\
do k_outer(a) start\n    do k_inner(b) start\n        do k_deep(c) start\n            return c add a\n        end\n        return k_deep(b) add a\n    end\n    return k_inner(k_inner(a))\nend\n\
do k_fact(n) start\n    if to say (n small pass 2) start\n        return 1\n    end\n    return n times k_fact(n minus 1)\nend\n\
make k_total get k_price(10)\n\
start\n    do k_rate() start\n        return 100\n    end\n    k_total get k_total add k_price(10)\n    shout(k_total)\n    shout(k_rate())\n\
    start\n        do k_pick(a, b) start\n            return 7\n        end\n        shout(k_price(3))\n        shout(k_pick(1, 2))\n    end\nend\n\
shout(k_outer(2))\nshout(k_fact(5))\n";

const KERNEL_EXPECT: [f64; 6] = [20.0, 100.0, 3.0, 7.0, 10.0, 120.0];

fn kernel_counts() -> Counts {
    // 9 functions; locals: a b | n | a | b | c | n | k_total | a b; scopes: 2 per function + 2 bare
    // blocks + 1 if-block; statements: 9 defs, 10 returns, 1 if, 1 make, 2 blocks, 1 assignment, 6 shouts;
    // calls: 5 in k_price, 2 in k_outer, 1 in k_inner, 1 in k_fact, 7 at script level / in blocks
    Counts { functions: 9, locals: 10, scopes: 21, statements: 30, calls: 16 }
}

fn bait_counts() -> Counts {
    // root + 2 functions; 2 locals; scopes: root block + 2 x (parameter scope + body block);
    // statements: 4 + def + return + def + return + shout + shout
    Counts { functions: 3, locals: 2, scopes: 5, statements: 10, calls: 1 }
}

pub struct Instance {
    pub src: String,
    pub counts: Counts,
    /// values the program must print, in order
    pub expect: Vec<f64>,
}

#[derive(Debug, Clone, Copy, PartialEq, Eq)]
pub enum Family {
    Functions,
    Locals,
    Scopes,
    Statements,
    Calls,
    SummaryEvents,
    CfgBlocks,
    BlocksInOneFunction,
    LivenessEvents,
}

pub const FAMILIES: [Family; 9] = [
    Family::Functions,
    Family::Locals,
    Family::Scopes,
    Family::Statements,
    Family::Calls,
    Family::SummaryEvents,
    Family::CfgBlocks,
    Family::BlocksInOneFunction,
    Family::LivenessEvents,
];

impl Family {
    pub fn name(self) -> &'static str {
        match self {
            Family::Functions => "functions",
            Family::Locals => "locals",
            Family::Scopes => "scopes",
            Family::Statements => "statements",
            Family::Calls => "direct user calls",
            Family::SummaryEvents => "summary events",
            Family::CfgBlocks => "cfg blocks",
            Family::BlocksInOneFunction => "blocks in one function",
            Family::LivenessEvents => "liveness events",
        }
    }

    /// Committed hint of the threshold (first size with a limit warning) and the search range.
    fn hint(self) -> (u64, u64, u64) {
        match self {
            // (hint, lo, hi)
            Family::Functions => (4_072, 1, 20_000),
            Family::Locals => (131_061, 1_000, 140_000),
            Family::Scopes => (131_046, 1_000, 140_000),
            Family::Statements => (262_103, 1_000, 270_000),
            Family::Calls => (262_128, 1_000, 270_000),
            Family::SummaryEvents => (4_072, 1, 20_000),
            Family::CfgBlocks => (131_031, 1_000, 262_000),
            Family::BlocksInOneFunction => (21_845, 100, 70_000),
            Family::LivenessEvents => (33_521, 100, 200_000),
        }
    }

    pub fn build(self, n: u64) -> Instance {
        let mut s = String::from(BAIT);
        let mut c = bait_counts();
        let mut expect = vec![2.0, 1.0];
        match self {
            Family::Functions | Family::SummaryEvents => {
                // n tiny, never-called functions
                for i in 0..n {
                    s.push_str(&format!("do f{i}() start\nend\n"));
                }
                c.functions += n;
                c.scopes += 2 * n;
                c.statements += n;
            }
            Family::Locals => {
                // parameters of four empty functions
                let per = n / 4;
                let mut left = n;
                for k in 0..4 {
                    let m = if k == 3 { left } else { per };
                    left -= m;
                    let ps: Vec<String> = (0..m).map(|i| format!("p{k}_{i}")).collect();
                    s.push_str(&format!("do g{k}({}) start\nend\n", ps.join(", ")));
                }
                c.functions += 4;
                c.locals += n;
                c.scopes += 8;
                c.statements += 4;
            }
            Family::Scopes => {
                // inside a never-taken branch: counted by the analysis, not executed
                s.push_str("if to say (false) start\n");
                for _ in 0..n {
                    s.push_str("start\nend\n");
                }
                s.push_str("end\n");
                c.scopes += n + 1;
                c.statements += n + 1;
            }
            Family::Statements => {
                s.push_str("if to say (false) start\n");
                for _ in 0..n {
                    s.push_str("shout(1)\n");
                }
                s.push_str("end\n");
                c.scopes += 1;
                c.statements += n + 1;
            }
            Family::Calls => {
                s.push_str("do z() start\n    return 0\nend\n");
                c.functions += 1;
                c.scopes += 2;
                c.statements += 2;
                let per = 64u64;
                // all but the first statement sit in a never-taken branch (counted, not executed)
                let mut left = n;
                let mut first = true;
                while left > 0 {
                    let m = left.min(per);
                    left -= m;
                    let calls: Vec<&str> = (0..m).map(|_| "z()").collect();
                    s.push_str(&format!("shout({})\n", calls.join(" add ")));
                    c.statements += 1;
                    if first {
                        expect.push(0.0);
                        first = false;
                        s.push_str("if to say (false) start\n");
                        c.statements += 1;
                        c.scopes += 1;
                    }
                }
                if !first {
                    s.push_str("end\n");
                }
                c.calls += n;
            }
            Family::CfgBlocks => {
                // eight functions, n `if` statements in total
                let per = n / 8;
                let mut left = n;
                for k in 0..8 {
                    let m = if k == 7 { left } else { per };
                    left -= m;
                    s.push_str(&format!("do b{k}(c) start\n"));
                    for _ in 0..m {
                        s.push_str("jasi (c) start\nend\n");
                    }
                    s.push_str("end\n");
                }
                c.functions += 8;
                c.locals += 8;
                c.scopes += 16 + n;
                c.statements += 8 + n;
            }
            Family::BlocksInOneFunction => {
                s.push_str("do b(c) start\n");
                for _ in 0..n {
                    s.push_str("if to say (c) start\nend\n");
                }
                s.push_str("end\n");
                c.functions += 1;
                c.locals += 1;
                c.scopes += 2 + n;
                c.statements += 1 + n;
            }
            Family::LivenessEvents => {
                // one function with 1000 parameters and n straight-line statements
                let ps: Vec<String> = (0..1000).map(|i| format!("q{i}")).collect();
                s.push_str(&format!("do live({}) start\n", ps.join(", ")));
                for _ in 0..n {
                    s.push_str("shout(q0)\n");
                }
                s.push_str("end\n");
                c.functions += 1;
                c.locals += 1000;
                c.scopes += 2;
                c.statements += 1 + n;
            }
        }
        s.push_str(KERNEL);
        let k = kernel_counts();
        c.functions += k.functions;
        c.locals += k.locals;
        c.scopes += k.scopes;
        c.statements += k.statements;
        c.calls += k.calls;
        expect.extend_from_slice(&KERNEL_EXPECT);
        s.push_str("shout(42)\n");
        c.statements += 1;
        expect.push(42.0);
        Instance { src: s, counts: c, expect }
    }
}

#[derive(Debug, Clone)]
pub struct Probe {
    /// Some(metric, observed, limit) when the resource-limit warning is present
    pub limit: Option<(String, u64, u64)>,
}

fn parse_limit(o: &Obs) -> Option<(String, u64, u64)> {
    for d in &o.front {
        if d.code == "analysis" {
            // "<message> for <metric> (observed N, limit M)"
            let text = d.labels.first().map(|l| l.0.clone()).unwrap_or_default();
            let metric = text.split(" for ").nth(1)?.split(" (observed").next()?.to_string();
            let nums: Vec<u64> = text
                .split(|c: char| !c.is_ascii_digit())
                .filter(|x| !x.is_empty())
                .filter_map(|x| x.parse().ok())
                .collect();
            if nums.len() >= 2 {
                return Some((metric, nums[nums.len() - 2], nums[nums.len() - 1]));
            }
        }
    }
    None
}

/// Runs one instance and checks the whole oracle. Ok(probe) or Err(failure signature, text).
pub fn probe(family: Family, n: u64) -> Result<Probe, (String, String)> {
    let inst = family.build(n);
    let mk = |mode: Mode| RunOpts {
        log_stmts: false,
        persistent_cap: 6 << 30,
        frame_cap: 1 << 30,
        ..RunOpts::new(mode)
    };
    let name = family.name();
    // one front-end pass, both modes on the same AST (the front end dominates for these sizes)
    let src = &inst.src;
    let modes = [mk(Mode::FP), mk(Mode::F_)];
    let iso = crate::isolate::run(
        crate::isolate::Opts { timeout: Duration::from_secs(400), keep_stdio: false },
        |out| {
            let (obs, measures) = crate::pipeline::run_source_shared_measured(src, &modes, true);
            for o in obs {
                out.frame(&o.encode());
            }
            let mut m = Vec::new();
            for v in measures.unwrap_or([u64::MAX; 11]) {
                m.extend_from_slice(&v.to_le_bytes());
            }
            out.frame(&m);
        },
    );
    let decoded: Vec<Obs> = iso.frames.iter().take(2).filter_map(|f| Obs::decode(f)).collect();
    let measures: Option<Vec<u64>> = iso.frames.get(2).filter(|f| f.len() == 88).map(|f| {
        f.chunks_exact(8).map(|c| u64::from_le_bytes(c.try_into().unwrap())).collect()
    });
    if !iso.clean() || decoded.len() != 2 || measures.is_none() {
        let c = iso.crash_kind().unwrap_or_else(|| "missing result".into());
        if crate::progs::is_arena_exhaustion(&c) || c == "timeout" {
            return Err(("inconclusive".into(), c));
        }
        return Err((format!("crash|{c}|{name}"), format!("family {name}, size {n}: crash {c}")));
    }
    let (with_plan, no_plan) = (&decoded[0], &decoded[1]);
    if !with_plan.accepted() {
        let e = with_plan.front_errors().first().map(|d| d.text()).unwrap_or_default();
        return Err((format!("rejected|{name}"), format!("family {name}, size {n}: program rejected: {e}")));
    }
    let want: Vec<NVal> = inst.expect.iter().map(|v| NVal::Num(*v)).collect();
    for (label, o) in [("with plan", with_plan), ("without plan", no_plan)] {
        if o.output != want || o.rt_error().is_some() {
            return Err((
                format!("wrong-result|{name}"),
                format!(
                    "family {name}, size {n}, {label}: printed {} values ending {:?}, expected {} values ({:?}...)",
                    o.output.len(),
                    o.rt_error(),
                    want.len(),
                    &inst.expect[..inst.expect.len().min(3)]
                ),
            ));
        }
    }
    let limit = parse_limit(with_plan);
    let warnings = with_plan.warnings();
    let predicted = inst.counts.first_exceeded();
    // The limited quantities as the public counting API measures them: the directly countable ones
    // must be our own counts, and the staged comparison against the default caps (first exceeded
    // limit in the documented order) must be what the warning says - no earlier, no later.
    let measures = measures.unwrap();
    for (i, own) in [
        (0usize, inst.counts.functions),
        (1, inst.counts.locals),
        (2, inst.counts.scopes),
        (3, inst.counts.statements),
        (8, inst.counts.calls),
    ] {
        if measures[i] != own {
            return Err((
                format!("count-differs|{}", LIMITS[i].0),
                format!("family {name}, size {n}: the program has {own} {} by construction, the analysis facts say {}", LIMITS[i].0, measures[i]),
            ));
        }
    }
    let staged = LIMITS.iter().zip(&measures).find(|((_, l), v)| **v > *l).map(|((m, _), v)| (*m, *v));
    match (&limit, staged) {
        (None, Some((m, v))) => {
            return Err((
                format!("limit-not-enforced|{m}"),
                format!("family {name}, size {n}: {m} = {v} exceeds the default cap {} but there is no resource-limit warning", limit_of(m)),
            ));
        }
        (Some((metric, observed, _)), None) => {
            return Err((
                format!("limit-enforced-below-cap|{metric}"),
                format!("family {name}, size {n}: resource-limit warning for {metric} (observed {observed}) although no measured quantity exceeds its default cap"),
            ));
        }
        (Some((metric, observed, _)), Some((m, v))) if metric != m || *observed != v => {
            return Err((
                format!("wrong-limit-reported|{m}|{metric}"),
                format!("family {name}, size {n}: the first exceeded limit in the documented order is {m} = {v}, the warning names {metric} = {observed}"),
            ));
        }
        _ => {}
    }
    match &limit {
        Some((metric, observed, lim)) => {
            if warnings.len() != 1 {
                return Err((
                    format!("extra-warnings-with-limit|{name}"),
                    format!("family {name}, size {n}: {} warnings next to the resource-limit warning", warnings.len() - 1),
                ));
            }
            if observed <= lim || *lim != limit_of(metric) {
                return Err((
                    format!("limit-figures|{name}"),
                    format!("family {name}, size {n}: warning says {metric} observed {observed}, limit {lim}"),
                ));
            }
            if with_plan.plan.is_some() || with_plan.counters.skipped_stmts > 0 || with_plan.counters.pruned_function_defs > 0 {
                return Err((
                    format!("pruning-despite-limit|{name}"),
                    format!("family {name}, size {n}: limit warning present but plan {:?}, skipped {}", with_plan.plan, with_plan.counters.skipped_stmts),
                ));
            }
            // countable metrics: the reported figure must be our own count
            let own = match metric.as_str() {
                "functions" => Some(inst.counts.functions),
                "locals" => Some(inst.counts.locals),
                "scopes" => Some(inst.counts.scopes),
                "statements" => Some(inst.counts.statements),
                "direct user calls" => Some(inst.counts.calls),
                "summary events" => Some(inst.counts.summary_events()),
                _ => None,
            };
            if let Some(own) = own
                && own != *observed
            {
                return Err((
                    format!("observed-figure|{metric}"),
                    format!("family {name}, size {n}: warning reports {metric} = {observed}, independent count is {own}"),
                ));
            }
            // the first exceeded countable metric must be the reported one unless a derived
            // metric that is checked earlier tripped
            if let Some(p) = predicted {
                let order = |m: &str| LIMITS.iter().position(|(x, _)| *x == m).unwrap_or(99);
                let derived = matches!(metric.as_str(), "cfg ops" | "ops in one function" | "cfg blocks" | "blocks in one function" | "liveness events");
                if metric != p && !(derived && order(metric) < order(p)) {
                    return Err((
                        format!("wrong-metric|{p}|{metric}"),
                        format!("family {name}, size {n}: first exceeded countable limit is {p}, warning names {metric}"),
                    ));
                }
            }
        }
        None => {
            if let Some(p) = predicted {
                return Err((
                    format!("limit-not-enforced|{p}"),
                    format!("family {name}, size {n}: independent count exceeds the {p} limit but there is no resource-limit warning"),
                ));
            }
            // analyses ran as usual: bait must be diagnosed and pruned
            let texts: Vec<String> = warnings.iter().map(|d| d.text()).collect();
            for needle in ["bait_unused", "bait_unused_fn", "Dead code after `return`"] {
                if !texts.iter().any(|t| t.contains(needle)) {
                    return Err((
                        format!("analysis-warning-missing|{name}"),
                        format!("family {name}, size {n}: no limit warning, but the analysis warning about {needle} is missing"),
                    ));
                }
            }
            let plan = with_plan.plan.unwrap_or((0, 0));
            if plan.0 == 0 || plan.1 == 0 || with_plan.counters.skipped_stmts == 0 {
                return Err((
                    format!("no-pruning-below-limit|{name}"),
                    format!("family {name}, size {n}: analyses ran but plan = {:?}, skipped {}", with_plan.plan, with_plan.counters.skipped_stmts),
                ));
            }
        }
    }
    Ok(Probe { limit })
}

struct Search {
    below: Option<u64>,
    at: Option<u64>,
    probes: Vec<(u64, Option<String>)>,
}

/// `part` 0: threshold verification (hint pair, bisection when the hint is stale, sizes just
/// above). `part` >= 1: a chunk of proptest-chosen sizes from the whole range plus one far above
/// the hint; the oracle is checked at each and the limit warning must be monotone in the size.
fn run_family(ctx: &mut ShardCtx, family: Family, extra_random: &[u64], part: usize) {
    let (hint, lo, hi) = family.hint();
    let name = family.name();
    let mut s = Search { below: None, at: None, probes: Vec::new() };
    let do_probe = |ctx: &mut ShardCtx, s: &mut Search, n: u64| -> Option<bool> {
        if let Some((_, m)) = s.probes.iter().find(|(k, _)| *k == n) {
            return Some(m.is_some());
        }
        ctx.eval();
        match probe(family, n) {
            Ok(p) => {
                let metric = p.limit.as_ref().map(|l| l.0.clone());
                s.probes.push((n, metric.clone()));
                ctx.nontrivial(hash_str(&format!("{name}:{n}")));
                Some(metric.is_some())
            }
            Err((sig, what)) => {
                if sig == "inconclusive" {
                    ctx.inconclusive += 1;
                    ctx.discard("U8 arena exhaustion / watchdog on a sized program");
                    return None;
                }
                ctx.handle("family", Outcome::Fail(Failure {
                    sig,
                    what,
                    input: json!({"family": name, "n": n}),
                }));
                None
            }
        }
    };
    if part >= 1 {
        let mut sizes: Vec<u64> = extra_random.iter().map(|n| lo + n % (hi - lo)).collect();
        if part == 1 {
            sizes.push(hint + 1);
            sizes.push(hint + hint / 20 + 1);
        }
        sizes.sort_unstable();
        sizes.dedup();
        let mut seen_tripped: Option<u64> = None;
        for n in sizes {
            match do_probe(ctx, &mut s, n) {
                Some(true) => seen_tripped = seen_tripped.or(Some(n)),
                Some(false) => {
                    if let Some(smaller) = seen_tripped {
                        ctx.handle("family", Outcome::Fail(Failure {
                            sig: format!("not-monotone|{name}"),
                            what: format!("family {name}: size {smaller} trips a limit, the larger size {n} does not"),
                            input: json!({"family": name, "n": n}),
                        }));
                    }
                }
                None => {}
            }
        }
        ctx.class(&format!("family `{name}`: proptest-chosen sizes probed"));
        return;
    }
    // verify the hint: hint-1 must be below, hint must be at/above; otherwise search
    let mut lo_b = lo;
    let mut hi_b = hi;
    let h_below = do_probe(ctx, &mut s, hint - 1);
    let h_at = do_probe(ctx, &mut s, hint);
    match (h_below, h_at) {
        (Some(false), Some(true)) => {
            s.below = Some(hint - 1);
            s.at = Some(hint);
        }
        (Some(true), _) => hi_b = hint - 1,
        (Some(false), Some(false)) => lo_b = hint,
        _ => return,
    }
    if s.at.is_none() {
        ctx.note(format!("family {name}: committed threshold hint {hint} is stale; searching"));
        // bracket
        if do_probe(ctx, &mut s, lo_b) != Some(false) {
            ctx.note(format!("family {name}: even the smallest size {lo_b} carries a limit warning"));
            return;
        }
        if do_probe(ctx, &mut s, hi_b) != Some(true) {
            ctx.class(&format!("limit `{name}`: not reached within the search range (shadowed or out of range)"));
            return;
        }
        let (mut a, mut b) = (lo_b, hi_b);
        while b - a > 1 {
            let mid = a + (b - a) / 2;
            match do_probe(ctx, &mut s, mid) {
                Some(true) => b = mid,
                Some(false) => a = mid,
                None => return,
            }
        }
        s.below = Some(a);
        s.at = Some(b);
        ctx.note(format!("family {name}: threshold found at size {b} (update the hint in c18.rs)"));
    }
    let at = s.at.unwrap();
    let metric_at = s.probes.iter().find(|(k, _)| *k == at).and_then(|(_, m)| m.clone()).unwrap_or_default();
    ctx.class(&format!("limit `{metric_at}`: reached just below (size {}), at (size {at}) and above", s.below.unwrap()));
    if metric_at != name {
        ctx.class(&format!("limit `{name}`: shadowed from below by `{metric_at}` in this family"));
        // the named limit itself, from above, where it is the first one checked
        let over = limit_of(name) + 1;
        let inst_n = match family {
            Family::Functions => Some(over - 3),
            _ => None,
        };
        if let Some(n) = inst_n {
            let _ = do_probe(ctx, &mut s, n);
            if let Some((_, Some(m))) = s.probes.iter().find(|(k, _)| *k == n) {
                ctx.class(&format!("limit `{m}`: reached from above (size {n})"));
            }
        }
    }
    ctx.sample(
        &format!("family {name}"),
        json!({"family": name, "threshold_size": at, "metric": metric_at, "probed_sizes": s.probes.iter().map(|p| p.0).collect::<Vec<_>>()}),
    );
}

impl Check for C18 {
    fn id(&self) -> &'static str {
        "C18"
    }

    fn rule(&self) -> String {
        "Nine parametric program families (tiny functions; parameters of empty functions; empty blocks; statements in a \
         never-taken branch; 64 calls per statement; if-statements spread over eight functions / in one function; a \
         1000-parameter function with n statements), each with analysis bait (unused variable, dead store, statement after \
         return, unused function) and a known output. For each family the size at which the resource-limit warning first \
         appears is verified from a committed hint (size-1 has no limit warning, size has one) or, if the hint is stale, \
         found by bisection guided by the warning; then sizes above it (monotonicity) and proptest-chosen sizes in the \
         whole range are probed. Oracle at every probed size: accepted; printed values equal the known output with and \
         without the plan; if the independent count of a directly countable metric (functions, locals, scopes, statements, \
         direct user calls, summary events) exceeds its limit there is exactly one warning, code `analysis`, naming the \
         first exceeded metric with observed == the independent count > limit, plan None and nothing skipped; otherwise \
         either a derived metric tripped (same shape) or the bait warnings are present, the plan is non-empty and statements \
         were skipped. `cfg ops` and `ops in one function` equal the statement count by construction of the analysis and \
         are shadowed by the statements limit (reported as such). Non-trivial: every probed (family, size); distinct by that pair."
            .into()
    }

    fn assumptions(&self) -> Vec<String> {
        vec![
            "limits are those of DEFAULT_CAPS in src/analysis/limits.rs (restated in c18::LIMITS); a changed default shows up as `limit-figures`".into(),
            "arenas are reserved at 6 GiB / 1 GiB (lazily committed) for the sized programs".into(),
        ]
    }

    fn shard(&self, ctx: &mut ShardCtx) {
        // tasks = (family, part); spread round-robin over the shards
        let extra = ctx.tier.pick(4usize, 24usize);
        let chunk = 3usize;
        let parts = 1 + extra.div_ceil(chunk);
        let mut t = 0u32;
        for family in FAMILIES {
            // sizes from proptest (all randomness stays inside the library), same in every shard
            let mut sizes: Vec<u64> = Vec::new();
            let mut h = crate::util::Fnv::new();
            h.write_u64(ctx.seed);
            h.write(family.name().as_bytes());
            let mut runner = proptest::test_runner::TestRunner::new(crate::prop::config(1, h.finish()));
            if let Ok(tree) = prop::collection::vec(any::<u64>(), extra).new_tree(&mut runner) {
                use proptest::strategy::ValueTree;
                sizes = tree.current();
            }
            for part in 0..parts {
                t += 1;
                if t % ctx.of != ctx.shard {
                    continue;
                }
                let mine: &[u64] = if part == 0 {
                    &[]
                } else {
                    let a = (part - 1) * chunk;
                    &sizes[a.min(sizes.len())..(a + chunk).min(sizes.len())]
                };
                run_family(ctx, family, mine, part);
            }
        }
    }

    fn replay(&self, _ctx: &mut ShardCtx, _stage: &str, input: &J) -> Outcome {
        let name = input.get("family").and_then(J::as_str).unwrap_or("");
        let Some(family) = FAMILIES.iter().copied().find(|f| f.name() == name) else {
            return Outcome::Discard("unreadable replay input");
        };
        let n = input.get("n").and_then(J::as_u64).unwrap_or(1);
        match probe(family, n) {
            Ok(_) => Outcome::Pass,
            Err((sig, what)) => {
                if sig == "inconclusive" {
                    Outcome::Discard("U8")
                } else {
                    Outcome::Fail(Failure { sig, what, input: input.clone() })
                }
            }
        }
    }
}
