//! nschild: helper child process for C15 (report mode) and C16 (emit mode).
//!
//! The mode and the working directory of the case come through the *inherited*
//! environment (`NSCHILD_MODE`, `NSCHILD_DIR`), i.e. outside the channels under test
//! (argv, `cmd.env`, cwd, stdin, stdout, stderr).
//!
//! report mode: writes `<dir>/report.<n>` (n = number of earlier reports) as JSON:
//!   pid, start time, every argument (hex), the whole environment (hex pairs), cwd (hex),
//!   every stdin byte until EOF (hex). Written to a temporary name and renamed, so
//!   existence == complete; existence is the spawn marker.
//! emit mode: writes `<dir>/pid` ("<pid> <starttime>") first, then executes `<dir>/plan`:
//!   p <bytes>            enlarge the pipes behind fd 1 and fd 2 (F_SETPIPE_SZ), errors ignored
//!   w <fd> <off> <len>   write bytes [off, off+len) of out.bin (fd 1) / err.bin (fd 2)
//!   s <ms>               sleep
//!   c <fd>               close the descriptor
//!   x <code>             exit with the code
//!   k <signal>           die by the signal
//! Write errors (EPIPE after the reader went away) are ignored: the helper keeps following
//! its plan, like a child that does not care. It never forks.

use std::ffi::OsString;
use std::io::Read;
use std::os::unix::ffi::{OsStrExt, OsStringExt};
use std::path::{Path, PathBuf};

fn hex(bytes: &[u8]) -> String {
    const D: &[u8; 16] = b"0123456789abcdef";
    let mut s = String::with_capacity(bytes.len() * 2);
    for b in bytes {
        s.push(D[(b >> 4) as usize] as char);
        s.push(D[(b & 15) as usize] as char);
    }
    s
}

fn start_time() -> u64 {
    // field 22 of /proc/self/stat; fields after the ")" that closes the command name
    let text = std::fs::read_to_string("/proc/self/stat").unwrap_or_default();
    let rest = text.rsplit_once(')').map_or("", |(_, r)| r);
    rest.split_ascii_whitespace().nth(19).and_then(|s| s.parse().ok()).unwrap_or(0)
}

fn write_atomically(path: &Path, bytes: &[u8]) {
    let tmp = PathBuf::from(format!("{}.tmp{}", path.display(), std::process::id()));
    if std::fs::write(&tmp, bytes).is_ok() {
        let _ = std::fs::rename(&tmp, path);
    }
}

fn close_inherited() {
    // The harness's result pipe and similar descriptors must not be kept open by us.
    let r = unsafe { libc::syscall(libc::SYS_close_range, 3u32, u32::MAX, 0u32) };
    if r != 0 {
        for fd in 3..1024 {
            unsafe { libc::close(fd) };
        }
    }
}

fn report(dir: &Path) -> i32 {
    let args: Vec<String> = std::env::args_os().map(|a| hex(a.as_bytes())).collect();
    let mut env: Vec<(Vec<u8>, Vec<u8>)> = std::env::vars_os()
        .map(|(k, v): (OsString, OsString)| (k.into_vec(), v.into_vec()))
        .collect();
    env.sort();
    let env: Vec<[String; 2]> = env.iter().map(|(k, v)| [hex(k), hex(v)]).collect();
    let cwd = std::env::current_dir().map(|p| hex(p.as_os_str().as_bytes())).ok();
    let mut stdin = Vec::new();
    let stdin_err = std::io::stdin().lock().read_to_end(&mut stdin).err().map(|e| e.to_string());
    let doc = serde_json::json!({
        "pid": std::process::id(),
        "start": start_time(),
        "argc": args.len(),
        "args": args,
        "env": env,
        "cwd": cwd,
        "stdin": hex(&stdin),
        "stdin_error": stdin_err,
    });
    let mut n = 0u32;
    while dir.join(format!("report.{n}")).exists() {
        n += 1;
    }
    write_atomically(&dir.join(format!("report.{n}")), doc.to_string().as_bytes());
    0
}

fn write_all(fd: i32, mut buf: &[u8]) {
    while !buf.is_empty() {
        let n = unsafe { libc::write(fd, buf.as_ptr().cast(), buf.len()) };
        if n < 0 {
            if std::io::Error::last_os_error().kind() == std::io::ErrorKind::Interrupted {
                continue;
            }
            return; // EPIPE / EBADF: nobody listens any more, carry on with the plan
        }
        buf = &buf[n as usize..];
    }
}

fn emit(dir: &Path) -> i32 {
    write_atomically(&dir.join("pid"), format!("{} {}\n", std::process::id(), start_time()).as_bytes());
    let plan = std::fs::read_to_string(dir.join("plan")).unwrap_or_default();
    let out = std::fs::read(dir.join("out.bin")).unwrap_or_default();
    let err = std::fs::read(dir.join("err.bin")).unwrap_or_default();
    for line in plan.lines() {
        let mut it = line.split_ascii_whitespace();
        let Some(cmd) = it.next() else { continue };
        let mut num = || it.next().and_then(|s| s.parse::<u64>().ok()).unwrap_or(0);
        match cmd {
            "p" => {
                let size = num() as libc::c_int;
                unsafe {
                    libc::fcntl(1, libc::F_SETPIPE_SZ, size);
                    libc::fcntl(2, libc::F_SETPIPE_SZ, size);
                }
            }
            "w" => {
                let fd = num() as i32;
                let off = num() as usize;
                let len = num() as usize;
                let src = if fd == 1 { &out } else { &err };
                let end = (off + len).min(src.len());
                if off < end {
                    write_all(fd, &src[off..end]);
                }
            }
            "s" => std::thread::sleep(std::time::Duration::from_millis(num())),
            "c" => {
                unsafe { libc::close(num() as i32) };
            }
            "x" => return num() as i32,
            "k" => {
                let sig = num() as i32;
                unsafe {
                    libc::signal(sig, libc::SIG_DFL);
                    libc::kill(libc::getpid(), sig);
                }
                // a catchable signal that somehow did not end us: distinctive exit code
                std::thread::sleep(std::time::Duration::from_millis(200));
                return 98;
            }
            _ => {}
        }
    }
    0
}

fn main() {
    close_inherited();
    unsafe { libc::signal(libc::SIGPIPE, libc::SIG_IGN) };
    let mode = std::env::var_os("NSCHILD_MODE").unwrap_or_default();
    let Some(dir) = std::env::var_os("NSCHILD_DIR").map(PathBuf::from) else {
        std::process::exit(97);
    };
    let code = match mode.as_bytes() {
        b"report" => report(&dir),
        b"emit" => emit(&dir),
        _ => 97,
    };
    // _exit: do not run anything else (no buffered stdio is used above)
    unsafe { libc::_exit(code) };
}
