fn main() {}
