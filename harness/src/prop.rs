//! Glue between proptest's `TestRunner` and the shard context.
//!
//! * all randomness comes from proptest's RNG, seeded from (VERIF_SEED, shard, stage);
//! * counting stops at the first failure (the closure re-runs while shrinking);
//! * shrinking keeps the failure *signature* fixed, so the minimal input shows
//!   the same defect that was found;
//! * failures matching an open known finding are tolerated and counted, so the
//!   search continues behind them.

use std::cell::RefCell;

use proptest::strategy::Strategy;
use proptest::test_runner::{Config, RngAlgorithm, RngSeed, TestCaseError, TestError, TestRunner};

use crate::ctx::{Outcome, ShardCtx};

pub fn config(cases: u32, seed: u64) -> Config {
    Config {
        cases,
        failure_persistence: None,
        rng_seed: RngSeed::Fixed(seed),
        rng_algorithm: RngAlgorithm::ChaCha,
        max_shrink_iters: 1500,
        max_global_rejects: 1_000_000,
        ..Config::default()
    }
}

/// Runs `cases` generated cases of `strategy` through `test`.
///
/// `test` does its own counting through the ctx (eval / nontrivial / class / sample).
pub fn run<S, F>(ctx: &mut ShardCtx, stage: &str, cases: u32, strategy: S, test: F)
where
    S: Strategy,
    S::Value: Clone,
    F: Fn(&mut ShardCtx, &S::Value) -> Outcome,
{
    if cases == 0 {
        return;
    }
    let seed = ctx.stage_seed(stage);
    let mut cfg = config(cases, seed);
    cfg.max_shrink_iters = ctx.max_shrink_iters;
    let mut runner = TestRunner::new(cfg);
    let target: RefCell<Option<String>> = RefCell::new(None);
    // the first failing value as generated (reported if the shrunk one does not reproduce)
    let first: RefCell<Option<S::Value>> = RefCell::new(None);
    let cell = RefCell::new(ctx);
    let result = runner.run(&strategy, |value| {
        let mut guard = cell.borrow_mut();
        let ctx: &mut ShardCtx = &mut guard;
        match test(ctx, &value) {
            Outcome::Pass => Ok(()),
            Outcome::Discard(why) => {
                ctx.discard(why);
                Ok(())
            }
            Outcome::Fail(f) => {
                let mut tgt = target.borrow_mut();
                match &*tgt {
                    None => {
                        if ctx.is_known(&f) {
                            return Ok(());
                        }
                        *tgt = Some(f.sig.clone());
                        *first.borrow_mut() = Some(value.clone());
                        ctx.frozen = true;
                        Err(TestCaseError::fail(f.sig))
                    }
                    Some(t) if *t == f.sig => Err(TestCaseError::fail(f.sig)),
                    // While shrinking: a different failure is not "the same bug".
                    Some(_) => Ok(()),
                }
            }
        }
    });
    let ctx = cell.into_inner();
    ctx.frozen = true;
    if let Err(TestError::Fail(_, minimal)) = result {
        // Re-run the oracle on the shrunk value to obtain the final description.
        match test(ctx, &minimal) {
            Outcome::Fail(f) => ctx.violation(stage, &f),
            _ => {
                // fall back to the input as generated; report it only if it fails again
                let original = first.borrow().clone();
                match original.map(|v| test(ctx, &v)) {
                    Some(Outcome::Fail(f)) => {
                        ctx.note(format!("stage {stage}: shrinking lost the failure; reporting the unshrunk input"));
                        ctx.violation(stage, &f);
                    }
                    _ => ctx.note(format!(
                        "stage {stage}: a failure with signature `{}` was seen once and did not reproduce (neither shrunk nor as generated); not reported",
                        target.borrow().clone().unwrap_or_default()
                    )),
                }
            }
        }
    } else if let Err(TestError::Abort(reason)) = result {
        ctx.note(format!("stage {stage}: proptest aborted: {reason}"));
    }
    ctx.frozen = false;
}
