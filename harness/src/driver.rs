//! Parent-side orchestration: replay tier, shard fan-out, aggregation, evidence.

use std::collections::{BTreeMap, BTreeSet};
use std::path::{Path, PathBuf};
use std::process::{Command, Stdio};
use std::time::Instant;

use serde_json::{Value as J, json};

use crate::ctx::{Outcome, ShardCtx, Tier};
use crate::util::verif_root;

#[derive(Debug, Clone, Copy, PartialEq, Eq)]
pub enum Bin {
    /// debug assertions on (arena debug wrapper, poisoning, UB precondition checks)
    Dbg,
    /// optimised, debug assertions off (raw bump arena, as shipped)
    Rel,
}

impl Bin {
    pub fn dir(self) -> &'static str {
        match self {
            Bin::Dbg => "debug",
            Bin::Rel => "release",
        }
    }
}

pub struct ShardSpec {
    pub bin: Bin,
}

/// One property check.
pub trait Check: Sync {
    fn id(&self) -> &'static str;
    /// How generated cases are produced and what counts as non-trivial / distinct.
    fn rule(&self) -> String;
    fn assumptions(&self) -> Vec<String> {
        Vec::new()
    }
    /// Shard layout: which binary flavour runs each shard.
    fn plan(&self, _tier: Tier) -> Vec<ShardSpec> {
        (0..16).map(|_| ShardSpec { bin: Bin::Dbg }).collect()
    }
    /// Generation work of one shard.
    fn shard(&self, ctx: &mut ShardCtx);
    /// Re-runs the oracle on a saved input (replay files, regress/, known/).
    fn replay(&self, ctx: &mut ShardCtx, stage: &str, input: &J) -> Outcome;
}

pub fn out_dir() -> PathBuf {
    verif_root().join("out")
}

pub fn which_bin() -> Bin {
    if cfg!(debug_assertions) { Bin::Dbg } else { Bin::Rel }
}

fn bin_path(bin: Bin) -> PathBuf {
    // <target>/<profile>/nsverif -> sibling profile directory of the running binary
    if let Ok(exe) = std::env::current_exe()
        && let Some(target) = exe.parent().and_then(Path::parent)
    {
        let p = target.join(bin.dir()).join("nsverif");
        if p.exists() {
            return p;
        }
    }
    verif_root().join("target").join("harness").join(bin.dir()).join("nsverif")
}

fn seed_from_env() -> u64 {
    std::env::var("VERIF_SEED").ok().and_then(|s| s.trim().parse::<u64>().ok()).unwrap_or(1)
}

fn load_replay(path: &Path) -> Option<(String, J)> {
    let text = std::fs::read_to_string(path).ok()?;
    let doc: J = serde_json::from_str(&text).ok()?;
    let stage = doc.get("stage").and_then(J::as_str).unwrap_or("").to_string();
    let input = doc.get("input").cloned().unwrap_or(J::Null);
    Some((stage, input))
}

fn list_json(dir: &Path) -> Vec<PathBuf> {
    let mut v: Vec<PathBuf> = std::fs::read_dir(dir)
        .map(|rd| {
            rd.filter_map(Result::ok)
                .map(|e| e.path())
                .filter(|p| p.extension().is_some_and(|e| e == "json"))
                .collect()
        })
        .unwrap_or_default();
    v.sort();
    v
}

/// `nsverif shard <ID> ...`: runs one shard and writes its result file.
pub fn run_shard(check: &dyn Check, tier: Tier, seed: u64, shard: u32, of: u32, result: &Path) -> i32 {
    let mut ctx = ShardCtx::new(check.id(), tier, seed, shard, of, out_dir());
    check.shard(&mut ctx);
    let doc = ctx.to_json();
    std::fs::write(result, serde_json::to_vec(&doc).unwrap()).expect("write shard result");
    0
}

/// `nsverif check <ID> --replay <path>`
pub fn run_replay(check: &dyn Check, path: &Path) -> i32 {
    let Some((stage, input)) = load_replay(path) else {
        eprintln!("cannot read replay file {}", path.display());
        return 2;
    };
    let mut ctx = ShardCtx::new(check.id(), Tier::Quick, seed_from_env(), 0, 1, out_dir());
    match check.replay(&mut ctx, &stage, &input) {
        Outcome::Pass => {
            println!("replay: property {} holds on {}", check.id(), path.display());
            0
        }
        Outcome::Discard(why) => {
            println!("replay: case is not comparable ({why})");
            0
        }
        Outcome::Fail(f) => {
            let full = ctx.full_sig(&f.sig);
            if let Some(id) = ctx.known.matches(&full) {
                let what = ctx.known.get(&id).map(|k| k.what.clone()).unwrap_or_default();
                println!("KNOWN-FINDING: property={} {} [{}]", check.id(), what, id);
                println!("signature: {full}\n{}", f.what);
                0
            } else {
                println!("signature: {full}\n{}", f.what);
                println!("VIOLATION property={} replay={}", check.id(), path.display());
                1
            }
        }
    }
}

/// `nsverif check <ID>`: replay tier, then the sharded search, then evidence.
pub fn run_check(check: &dyn Check, tier: Tier) -> i32 {
    let t0 = Instant::now();
    let seed = seed_from_env();
    let id = check.id();
    let root = verif_root();
    let out = out_dir();
    let shard_dir = out.join("shards").join(id);
    let _ = std::fs::remove_dir_all(&shard_dir);
    std::fs::create_dir_all(&shard_dir).expect("create shard dir");
    // Old replays of this property are stale once we start a new run.
    let _ = std::fs::remove_dir_all(out.join("replays").join(id));

    let mut violations: Vec<(String, String, String)> = Vec::new(); // sig, what, replay
    let mut known_lines: BTreeSet<String> = BTreeSet::new();
    let mut replayed = 0u64;
    let mut infra_errors: Vec<String> = Vec::new();

    // --- replay tier ---------------------------------------------------------
    let mut rctx = ShardCtx::new(id, tier, seed, 0, 1, out.clone());
    for path in list_json(&root.join("regress").join(id)) {
        let Some((stage, input)) = load_replay(&path) else { continue };
        replayed += 1;
        match check.replay(&mut rctx, &stage, &input) {
            Outcome::Pass | Outcome::Discard(_) => {}
            Outcome::Fail(f) => {
                // A fixed defect is back (or a regression input fails): always a violation.
                violations.push((rctx.full_sig(&f.sig), f.what.clone(), path.display().to_string()));
            }
        }
    }
    let known = rctx.known.clone();
    for k in &known.open {
        let Some(rel) = &k.replay else {
            known_lines.insert(format!("KNOWN-FINDING: property={} {} [{}]", id, k.what, k.id));
            continue;
        };
        let path = root.join(rel);
        let Some((stage, input)) = load_replay(&path) else {
            infra_errors.push(format!("known finding {} has no readable replay {}", k.id, rel));
            continue;
        };
        replayed += 1;
        match check.replay(&mut rctx, &stage, &input) {
            Outcome::Fail(f) => {
                let full = rctx.full_sig(&f.sig);
                if known.matches(&full).as_deref() == Some(k.id.as_str()) {
                    known_lines
                        .insert(format!("KNOWN-FINDING: property={} {} [{}]", id, k.what, k.id));
                } else {
                    // The recorded input now fails differently: report it.
                    violations.push((full, f.what.clone(), path.display().to_string()));
                }
            }
            Outcome::Pass | Outcome::Discard(_) => {
                println!(
                    "note: known finding {} no longer reproduces from {} (entry can be retired)",
                    k.id, rel
                );
            }
        }
    }

    // --- sharded search --------------------------------------------------------
    let plan = check.plan(tier);
    let of = plan.len() as u32;
    let mut children = Vec::new();
    for (i, spec) in plan.iter().enumerate() {
        let result = shard_dir.join(format!("{i}.json"));
        let log = std::fs::File::create(shard_dir.join(format!("{i}.log"))).expect("shard log");
        let log2 = log.try_clone().expect("clone log");
        let exe = bin_path(spec.bin);
        let child = Command::new(&exe)
            .arg("shard")
            .arg(id)
            .arg("--tier")
            .arg(tier.as_str())
            .arg("--seed")
            .arg(seed.to_string())
            .arg("--shard")
            .arg(i.to_string())
            .arg("--of")
            .arg(of.to_string())
            .arg("--result")
            .arg(&result)
            .env("VERIF_ROOT", &root)
            .stdin(Stdio::null())
            .stdout(Stdio::from(log))
            .stderr(Stdio::from(log2))
            .spawn();
        match child {
            Ok(c) => children.push((i, c, result)),
            Err(e) => infra_errors.push(format!("cannot start shard {i} ({}): {e}", exe.display())),
        }
    }

    let mut evaluations = 0u64;
    let mut nontrivial: BTreeSet<u64> = BTreeSet::new();
    let mut classes: BTreeMap<String, u64> = BTreeMap::new();
    let mut discards: BTreeMap<String, u64> = BTreeMap::new();
    let mut known_hits: BTreeMap<String, u64> = BTreeMap::new();
    let mut samples: Vec<J> = Vec::new();
    let mut notes: BTreeSet<String> = BTreeSet::new();
    let mut exhaustive: Option<bool> = None;
    let mut inconclusive = 0u64;

    for (i, mut child, result) in children {
        let status = child.wait();
        let ok = status.as_ref().map(|s| s.success()).unwrap_or(false);
        let doc = std::fs::read(&result).ok().and_then(|b| serde_json::from_slice::<J>(&b).ok());
        let Some(doc) = doc else {
            infra_errors.push(format!(
                "shard {i} produced no result (status {status:?}); see {}",
                shard_dir.join(format!("{i}.log")).display()
            ));
            continue;
        };
        if !ok {
            infra_errors.push(format!("shard {i} exited abnormally: {status:?}"));
        }
        evaluations += doc["evaluations"].as_u64().unwrap_or(0);
        inconclusive += doc["inconclusive"].as_u64().unwrap_or(0);
        if let Some(a) = doc["nontrivial"].as_array() {
            nontrivial.extend(a.iter().filter_map(J::as_u64));
        }
        for (key, dst) in
            [("classes", &mut classes), ("discards", &mut discards), ("known_hits", &mut known_hits)]
        {
            if let Some(m) = doc[key].as_object() {
                for (k, v) in m {
                    *dst.entry(k.clone()).or_insert(0) += v.as_u64().unwrap_or(0);
                }
            }
        }
        if let Some(a) = doc["samples"].as_array() {
            for s in a {
                let cls = s["class"].as_str().unwrap_or("");
                let have = samples.iter().filter(|x| x["class"].as_str() == Some(cls)).count();
                if samples.len() < 8 && have < 1 {
                    samples.push(s.clone());
                }
            }
        }
        if let Some(a) = doc["notes"].as_array() {
            notes.extend(a.iter().filter_map(J::as_str).map(str::to_string));
        }
        match doc["exhaustive"].as_bool() {
            Some(true) if exhaustive != Some(false) => exhaustive = Some(true),
            Some(false) => exhaustive = Some(false),
            _ => {}
        }
        if let Some(a) = doc["violations"].as_array() {
            for v in a {
                let sig = v["sig"].as_str().unwrap_or("").to_string();
                if violations.iter().any(|x| x.0 == sig) {
                    continue;
                }
                violations.push((
                    sig,
                    v["what"].as_str().unwrap_or("").to_string(),
                    v["replay"].as_str().unwrap_or("").to_string(),
                ));
            }
        }
    }

    for id_hit in known_hits.keys() {
        if let Some(k) = known.get(id_hit) {
            known_lines.insert(format!("KNOWN-FINDING: property={} {} [{}]", id, k.what, k.id));
        }
    }

    // --- evidence ------------------------------------------------------------
    let wall = t0.elapsed().as_secs_f64();
    let mut coverage = json!({
        "evaluations": evaluations,
        "distinct_nontrivial": nontrivial.len(),
        "rule": check.rule(),
        "samples": samples,
        "classes": classes,
        "discarded": discards,
        "known_finding_hits": known_hits,
        "replayed_regression_and_known_inputs": replayed,
        "inconclusive": inconclusive,
        "shards": of,
        "notes": notes.into_iter().collect::<Vec<_>>(),
    });
    if let Some(e) = exhaustive {
        // Only a sub-space is enumerated completely (described in notes); the run as a
        // whole also contains random stages, so the schema's `exhaustive` key stays unset.
        coverage["exhaustive_subspace_enumerated"] = json!(e);
    }
    let evidence = json!({
        "property_id": id,
        "tier": tier.as_str(),
        "seed": seed,
        "level": "exploration",
        "coverage": coverage,
        "assumptions": check.assumptions(),
        "wall_s": wall,
        "violations": violations.len(),
    });
    let evdir = root.join("evidence");
    let _ = std::fs::create_dir_all(&evdir);
    let evpath = evdir.join(format!("{id}.json"));
    std::fs::write(&evpath, serde_json::to_vec_pretty(&evidence).unwrap()).expect("write evidence");

    for line in &known_lines {
        println!("{line}");
    }
    println!(
        "{id} {}: {evaluations} evaluations, {} distinct non-trivial, {} replayed, {:.1}s",
        tier.as_str(),
        nontrivial.len(),
        replayed,
        wall
    );
    for e in &infra_errors {
        println!("INFRASTRUCTURE: {e}");
    }
    if !violations.is_empty() {
        for (sig, what, replay) in &violations {
            println!("--- {sig}\n{what}");
            println!("VIOLATION property={id} replay={replay}");
        }
        return 1;
    }
    if !infra_errors.is_empty() {
        return 2;
    }
    if evaluations > 0 && inconclusive * 100 > evaluations {
        println!("INCONCLUSIVE: {inconclusive} of {evaluations} cases hit the watchdog / resource limits");
        return 2;
    }
    0
}

/// Inputs produced by a libFuzzer campaign (fuzz/run.sh): every artifact (crash / oom / timeout
/// reproducer) and up to `max_corpus` files of the grown corpora, in file-name order. The
/// campaign's own verdict is never used: callers re-run each input through their isolated oracle.
pub fn fuzz_inputs(target: &str, max_corpus: usize) -> Vec<(String, Vec<u8>)> {
    let base = out_dir().join("fuzz").join(target);
    let mut out = Vec::new();
    let mut list = |dir: &str, cap: usize| {
        let mut files: Vec<PathBuf> = std::fs::read_dir(base.join(dir))
            .map(|rd| rd.filter_map(Result::ok).map(|e| e.path()).filter(|p| p.is_file()).collect())
            .unwrap_or_default();
        files.sort();
        for f in files.into_iter().take(cap) {
            if let Ok(b) = std::fs::read(&f) {
                out.push((format!("{dir}/{}", f.file_name().unwrap_or_default().to_string_lossy()), b));
            }
        }
    };
    list("artifacts", usize::MAX);
    list("corpus", max_corpus);
    list("empty", max_corpus);
    out
}
