//! Tiny binary codec for child -> parent result frames.

#[derive(Default)]
pub struct Enc {
    pub buf: Vec<u8>,
}

impl Enc {
    pub fn u8(&mut self, v: u8) {
        self.buf.push(v);
    }
    pub fn u32(&mut self, v: u32) {
        self.buf.extend_from_slice(&v.to_le_bytes());
    }
    pub fn u64(&mut self, v: u64) {
        self.buf.extend_from_slice(&v.to_le_bytes());
    }
    pub fn bytes(&mut self, b: &[u8]) {
        self.u32(b.len() as u32);
        self.buf.extend_from_slice(b);
    }
    pub fn str(&mut self, s: &str) {
        self.bytes(s.as_bytes());
    }
}

pub struct Dec<'a> {
    buf: &'a [u8],
    pos: usize,
}

impl<'a> Dec<'a> {
    pub fn new(buf: &'a [u8]) -> Self {
        Self { buf, pos: 0 }
    }
    pub fn u8(&mut self) -> Option<u8> {
        let v = *self.buf.get(self.pos)?;
        self.pos += 1;
        Some(v)
    }
    pub fn u32(&mut self) -> Option<u32> {
        let s = self.buf.get(self.pos..self.pos + 4)?;
        self.pos += 4;
        Some(u32::from_le_bytes(s.try_into().ok()?))
    }
    pub fn u64(&mut self) -> Option<u64> {
        let s = self.buf.get(self.pos..self.pos + 8)?;
        self.pos += 8;
        Some(u64::from_le_bytes(s.try_into().ok()?))
    }
    pub fn bytes(&mut self) -> Option<Vec<u8>> {
        let n = self.u32()? as usize;
        let s = self.buf.get(self.pos..self.pos + n)?;
        self.pos += n;
        Some(s.to_vec())
    }
    pub fn str(&mut self) -> Option<String> {
        Some(String::from_utf8_lossy(&self.bytes()?).into_owned())
    }
    pub fn done(&self) -> bool {
        self.pos >= self.buf.len()
    }
}
