//! Reference interpreter R over the nsgen AST, written from docs/*.md and the property
//! statements. Values are plain Rust data, so copying *is* value semantics; environments
//! are a lexical chain of scope instances (function = definition + defining scope instance).
//!
//! Where the documentation is silent and two reasonable implementations differ, R does not
//! pick a side: it marks the run *ambiguous* (U-zones) and the case is discarded.

use std::cell::RefCell;
use std::rc::Rc;

use super::ast::*;
use super::resolve::{DeclId, FuncId, Resolved};
use crate::c13::{model_slice, naive_find, naive_replace, naive_split};
use crate::pipeline::NVal;

#[derive(Debug, Clone, PartialEq)]
pub enum RVal {
    Num(f64),
    Str(String),
    Bool(bool),
    Null,
    Arr(Vec<RVal>),
}

impl RVal {
    pub fn type_name(&self) -> &'static str {
        match self {
            RVal::Num(_) => "number",
            RVal::Str(_) => "string",
            RVal::Bool(_) => "boolean",
            RVal::Null => "null",
            RVal::Arr(_) => "array",
        }
    }
    pub fn to_nval(&self) -> NVal {
        match self {
            RVal::Num(n) => NVal::Num(*n),
            RVal::Str(s) => NVal::Str(s.as_bytes().to_vec()),
            RVal::Bool(b) => NVal::Bool(*b),
            RVal::Null => NVal::Null,
            RVal::Arr(a) => NVal::Arr(a.iter().map(RVal::to_nval).collect()),
        }
    }
}

#[derive(Debug, Clone, Copy, PartialEq, Eq)]
pub enum ErrKind {
    DivisionByZero,
    IndexOutOfBounds,
    InvalidIndex,
}

impl ErrKind {
    /// The runtime diagnostic message the documentation / implementation uses for this kind.
    pub fn message(self) -> &'static str {
        match self {
            ErrKind::DivisionByZero => "Division by zero",
            ErrKind::IndexOutOfBounds => "Index out of bounds",
            ErrKind::InvalidIndex => "Invalid index",
        }
    }
}

#[derive(Debug, Clone, PartialEq)]
pub enum Ending {
    Normal,
    Error(ErrKind),
    /// an operator / condition / index / method met a value of a type that does not fit it
    /// (only possible in programs that are not intent-type correct: C06 territory)
    IllTyped(String),
    /// step or depth budget of the reference run exhausted (U8)
    Budget,
}

#[derive(Debug, Clone)]
pub struct RefRun {
    pub output: Vec<RVal>,
    pub ending: Ending,
    /// Some(zone) when the run entered an unspecified zone (output up to that point is valid)
    pub ambiguous: Option<&'static str>,
    pub stats: RunStats,
}

/// Dynamic measurements used by the non-triviality rules.
#[derive(Debug, Clone, Default)]
pub struct RunStats {
    pub steps: u64,
    pub calls: u64,
    pub max_call_depth: u32,
    pub loop_iterations: u64,
    pub string_ops: u64,
    pub array_ops: u64,
    pub interpolations: u64,
    /// a name was referenced while bound in >= 2 simultaneously live scopes
    pub shadowed_reference: u64,
    /// `g[i].push(..)`-style mutation while `g` was bound in >= 2 simultaneously live scopes
    pub shadowed_path_mutation: u64,
    /// a variable of an enclosing function activation was read / written from a nested function
    pub capture_reads: u64,
    pub capture_writes: u64,
    /// an array that has (or is) a live copy was mutated
    pub array_mutations: u64,
    pub recursion_live_activations: u32,
}

enum Stop {
    Error(ErrKind),
    IllTyped(String),
    Ambiguous(&'static str),
    Budget,
}

enum Flow {
    Next,
    Return(RVal),
    Break,
    Continue,
}

struct Env {
    cells: RefCell<Vec<(DeclId, RVal)>>,
    funcs: RefCell<Vec<FuncId>>,
    parent: Option<Rc<Env>>,
    /// function activation this scope instance belongs to (0 = top level)
    activation: u64,
}

impl Env {
    fn new(parent: Option<Rc<Env>>, activation: u64) -> Rc<Env> {
        Rc::new(Env { cells: RefCell::new(Vec::new()), funcs: RefCell::new(Vec::new()), parent, activation })
    }
}

pub struct Limits {
    pub max_steps: u64,
    pub max_depth: u32,
    /// bytes of string / array data the run may create in total
    pub max_alloc: u64,
}

impl Default for Limits {
    fn default() -> Self {
        Limits { max_steps: 200_000, max_depth: 64, max_alloc: 8 << 20 }
    }
}

struct Interp<'p> {
    res: &'p Resolved,
    output: Vec<RVal>,
    stats: RunStats,
    limits: Limits,
    depth: u32,
    allocated: u64,
    next_activation: u64,
    cur_activation: u64,
    /// live activations per function (for the "several live activations" class)
    live: Vec<u32>,
    /// names currently bound, for the shadowed-reference statistic: (name, live count)
    bound_names: Vec<(String, u32)>,
}

pub fn run(p: &Program, res: &Resolved, limits: Limits) -> RefRun {
    let mut it = Interp {
        res,
        output: Vec::new(),
        stats: RunStats::default(),
        limits,
        depth: 0,
        allocated: 0,
        next_activation: 1,
        cur_activation: 0,
        live: vec![0; res.funcs.len()],
        bound_names: Vec::new(),
    };
    let root = Env::new(None, 0);
    let r = it.block_in(&p.body, root);
    let (ending, ambiguous) = match r {
        Ok(_) => (Ending::Normal, None),
        Err(Stop::Error(k)) => (Ending::Error(k), None),
        Err(Stop::IllTyped(s)) => (Ending::IllTyped(s), None),
        Err(Stop::Ambiguous(z)) => (Ending::Normal, Some(z)),
        Err(Stop::Budget) => (Ending::Budget, None),
    };
    RefRun { output: it.output, ending, ambiguous, stats: it.stats }
}

/// Text form of a number as the language prints it (shortest round-trip decimal).
fn num_text(n: f64) -> Result<String, Stop> {
    if !n.is_finite() {
        return Err(Stop::Ambiguous("U3 non-finite number converted to text"));
    }
    if n == 0.0 && n.is_sign_negative() {
        return Err(Stop::Ambiguous("U3 negative zero converted to text"));
    }
    Ok(format!("{n}"))
}

fn display(v: &RVal) -> Result<String, Stop> {
    match v {
        RVal::Num(n) => num_text(*n),
        RVal::Str(s) => Ok(s.clone()),
        RVal::Bool(b) => Ok(b.to_string()),
        RVal::Null => Ok("null".to_string()),
        RVal::Arr(_) => Err(Stop::Ambiguous("U9 array converted to text (format undocumented)")),
    }
}

fn truthy(v: &RVal, what: &str) -> Result<bool, Stop> {
    match v {
        RVal::Bool(b) => Ok(*b),
        RVal::Null => Ok(false),
        other => Err(Stop::IllTyped(format!("{what} of type {}", other.type_name()))),
    }
}

enum IndexClass {
    Ok(usize),
    Err(ErrKind),
}

fn classify_index(v: &RVal, len: usize) -> Result<IndexClass, Stop> {
    let RVal::Num(n) = v else {
        // A non-number index value: the documented kinds are "out of bounds" and "not a whole
        // number"; which one applies to a string/bool index is a type matter (C06), not C01.
        return Err(Stop::IllTyped(format!("index of type {}", v.type_name())));
    };
    if !n.is_finite() || n.fract() != 0.0 {
        return Ok(IndexClass::Err(ErrKind::InvalidIndex));
    }
    if *n < 0.0 || *n >= len as f64 {
        return Ok(IndexClass::Err(ErrKind::IndexOutOfBounds));
    }
    Ok(IndexClass::Ok(*n as usize))
}

impl<'p> Interp<'p> {
    fn step(&mut self) -> Result<(), Stop> {
        self.stats.steps += 1;
        if self.stats.steps > self.limits.max_steps {
            return Err(Stop::Budget);
        }
        Ok(())
    }

    /// Charges the size of a produced value against the allocation budget.
    fn charge(&mut self, v: &RVal) -> Result<(), Stop> {
        fn size(v: &RVal) -> u64 {
            match v {
                RVal::Str(s) => 16 + s.len() as u64,
                RVal::Arr(a) => 16 + a.iter().map(size).sum::<u64>(),
                _ => 8,
            }
        }
        if matches!(v, RVal::Str(_) | RVal::Arr(_)) {
            self.allocated += size(v);
            if self.allocated > self.limits.max_alloc {
                return Err(Stop::Budget);
            }
        }
        Ok(())
    }

    fn note_bound(&mut self, name: &str, delta: i32) {
        if let Some(e) = self.bound_names.iter_mut().find(|(n, _)| n == name) {
            e.1 = (e.1 as i32 + delta).max(0) as u32;
        } else if delta > 0 {
            self.bound_names.push((name.to_string(), delta as u32));
        }
    }

    fn note_reference(&mut self, name: &str) {
        if self.bound_names.iter().any(|(n, c)| n == name && *c >= 2) {
            self.stats.shadowed_reference += 1;
        }
    }

    fn find_cell<R>(
        &mut self,
        env: &Rc<Env>,
        decl: DeclId,
        write: bool,
        f: impl FnOnce(&mut RVal) -> R,
    ) -> Result<R, Stop> {
        let mut cur = Some(env.clone());
        while let Some(e) = cur {
            let mut cells = e.cells.borrow_mut();
            if let Some(c) = cells.iter_mut().find(|(d, _)| *d == decl) {
                if e.activation != self.cur_activation {
                    if write {
                        self.stats.capture_writes += 1;
                    } else {
                        self.stats.capture_reads += 1;
                    }
                }
                return Ok(f(&mut c.1));
            }
            drop(cells);
            cur = e.parent.clone();
        }
        // Declared in the text but its `make` has not executed yet (forward call into a
        // capturing function): no documented meaning.
        Err(Stop::Ambiguous("U7 variable used before its declaration executed"))
    }

    fn block_in(&mut self, b: &'p Block, env: Rc<Env>) -> Result<Flow, Stop> {
        // functions are visible throughout the block that defines them
        for s in b {
            if let Stmt::FuncDef(f) = s
                && let Some(&id) = self.res.func_of_def.get(&std::ptr::from_ref(f))
            {
                env.funcs.borrow_mut().push(id);
            }
        }
        let mut flow = Flow::Next;
        for s in b {
            match self.stmt(s, &env)? {
                Flow::Next => {}
                other => {
                    flow = other;
                    break;
                }
            }
        }
        // scope exit
        let names: Vec<DeclId> = env.cells.borrow().iter().map(|(d, _)| *d).collect();
        for d in names {
            let name = self.res.decl_names[d as usize].clone();
            self.note_bound(&name, -1);
        }
        Ok(flow)
    }

    fn child_block(&mut self, b: &'p Block, env: &Rc<Env>) -> Result<Flow, Stop> {
        let child = Env::new(Some(env.clone()), env.activation);
        self.block_in(b, child)
    }

    fn stmt(&mut self, s: &'p Stmt, env: &Rc<Env>) -> Result<Flow, Stop> {
        self.step()?;
        match s {
            Stmt::Make(name, init) => {
                let v = match init {
                    Some(e) => self.eval(e, env)?,
                    None => RVal::Null,
                };
                let decl = *self
                    .res
                    .decl_of_stmt
                    .get(&std::ptr::from_ref(s))
                    .ok_or_else(|| Stop::IllTyped("unresolved declaration".into()))?;
                let mut cells = env.cells.borrow_mut();
                if let Some(c) = cells.iter_mut().find(|(d, _)| *d == decl) {
                    c.1 = v;
                } else {
                    cells.push((decl, v));
                    drop(cells);
                    self.note_bound(name, 1);
                }
                Ok(Flow::Next)
            }
            Stmt::Assign(name, e) => {
                let v = self.eval(e, env)?;
                let decl = *self
                    .res
                    .decl_of_stmt
                    .get(&std::ptr::from_ref(s))
                    .ok_or_else(|| Stop::IllTyped("unresolved assignment".into()))?;
                self.note_reference(name);
                self.find_cell(env, decl, true, |slot| *slot = v)?;
                Ok(Flow::Next)
            }
            Stmt::AssignIndex(target, e) => {
                // value first, then the target's index expressions (generators keep them
                // independent, see U4), then the traversal
                let v = self.eval(e, env)?;
                let (base, idx_exprs) = flatten_target(target)
                    .ok_or_else(|| Stop::IllTyped("index assignment target is not a variable".into()))?;
                let mut idx_vals = Vec::new();
                for ie in &idx_exprs {
                    idx_vals.push(self.eval(ie, env)?);
                }
                self.mutate_path(base, &idx_vals, env, |slot| {
                    *slot = v;
                    Ok(RVal::Null)
                }, true)?;
                self.stats.array_ops += 1;
                Ok(Flow::Next)
            }
            Stmt::If(c, t, e) => {
                let cv = self.eval(c, env)?;
                if truthy(&cv, "condition")? {
                    self.child_block(t, env)
                } else if let Some(e) = e {
                    self.child_block(e, env)
                } else {
                    Ok(Flow::Next)
                }
            }
            Stmt::Loop(c, b) => {
                loop {
                    self.step()?;
                    let cv = self.eval(c, env)?;
                    if !truthy(&cv, "loop condition")? {
                        break;
                    }
                    self.stats.loop_iterations += 1;
                    match self.child_block(b, env)? {
                        Flow::Break => break,
                        Flow::Next | Flow::Continue => {}
                        r @ Flow::Return(_) => return Ok(r),
                    }
                }
                Ok(Flow::Next)
            }
            Stmt::Block(b) => self.child_block(b, env),
            Stmt::FuncDef(_) => Ok(Flow::Next),
            Stmt::Return(e) => {
                let v = match e {
                    Some(e) => self.eval(e, env)?,
                    None => RVal::Null,
                };
                Ok(Flow::Return(v))
            }
            Stmt::Break => Ok(Flow::Break),
            Stmt::Continue => Ok(Flow::Continue),
            Stmt::Expr(e) => {
                self.eval(e, env)?;
                Ok(Flow::Next)
            }
        }
    }

    /// Applies `f` to the slot `base[idx...]` of the variable's own array (in place).
    fn mutate_path(
        &mut self,
        base: &'p Expr,
        idx: &[RVal],
        env: &Rc<Env>,
        f: impl FnOnce(&mut RVal) -> Result<RVal, Stop>,
        assign: bool,
    ) -> Result<RVal, Stop> {
        let Expr::Var(name) = base else {
            return Err(Stop::IllTyped("mutation target is not rooted at a variable".into()));
        };
        let decl = *self
            .res
            .var_of_expr
            .get(&std::ptr::from_ref(base))
            .ok_or_else(|| Stop::IllTyped("unresolved variable".into()))?;
        self.note_reference(name);
        // First classify every index against the current shape without mutating, so that
        // "two indexes are both bad" (order of detection undocumented) can be flagged.
        let snapshot = self.find_cell(env, decl, true, |slot| slot.clone())?;
        let mut cur = &snapshot;
        let mut first_err: Option<ErrKind> = None;
        let mut later_bad = false;
        for (k, iv) in idx.iter().enumerate() {
            match cur {
                RVal::Arr(items) => match classify_index(iv, items.len())? {
                    IndexClass::Ok(i) => cur = &items[i],
                    IndexClass::Err(kind) => {
                        first_err = Some(kind);
                        // any later index that is not a plain in-range whole number makes the
                        // reported kind depend on evaluation order
                        for later in &idx[k + 1..] {
                            match later {
                                RVal::Num(n) if n.is_finite() && n.fract() == 0.0 && *n >= 0.0 => {}
                                _ => later_bad = true,
                            }
                        }
                        break;
                    }
                },
                other => {
                    return Err(Stop::IllTyped(format!("indexing into {}", other.type_name())));
                }
            }
        }
        if let Some(kind) = first_err {
            if later_bad {
                return Err(Stop::Ambiguous("U4 several bad indexes in one target"));
            }
            return Err(Stop::Error(kind));
        }
        let _ = assign;
        let mut result: Result<RVal, Stop> = Ok(RVal::Null);
        let idx_usize: Vec<usize> = idx
            .iter()
            .map(|v| if let RVal::Num(n) = v { *n as usize } else { 0 })
            .collect();
        self.find_cell(env, decl, true, |slot| {
            let mut cur = slot;
            for i in &idx_usize {
                match cur {
                    RVal::Arr(items) => cur = &mut items[*i],
                    _ => unreachable!(),
                }
            }
            result = f(cur);
        })?;
        result
    }

    fn eval(&mut self, e: &'p Expr, env: &Rc<Env>) -> Result<RVal, Stop> {
        let v = self.eval_inner(e, env)?;
        self.charge(&v)?;
        Ok(v)
    }

    fn eval_inner(&mut self, e: &'p Expr, env: &Rc<Env>) -> Result<RVal, Stop> {
        self.step()?;
        match e {
            Expr::Num(n) => Ok(RVal::Num(*n)),
            Expr::Bool(b) => Ok(RVal::Bool(*b)),
            Expr::Null => Ok(RVal::Null),
            Expr::Paren(inner) => self.eval(inner, env),
            Expr::Str(lit) => {
                let mut s = String::new();
                for p in &lit.parts {
                    match p {
                        StrPart::Text(t) => s.push_str(t),
                        StrPart::Interp { name, .. } => {
                            let decl = *self
                                .res
                                .var_of_part
                                .get(&std::ptr::from_ref(p))
                                .ok_or_else(|| Stop::IllTyped("unresolved placeholder".into()))?;
                            self.note_reference(name);
                            let v = self.find_cell(env, decl, false, |slot| slot.clone())?;
                            s.push_str(&display(&v)?);
                            self.stats.interpolations += 1;
                        }
                    }
                }
                Ok(RVal::Str(s))
            }
            Expr::Var(name) => {
                let decl = *self
                    .res
                    .var_of_expr
                    .get(&std::ptr::from_ref(e))
                    .ok_or_else(|| Stop::IllTyped("unresolved variable".into()))?;
                self.note_reference(name);
                self.find_cell(env, decl, false, |slot| slot.clone())
            }
            Expr::Unary(op, inner) => {
                let v = self.eval(inner, env)?;
                match (op, v) {
                    (UnOp::Not, v @ (RVal::Bool(_) | RVal::Null)) => Ok(RVal::Bool(!truthy(&v, "")?)),
                    (UnOp::Neg, RVal::Num(n)) => Ok(RVal::Num(-n)),
                    (op, v) => Err(Stop::IllTyped(format!("{op:?} applied to {}", v.type_name()))),
                }
            }
            Expr::Binary(op, l, r) => self.binary(*op, l, r, env),
            Expr::Array(items) => {
                let mut out = Vec::with_capacity(items.len());
                for i in items {
                    out.push(self.eval(i, env)?);
                }
                Ok(RVal::Arr(out))
            }
            Expr::Index(a, i) => {
                let av = self.eval(a, env)?;
                let iv = self.eval(i, env)?;
                let RVal::Arr(items) = av else {
                    return Err(Stop::IllTyped(format!("indexing into {}", av.type_name())));
                };
                self.stats.array_ops += 1;
                match classify_index(&iv, items.len())? {
                    IndexClass::Ok(k) => Ok(items[k].clone()),
                    IndexClass::Err(kind) => Err(Stop::Error(kind)),
                }
            }
            Expr::Call(name, args) => self.call(e, name, args, env),
            Expr::Method(recv, name, args) => self.method(recv, name, args, env),
            Expr::Member(..) => Err(Stop::IllTyped("member access without call".into())),
            Expr::CallExpr(..) => Err(Stop::IllTyped("call of a non-name".into())),
        }
    }

    fn binary(&mut self, op: BinOp, l: &'p Expr, r: &'p Expr, env: &Rc<Env>) -> Result<RVal, Stop> {
        match op {
            BinOp::And => {
                let lv = self.eval(l, env)?;
                if !truthy(&lv, "`and` operand")? {
                    return Ok(RVal::Bool(false));
                }
                let rv = self.eval(r, env)?;
                Ok(RVal::Bool(truthy(&rv, "`and` operand")?))
            }
            BinOp::Or => {
                let lv = self.eval(l, env)?;
                if truthy(&lv, "`or` operand")? {
                    return Ok(RVal::Bool(true));
                }
                let rv = self.eval(r, env)?;
                Ok(RVal::Bool(truthy(&rv, "`or` operand")?))
            }
            _ => {
                let lv = self.eval(l, env)?;
                let rv = self.eval(r, env)?;
                match (op, lv, rv) {
                    (BinOp::Add, RVal::Num(a), RVal::Num(b)) => Ok(RVal::Num(a + b)),
                    (BinOp::Minus, RVal::Num(a), RVal::Num(b)) => Ok(RVal::Num(a - b)),
                    (BinOp::Times, RVal::Num(a), RVal::Num(b)) => Ok(RVal::Num(a * b)),
                    (BinOp::Divide, RVal::Num(a), RVal::Num(b)) => {
                        if b == 0.0 { Err(Stop::Error(ErrKind::DivisionByZero)) } else { Ok(RVal::Num(a / b)) }
                    }
                    (BinOp::Mod, RVal::Num(a), RVal::Num(b)) => {
                        if b == 0.0 {
                            Err(Stop::Error(ErrKind::DivisionByZero))
                        } else {
                            // remainder of truncated division (sign of the dividend): C fmod
                            Ok(RVal::Num(a % b))
                        }
                    }
                    (BinOp::Eq, RVal::Num(a), RVal::Num(b)) => {
                        if !a.is_finite() || !b.is_finite() {
                            return Err(Stop::Ambiguous("U1 `na` with a non-finite number"));
                        }
                        let d = (a - b).abs();
                        if d > 0.0 && d <= 1e-9 {
                            return Err(Stop::Ambiguous("U1 `na` on numbers closer than 1e-9"));
                        }
                        Ok(RVal::Bool(a == b))
                    }
                    (BinOp::Gt, RVal::Num(a), RVal::Num(b)) => Ok(RVal::Bool(a > b)),
                    (BinOp::Lt, RVal::Num(a), RVal::Num(b)) => Ok(RVal::Bool(a < b)),
                    (BinOp::Add, RVal::Str(a), RVal::Str(b)) => {
                        self.stats.string_ops += 1;
                        Ok(RVal::Str(a + &b))
                    }
                    (BinOp::Add, RVal::Str(a), RVal::Num(b)) => {
                        self.stats.string_ops += 1;
                        Ok(RVal::Str(a + &num_text(b)?))
                    }
                    (BinOp::Add, RVal::Num(a), RVal::Str(b)) => {
                        self.stats.string_ops += 1;
                        Ok(RVal::Str(num_text(a)? + &b))
                    }
                    (BinOp::Add, RVal::Str(_), other) | (BinOp::Add, other, RVal::Str(_)) => Err(
                        Stop::Ambiguous(match other {
                            RVal::Bool(_) | RVal::Null | RVal::Arr(_) => {
                                "U6 string `add` with a boolean/null/array operand"
                            }
                            _ => "U6 string add",
                        }),
                    ),
                    (BinOp::Eq, RVal::Str(a), RVal::Str(b)) => Ok(RVal::Bool(a == b)),
                    // lexicographic by code point (= byte order of UTF-8)
                    (BinOp::Gt, RVal::Str(a), RVal::Str(b)) => Ok(RVal::Bool(a > b)),
                    (BinOp::Lt, RVal::Str(a), RVal::Str(b)) => Ok(RVal::Bool(a < b)),
                    (BinOp::Eq, RVal::Bool(a), RVal::Bool(b)) => Ok(RVal::Bool(a == b)),
                    (BinOp::Gt | BinOp::Lt, RVal::Bool(_), RVal::Bool(_)) => {
                        Err(Stop::Ambiguous("U10 ordering of booleans"))
                    }
                    (BinOp::Eq, RVal::Null, RVal::Null) => Ok(RVal::Bool(true)),
                    (BinOp::Eq, RVal::Null, _) | (BinOp::Eq, _, RVal::Null) => Ok(RVal::Bool(false)),
                    (BinOp::Gt | BinOp::Lt, RVal::Null, _) | (BinOp::Gt | BinOp::Lt, _, RVal::Null) => {
                        Err(Stop::Ambiguous("U10 ordering with null"))
                    }
                    (op, a, b) => Err(Stop::IllTyped(format!(
                        "{op:?} on {} and {}",
                        a.type_name(),
                        b.type_name()
                    ))),
                }
            }
        }
    }

    fn call(&mut self, e: &'p Expr, name: &str, args: &'p [Expr], env: &Rc<Env>) -> Result<RVal, Stop> {
        // global built-ins first (their names are reserved)
        match name {
            "shout" | "typeof" | "to_string" => {
                if args.len() != 1 {
                    return Err(Stop::IllTyped("built-in arity".into()));
                }
                let v = self.eval(&args[0], env)?;
                return match name {
                    "shout" => {
                        self.output.push(v);
                        Ok(RVal::Null)
                    }
                    "typeof" => Ok(RVal::Str(v.type_name().to_string())),
                    _ => {
                        self.stats.string_ops += 1;
                        Ok(RVal::Str(display(&v)?))
                    }
                };
            }
            "read_line" | "command" => {
                return Err(Stop::Ambiguous("host interaction is outside the reference model"));
            }
            _ => {}
        }
        let fid = *self
            .res
            .func_of_call
            .get(&std::ptr::from_ref(e))
            .ok_or_else(|| Stop::IllTyped(format!("unresolved function `{name}`")))?;
        // find the scope instance that hoisted this function: nearest enclosing one
        let mut cur = Some(env.clone());
        let mut closure: Option<Rc<Env>> = None;
        while let Some(sc) = cur {
            if sc.funcs.borrow().contains(&fid) {
                closure = Some(sc);
                break;
            }
            cur = sc.parent.clone();
        }
        let closure = closure.ok_or_else(|| Stop::IllTyped("function not in scope at run time".into()))?;
        let meta = &self.res.funcs[fid as usize];
        if meta.arity != args.len() {
            return Err(Stop::IllTyped("arity".into()));
        }
        // arguments eagerly, left to right
        let mut argv = Vec::with_capacity(args.len());
        for a in args {
            argv.push(self.eval(a, env)?);
        }
        self.stats.calls += 1;
        self.depth += 1;
        self.stats.max_call_depth = self.stats.max_call_depth.max(self.depth);
        if self.depth > self.limits.max_depth {
            return Err(Stop::Budget);
        }
        let activation = self.next_activation;
        self.next_activation += 1;
        let saved_activation = std::mem::replace(&mut self.cur_activation, activation);
        self.live[fid as usize] += 1;
        self.stats.recursion_live_activations =
            self.stats.recursion_live_activations.max(self.live[fid as usize]);
        // parameters live in their own scope under the body block
        let penv = Env::new(Some(closure), activation);
        // SAFETY of the raw pointer: the AST outlives the interpreter run
        let def: &'p FuncDef = unsafe { &*meta.def };
        for (d, v) in meta.param_decls.iter().zip(argv) {
            penv.cells.borrow_mut().push((*d, v));
        }
        for p in &def.params {
            self.note_bound(p, 1);
        }
        let body_env = Env::new(Some(penv), activation);
        let flow = self.block_in(&def.body, body_env);
        for p in &def.params {
            self.note_bound(p, -1);
        }
        self.live[fid as usize] -= 1;
        self.cur_activation = saved_activation;
        self.depth -= 1;
        match flow? {
            Flow::Return(v) => Ok(v),
            Flow::Next => Ok(RVal::Null),
            Flow::Break | Flow::Continue => {
                Err(Stop::IllTyped("comot/next escaped a function body".into()))
            }
        }
    }

    fn method(
        &mut self,
        recv: &'p Expr,
        name: &str,
        args: &'p [Expr],
        env: &Rc<Env>,
    ) -> Result<RVal, Stop> {
        // in-place array methods act on the variable's own array
        if matches!(name, "push" | "pop" | "reverse") {
            let Some((base, idx_exprs)) = flatten_target(recv) else {
                return Err(Stop::IllTyped(format!("`{name}` on a temporary")));
            };
            // `push`: value first, then the receiver's index expressions (U4 kept independent)
            let pushed = if name == "push" {
                if args.len() != 1 {
                    return Err(Stop::IllTyped("arity".into()));
                }
                Some(self.eval(&args[0], env)?)
            } else {
                None
            };
            let mut idx_vals = Vec::new();
            for ie in &idx_exprs {
                idx_vals.push(self.eval(ie, env)?);
            }
            self.stats.array_ops += 1;
            self.stats.array_mutations += 1;
            if !idx_exprs.is_empty()
                && let Expr::Var(bn) = base
                && self.bound_names.iter().any(|(n, c)| n == bn && *c >= 2)
            {
                self.stats.shadowed_path_mutation += 1;
            }
            let name_owned = name.to_string();
            return self.mutate_path(base, &idx_vals, env, move |slot| {
                let RVal::Arr(items) = slot else {
                    return Err(Stop::IllTyped(format!("`{name_owned}` on {}", slot.type_name())));
                };
                match name_owned.as_str() {
                    "push" => {
                        items.push(pushed.unwrap());
                        Ok(RVal::Null)
                    }
                    "pop" => Ok(items.pop().unwrap_or(RVal::Null)),
                    _ => {
                        items.reverse();
                        Ok(RVal::Null)
                    }
                }
            }, false);
        }
        let rv = self.eval(recv, env)?;
        let mut argv = Vec::with_capacity(args.len());
        for a in args {
            argv.push(self.eval(a, env)?);
        }
        let ill = |what: &str| Err(Stop::IllTyped(what.to_string()));
        match rv {
            RVal::Str(s) => {
                self.stats.string_ops += 1;
                match (name, argv.as_slice()) {
                    ("len", []) => Ok(RVal::Num(s.chars().count() as f64)),
                    ("slice", [RVal::Num(a), RVal::Num(b)]) => {
                        if a.is_nan() || b.is_nan() {
                            return Err(Stop::Ambiguous("slice with a NaN bound"));
                        }
                        Ok(RVal::Str(model_slice(&s, *a, *b)))
                    }
                    ("to_uppercase", []) => Ok(RVal::Str(s.to_uppercase())),
                    ("to_lowercase", []) => Ok(RVal::Str(s.to_lowercase())),
                    ("trim", []) => Ok(RVal::Str(s.trim().to_string())),
                    ("find", [RVal::Str(n)]) => {
                        if !s.is_ascii() {
                            return Err(Stop::Ambiguous("U5 find on a non-ASCII haystack (index unit undocumented)"));
                        }
                        Ok(RVal::Num(naive_find(s.as_bytes(), n.as_bytes()).map_or(-1.0, |i| i as f64)))
                    }
                    ("replace", [RVal::Str(a), RVal::Str(b)]) => {
                        if a.is_empty() {
                            return Err(Stop::Ambiguous("replace with an empty pattern (undocumented at script level)"));
                        }
                        // the result can be (|s| / |a|) x |b| bytes: check the budget before building it
                        let mut count = 0u64;
                        let mut pos = 0usize;
                        while let Some(i) = naive_find(&s.as_bytes()[pos..], a.as_bytes()) {
                            count += 1;
                            pos += i + a.len();
                        }
                        let predicted = (s.len() as u64).saturating_add(count.saturating_mul(b.len() as u64));
                        if self.allocated.saturating_add(predicted) > self.limits.max_alloc {
                            return Err(Stop::Budget);
                        }
                        Ok(RVal::Str(naive_replace(&s, a, b)))
                    }
                    ("to_number", []) => {
                        // plain decimal spellings parse exactly; anything else is "NaN on failure"
                        let plain = {
                            let t = s.strip_prefix('-').unwrap_or(&s);
                            !t.is_empty()
                                && t.chars().all(|c| c.is_ascii_digit() || c == '.')
                                && t.matches('.').count() <= 1
                                && t.chars().next().is_some_and(|c| c.is_ascii_digit())
                                && t.chars().last().is_some_and(|c| c.is_ascii_digit())
                        };
                        if plain {
                            Ok(RVal::Num(s.parse::<f64>().unwrap_or(f64::NAN)))
                        } else if s.chars().any(|c| c.is_ascii_alphabetic() && !"einfatyEINFATY".contains(c))
                            || s.is_empty()
                        {
                            Ok(RVal::Num(f64::NAN))
                        } else {
                            Err(Stop::Ambiguous("to_number on a spelling outside plain decimals"))
                        }
                    }
                    ("split", [RVal::Str(p)]) => {
                        if p.is_empty() {
                            return Err(Stop::Ambiguous("split with an empty pattern"));
                        }
                        Ok(RVal::Arr(naive_split(&s, p).into_iter().map(RVal::Str).collect()))
                    }
                    _ => ill(&format!("string method `{name}` with these arguments")),
                }
            }
            RVal::Num(n) => match (name, argv.as_slice()) {
                ("abs", []) => Ok(RVal::Num(n.abs())),
                ("sqrt", []) => Ok(RVal::Num(n.sqrt())),
                ("floor", []) => Ok(RVal::Num(n.floor())),
                ("ceil", []) => Ok(RVal::Num(n.ceil())),
                ("round", []) => {
                    if n.is_finite() && (n.fract().abs() - 0.5).abs() < 1e-12 {
                        return Err(Stop::Ambiguous("U2 round() on a tie"));
                    }
                    Ok(RVal::Num(n.round()))
                }
                _ => ill(&format!("number method `{name}`")),
            },
            RVal::Arr(items) => {
                self.stats.array_ops += 1;
                match (name, argv.as_slice()) {
                    ("len", []) => Ok(RVal::Num(items.len() as f64)),
                    ("join", [RVal::Str(sep)]) => {
                        // (n - 1) x |sep| bytes on top of the elements: check the budget first
                        let predicted = (items.len() as u64).saturating_mul(sep.len() as u64);
                        if self.allocated.saturating_add(predicted) > self.limits.max_alloc {
                            return Err(Stop::Budget);
                        }
                        let mut out = String::new();
                        for (i, it) in items.iter().enumerate() {
                            if i > 0 {
                                out.push_str(sep);
                            }
                            match it {
                                RVal::Str(s) => out.push_str(s),
                                RVal::Num(n) => out.push_str(&num_text(*n)?),
                                RVal::Bool(b) => out.push_str(&b.to_string()),
                                RVal::Null | RVal::Arr(_) => {
                                    return Err(Stop::Ambiguous("U5 join over null / nested arrays"));
                                }
                            }
                        }
                        self.stats.string_ops += 1;
                        Ok(RVal::Str(out))
                    }
                    _ => ill(&format!("array method `{name}`")),
                }
            }
            other => ill(&format!("method `{name}` on {}", other.type_name())),
        }
    }
}

/// `a[i][j]` -> (`a`, [i, j]); `a` -> (`a`, []).
pub fn flatten_target(e: &Expr) -> Option<(&Expr, Vec<&Expr>)> {
    let mut idx = Vec::new();
    let mut cur = e;
    loop {
        match cur {
            Expr::Index(a, i) => {
                idx.push(&**i);
                cur = a;
            }
            Expr::Paren(inner) => cur = inner,
            Expr::Var(_) => {
                idx.reverse();
                return Some((cur, idx));
            }
            _ => return None,
        }
    }
}
