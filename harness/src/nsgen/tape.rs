//! Choice tape: the only source of randomness of the program generators. proptest
//! (or libFuzzer) supplies the bytes; an exhausted tape yields 0, and 0 always
//! selects the first (simplest) alternative, so shrinking the tape simplifies the program.

#[derive(Debug, Clone)]
pub struct Tape<'a> {
    bytes: &'a [u8],
    pos: usize,
    /// reads at or beyond this position yield 0 without advancing (temporary budget caps)
    limit: usize,
}

impl<'a> Tape<'a> {
    pub fn new(bytes: &'a [u8]) -> Self {
        Tape { bytes, pos: 0, limit: bytes.len() }
    }

    pub fn exhausted(&self) -> bool {
        self.pos >= self.limit
    }

    pub fn limit(&self) -> usize {
        self.limit
    }

    pub fn set_limit(&mut self, limit: usize) {
        self.limit = limit.min(self.bytes.len());
    }

    pub fn remaining(&self) -> usize {
        self.limit.saturating_sub(self.pos)
    }

    pub fn consumed(&self) -> usize {
        self.pos
    }

    pub fn byte(&mut self) -> u8 {
        if self.pos >= self.limit {
            return 0;
        }
        let b = self.bytes[self.pos];
        self.pos += 1;
        b
    }

    /// Uniform-ish choice in 0..n, monotone in the byte value (so lowering a byte lowers the choice).
    pub fn choose(&mut self, n: usize) -> usize {
        if n <= 1 {
            return 0;
        }
        if n <= 256 {
            (usize::from(self.byte()) * n) >> 8
        } else {
            let v = (usize::from(self.byte()) << 8) | usize::from(self.byte());
            (v * n) >> 16
        }
    }

    /// Weighted choice: returns the index of the chosen weight. Index 0 should be the simplest alternative.
    pub fn weighted(&mut self, weights: &[u32]) -> usize {
        let total: u32 = weights.iter().sum();
        if total == 0 {
            return 0;
        }
        let v = (u32::from(self.byte()) << 8) | u32::from(self.byte());
        let mut x = (u64::from(v) * u64::from(total) >> 16) as u32;
        for (i, w) in weights.iter().enumerate() {
            if x < *w {
                return i;
            }
            x -= w;
        }
        weights.len() - 1
    }

    /// Integer in lo..=hi.
    pub fn int(&mut self, lo: i64, hi: i64) -> i64 {
        debug_assert!(lo <= hi);
        lo + self.choose((hi - lo + 1) as usize) as i64
    }

    /// True with probability num/den.
    pub fn chance(&mut self, num: u32, den: u32) -> bool {
        // 0 (exhausted tape) => false
        let b = u32::from(self.byte());
        let num = num.min(den);
        b * den >= (den - num) * 256 && num > 0
    }
}
