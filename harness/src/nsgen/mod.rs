//! nsgen: tape-driven program generation, printing/layout, reference interpreter and
//! reference static checker over nsgen's own AST.

pub mod ast;
pub mod print;
pub mod tape;
pub mod build;
pub mod refint;
pub mod resolve;
pub mod rename;
