//! Consistent renaming of the identifiers a program declares (variables, parameters, functions)
//! to names that look like pieces or extensions of keywords. Behaviour is unchanged by
//! construction; lexing is not (multi-word keywords are matched with look-ahead and roll-back).

use super::ast::*;

/// Valid identifiers (checked against the implementation: `make <name> get 1` is accepted) that
/// are words of multi-word keywords, or keywords with something appended.
pub const TRICKY_NAMES: [&str; 36] = [
    "small", "to", "say", "so", "if", "passes", "password", "passe", "pass_", "tosay", "sayso", "sofar", "notso",
    "smallpass", "ifx", "nots", "saying", "ends", "starts", "makes", "gets", "nap", "na_", "returns", "jasix",
    "comots", "nexts", "dox", "andy", "oreo", "nota", "truely", "falsey", "nullx", "adds", "modx",
];

fn declared(b: &Block, out: &mut Vec<String>) {
    fn add(n: &String, out: &mut Vec<String>) {
        if !out.contains(n) {
            out.push(n.clone());
        }
    }
    for s in b {
        match s {
            Stmt::Make(n, _) => add(n, out),
            Stmt::FuncDef(f) => {
                add(&f.name, out);
                for p in &f.params {
                    add(p, out);
                }
            }
            _ => {}
        }
        match s {
            Stmt::If(_, t, e) => {
                declared(t, out);
                if let Some(e) = e {
                    declared(e, out);
                }
            }
            Stmt::Loop(_, b) | Stmt::Block(b) => declared(b, out),
            Stmt::FuncDef(f) => declared(&f.body, out),
            _ => {}
        }
    }
}

fn used_words(b: &Block, out: &mut Vec<String>) {
    fn expr(e: &Expr, out: &mut Vec<String>) {
        match e {
            Expr::Var(n) => out.push(n.clone()),
            Expr::Str(s) => {
                for p in &s.parts {
                    if let StrPart::Interp { name, .. } = p {
                        out.push(name.clone());
                    }
                }
            }
            Expr::Unary(_, a) | Expr::Paren(a) => expr(a, out),
            Expr::Binary(_, a, b) | Expr::Index(a, b) => {
                expr(a, out);
                expr(b, out);
            }
            Expr::Array(v) => v.iter().for_each(|x| expr(x, out)),
            Expr::Call(n, args) => {
                out.push(n.clone());
                args.iter().for_each(|x| expr(x, out));
            }
            Expr::Method(r, n, args) => {
                expr(r, out);
                out.push(n.clone());
                args.iter().for_each(|x| expr(x, out));
            }
            Expr::Member(r, n) => {
                expr(r, out);
                out.push(n.clone());
            }
            Expr::CallExpr(c, args) => {
                expr(c, out);
                args.iter().for_each(|x| expr(x, out));
            }
            _ => {}
        }
    }
    for s in b {
        match s {
            Stmt::Make(n, e) => {
                out.push(n.clone());
                if let Some(e) = e {
                    expr(e, out);
                }
            }
            Stmt::Assign(n, e) => {
                out.push(n.clone());
                expr(e, out);
            }
            Stmt::AssignIndex(t, e) => {
                expr(t, out);
                expr(e, out);
            }
            Stmt::If(c, t, e) => {
                expr(c, out);
                used_words(t, out);
                if let Some(e) = e {
                    used_words(e, out);
                }
            }
            Stmt::Loop(c, b) => {
                expr(c, out);
                used_words(b, out);
            }
            Stmt::Block(b) => used_words(b, out),
            Stmt::FuncDef(f) => {
                out.push(f.name.clone());
                out.extend(f.params.iter().cloned());
                used_words(&f.body, out);
            }
            Stmt::Return(Some(e)) | Stmt::Expr(e) => expr(e, out),
            _ => {}
        }
    }
}

fn apply(b: &mut Block, map: &[(String, String)]) {
    fn name(n: &mut String, map: &[(String, String)]) {
        if let Some((_, to)) = map.iter().find(|(from, _)| from == n) {
            *n = to.clone();
        }
    }
    fn expr(e: &mut Expr, map: &[(String, String)]) {
        match e {
            Expr::Var(n) => name(n, map),
            Expr::Str(s) => {
                for p in &mut s.parts {
                    if let StrPart::Interp { name: n, .. } = p {
                        name(n, map);
                    }
                }
            }
            Expr::Unary(_, a) | Expr::Paren(a) => expr(a, map),
            Expr::Binary(_, a, b) | Expr::Index(a, b) => {
                expr(a, map);
                expr(b, map);
            }
            Expr::Array(v) => v.iter_mut().for_each(|x| expr(x, map)),
            Expr::Call(n, args) => {
                name(n, map);
                args.iter_mut().for_each(|x| expr(x, map));
            }
            Expr::Method(r, _, args) => {
                expr(r, map);
                args.iter_mut().for_each(|x| expr(x, map));
            }
            Expr::Member(r, _) => expr(r, map),
            Expr::CallExpr(c, args) => {
                expr(c, map);
                args.iter_mut().for_each(|x| expr(x, map));
            }
            _ => {}
        }
    }
    for s in b {
        match s {
            Stmt::Make(n, e) => {
                name(n, map);
                if let Some(e) = e {
                    expr(e, map);
                }
            }
            Stmt::Assign(n, e) => {
                name(n, map);
                expr(e, map);
            }
            Stmt::AssignIndex(t, e) => {
                expr(t, map);
                expr(e, map);
            }
            Stmt::If(c, t, e) => {
                expr(c, map);
                apply(t, map);
                if let Some(e) = e {
                    apply(e, map);
                }
            }
            Stmt::Loop(c, b) => {
                expr(c, map);
                apply(b, map);
            }
            Stmt::Block(b) => apply(b, map),
            Stmt::FuncDef(f) => {
                name(&mut f.name, map);
                f.params.iter_mut().for_each(|p| name(p, map));
                apply(&mut f.body, map);
            }
            Stmt::Return(Some(e)) | Stmt::Expr(e) => expr(e, map),
            _ => {}
        }
    }
}

/// Renames about half of the declared identifiers (chosen by `seed`) to tricky names, the same
/// way everywhere. Returns how many were renamed. Names that occur in the program without being
/// declared (built-ins, injected undeclared names, method names) are never touched and never
/// reused as a new name.
pub fn declared_names(p: &Program) -> Vec<String> {
    let mut decl = Vec::new();
    declared(&p.body, &mut decl);
    decl
}

/// `forced`: renames that are applied first when both names are free (used to build a chosen
/// adjacency such as `... small` / `passes ...`).
pub fn rename_tricky(p: &mut Program, seed: u64, forced: &[(String, &'static str)]) -> usize {
    let mut decl = Vec::new();
    declared(&p.body, &mut decl);
    let mut words = Vec::new();
    used_words(&p.body, &mut words);
    let mut x = seed | 1;
    let mut next = move || {
        x = x.wrapping_mul(6_364_136_223_846_793_005).wrapping_add(1_442_695_040_888_963_407);
        (x >> 33) as usize
    };
    let mut map: Vec<(String, String)> = Vec::new();
    if forced.iter().all(|(from, to)| decl.contains(from) && !words.iter().any(|w| w == to)) {
        for (from, to) in forced {
            if !map.iter().any(|(f, t)| f == from || t == to) {
                map.push((from.clone(), (*to).to_string()));
            }
        }
    }
    for d in &decl {
        if map.iter().any(|(f, _)| f == d) || next() % 2 == 0 {
            continue;
        }
        // the first names of the list (keyword pieces and `pass...`) are chosen more often
        let r = next();
        let pick = if r % 3 == 0 { r / 3 % TRICKY_NAMES.len() } else { r / 3 % 10 };
        let cand = TRICKY_NAMES[pick];
        if words.iter().any(|w| w == cand) || map.iter().any(|(_, t)| t == cand) {
            continue;
        }
        map.push((d.clone(), cand.to_string()));
    }
    apply(&mut p.body, &map);
    map.len()
}
