//! AST -> token list -> source text. The token list is what the layout engine re-renders
//! (C10): by construction every layout of one program has the same token sequence.

use super::ast::*;
use super::tape::Tape;

#[derive(Debug, Clone, PartialEq)]
pub enum Tok {
    /// identifier or single-word keyword
    Word(String),
    /// multi-word keyword (`if to say`, `if not so`, `small pass`)
    Multi(Vec<&'static str>),
    Num(String),
    /// complete string literal text including quotes and escapes
    Str(String),
    /// punctuation ( ) [ ] , .
    P(char),
    /// layout hint for the canonical rendering: line break, then indent by the given depth
    Brk(u16),
}

/// Decimal spelling of a non-negative finite literal that the lexer accepts
/// (digits with an optional fraction; Rust's `{}` never uses an exponent).
pub fn num_text(v: f64) -> String {
    debug_assert!(v.is_finite() && !v.is_sign_negative());
    format!("{v}")
}

/// Encodes literal text for a string literal with the given quote character.
/// Only the escapes the lexer knows (\n \t \\ \" \') are produced; every other character
/// is written raw. The caller must not pass '\r' (no escape exists and a raw CR ends the line).
pub fn escape_text(text: &str, quote: char, out: &mut String) {
    for ch in text.chars() {
        match ch {
            '\n' => out.push_str("\\n"),
            '\t' => out.push_str("\\t"),
            '\\' => out.push_str("\\\\"),
            c if c == quote => {
                out.push('\\');
                out.push(c);
            }
            c => out.push(c),
        }
    }
}

pub fn str_lit_text(lit: &StrLit) -> String {
    let mut s = String::new();
    s.push(lit.quote);
    for p in &lit.parts {
        match p {
            StrPart::Text(t) => escape_text(t, lit.quote, &mut s),
            StrPart::Interp { name, ws_before, ws_after } => {
                s.push('{');
                s.push_str(ws_before);
                s.push_str(name);
                s.push_str(ws_after);
                s.push('}');
            }
        }
    }
    s.push(lit.quote);
    s
}

struct Printer {
    toks: Vec<Tok>,
    depth: u16,
}

fn word(s: &str) -> Tok {
    Tok::Word(s.to_string())
}

impl Printer {
    fn brk(&mut self) {
        self.toks.push(Tok::Brk(self.depth));
    }

    fn block(&mut self, b: &Block) {
        self.toks.push(word("start"));
        self.depth += 1;
        for s in b {
            self.brk();
            self.stmt(s);
        }
        self.depth -= 1;
        self.brk();
        self.toks.push(word("end"));
    }

    fn stmt(&mut self, s: &Stmt) {
        match s {
            Stmt::Make(name, init) => {
                self.toks.push(word("make"));
                self.toks.push(word(name));
                if let Some(e) = init {
                    self.toks.push(word("get"));
                    self.expr(e, 0);
                }
            }
            Stmt::Assign(name, e) => {
                self.toks.push(word(name));
                self.toks.push(word("get"));
                self.expr(e, 0);
            }
            Stmt::AssignIndex(target, e) => {
                self.expr(target, 0);
                self.toks.push(word("get"));
                self.expr(e, 0);
            }
            Stmt::If(c, t, e) => {
                self.toks.push(Tok::Multi(vec!["if", "to", "say"]));
                self.toks.push(Tok::P('('));
                self.expr(c, 0);
                self.toks.push(Tok::P(')'));
                self.block(t);
                if let Some(e) = e {
                    self.brk();
                    self.toks.push(Tok::Multi(vec!["if", "not", "so"]));
                    self.block(e);
                }
            }
            Stmt::Loop(c, b) => {
                self.toks.push(word("jasi"));
                self.toks.push(Tok::P('('));
                self.expr(c, 0);
                self.toks.push(Tok::P(')'));
                self.block(b);
            }
            Stmt::Block(b) => self.block(b),
            Stmt::FuncDef(f) => {
                self.toks.push(word("do"));
                self.toks.push(word(&f.name));
                self.toks.push(Tok::P('('));
                for (i, p) in f.params.iter().enumerate() {
                    if i > 0 {
                        self.toks.push(Tok::P(','));
                    }
                    self.toks.push(word(p));
                }
                self.toks.push(Tok::P(')'));
                self.block(&f.body);
            }
            Stmt::Return(e) => {
                self.toks.push(word("return"));
                if let Some(e) = e {
                    self.expr(e, 0);
                }
            }
            Stmt::Break => self.toks.push(word("comot")),
            Stmt::Continue => self.toks.push(word("next")),
            Stmt::Expr(e) => self.expr(e, 0),
        }
    }

    fn args(&mut self, args: &[Expr]) {
        self.toks.push(Tok::P('('));
        for (i, a) in args.iter().enumerate() {
            if i > 0 {
                self.toks.push(Tok::P(','));
            }
            self.expr(a, 0);
        }
        self.toks.push(Tok::P(')'));
    }

    /// Emits `e`, parenthesised iff its precedence is below `min_prec`.
    fn expr(&mut self, e: &Expr, min_prec: u8) {
        let needs = e.prec() < min_prec;
        if needs {
            self.toks.push(Tok::P('('));
        }
        match e {
            Expr::Num(v) => self.toks.push(Tok::Num(num_text(*v))),
            Expr::Str(lit) => self.toks.push(Tok::Str(str_lit_text(lit))),
            Expr::Bool(b) => self.toks.push(word(if *b { "true" } else { "false" })),
            Expr::Null => self.toks.push(word("null")),
            Expr::Var(n) => self.toks.push(word(n)),
            Expr::Unary(op, inner) => {
                self.toks.push(word(match op {
                    UnOp::Not => "not",
                    UnOp::Neg => "minus",
                }));
                // operand is parsed with a binding power above every binary operator
                self.expr(inner, PREC_UNARY);
            }
            Expr::Binary(op, l, r) => {
                // all binary operators are left-associative
                self.expr(l, op.prec());
                match op {
                    BinOp::Lt => self.toks.push(Tok::Multi(vec!["small", "pass"])),
                    _ => self.toks.push(word(op.word())),
                }
                self.expr(r, op.prec() + 1);
            }
            Expr::Array(items) => {
                self.toks.push(Tok::P('['));
                for (i, a) in items.iter().enumerate() {
                    if i > 0 {
                        self.toks.push(Tok::P(','));
                    }
                    self.expr(a, 0);
                }
                self.toks.push(Tok::P(']'));
            }
            Expr::Index(a, i) => {
                self.receiver(a);
                self.toks.push(Tok::P('['));
                self.expr(i, 0);
                self.toks.push(Tok::P(']'));
            }
            Expr::Call(name, args) => {
                self.toks.push(word(name));
                self.args(args);
            }
            Expr::Method(recv, name, args) => {
                self.receiver(recv);
                self.toks.push(Tok::P('.'));
                self.toks.push(word(name));
                self.args(args);
            }
            Expr::Member(recv, name) => {
                self.receiver(recv);
                self.toks.push(Tok::P('.'));
                self.toks.push(word(name));
            }
            Expr::CallExpr(callee, args) => {
                self.receiver(callee);
                self.args(args);
            }
            Expr::Paren(inner) => {
                self.toks.push(Tok::P('('));
                self.expr(inner, 0);
                self.toks.push(Tok::P(')'));
            }
        }
        if needs {
            self.toks.push(Tok::P(')'));
        }
    }

    /// Receiver of a postfix operator. An integer literal must be parenthesised:
    /// `16.sqrt()` is a lexical error ("16." has no digit after the dot).
    fn receiver(&mut self, e: &Expr) {
        if let Expr::Num(v) = e
            && !num_text(*v).contains('.')
        {
            self.toks.push(Tok::P('('));
            self.toks.push(Tok::Num(num_text(*v)));
            self.toks.push(Tok::P(')'));
            return;
        }
        self.expr(e, PREC_POSTFIX);
    }
}

pub fn tokens(p: &Program) -> Vec<Tok> {
    let mut pr = Printer { toks: Vec::new(), depth: 0 };
    for (i, s) in p.body.iter().enumerate() {
        if i > 0 {
            pr.brk();
        }
        pr.stmt(s);
    }
    pr.toks
}

pub fn expr_tokens(e: &Expr) -> Vec<Tok> {
    let mut pr = Printer { toks: Vec::new(), depth: 0 };
    pr.expr(e, 0);
    pr.toks
}

/// Does the lexer need whitespace between these two adjacent tokens?
pub fn needs_sep(a: &Tok, b: &Tok) -> bool {
    let wordish = |t: &Tok| matches!(t, Tok::Word(_) | Tok::Multi(_) | Tok::Num(_));
    if wordish(a) && wordish(b) {
        return true;
    }
    // "16" followed by "." would lex as the invalid number "16."
    if let (Tok::Num(n), Tok::P('.')) = (a, b) {
        return !n.contains('.');
    }
    false
}

fn tok_text(t: &Tok, multi_sep: &mut dyn FnMut() -> String, out: &mut String) {
    match t {
        Tok::Word(w) => out.push_str(w),
        Tok::Multi(ws) => {
            for (i, w) in ws.iter().enumerate() {
                if i > 0 {
                    out.push_str(&multi_sep());
                }
                out.push_str(w);
            }
        }
        Tok::Num(n) => out.push_str(n),
        Tok::Str(s) => out.push_str(s),
        Tok::P(c) => out.push(*c),
        Tok::Brk(_) => {}
    }
}

/// Canonical layout: one statement per line, indentation, single spaces.
pub fn render_canonical(toks: &[Tok]) -> String {
    let mut out = String::new();
    let mut prev: Option<&Tok> = None;
    for t in toks {
        if let Tok::Brk(d) = t {
            out.push('\n');
            for _ in 0..*d {
                out.push_str("    ");
            }
            prev = None;
            continue;
        }
        if let Some(p) = prev {
            let tight_after = matches!(p, Tok::P('(') | Tok::P('[') | Tok::P('.'));
            let tight_before = matches!(t, Tok::P(')') | Tok::P(']') | Tok::P(',') | Tok::P('.') | Tok::P('(') | Tok::P('['));
            // an opening bracket directly after a keyword reads better with a space
            let keyword_paren = matches!(t, Tok::P('(') | Tok::P('['))
                && (matches!(p, Tok::Multi(_) | Tok::P(','))
                    || matches!(p, Tok::Word(w) if super::resolve::KEYWORDS.contains(&w.as_str())));
            if needs_sep(p, t) || keyword_paren || !(tight_after || tight_before) {
                out.push(' ');
            }
        }
        tok_text(t, &mut || " ".to_string(), &mut out);
        prev = Some(t);
    }
    out.push('\n');
    out
}

pub fn to_source(p: &Program) -> String {
    render_canonical(&tokens(p))
}

#[derive(Debug, Clone, Copy, PartialEq, Eq)]
pub enum Layout {
    Canonical,
    SingleLine,
    TokenPerLine,
    RandomSeparators,
    Comments,
    Padded,
}

pub const LAYOUTS: [Layout; 6] = [
    Layout::Canonical,
    Layout::SingleLine,
    Layout::TokenPerLine,
    Layout::RandomSeparators,
    Layout::Comments,
    Layout::Padded,
];

/// Statistics of one rendering (for the non-triviality rule of C10).
#[derive(Debug, Clone, Copy, Default)]
pub struct LayoutStats {
    pub gaps_differing: u32,
    pub comments: u32,
    pub crs: u32,
    pub split_multi: u32,
}

const SEPS: [&str; 9] = [" ", "\t", "\n", "\r", "\r\n", "  ", " \t ", "\n\n", "\r\n\t"];

const COMMENT_TEXTS: [&str; 10] = [
    "",
    " plain comment",
    " make x get 1",
    " \"unterminated",
    " 'quote' end start",
    "# double hash #",
    " if to say (true) start",
    " commentaire é 世界 🌎",
    " shout(\"M4RK\")",
    "\t tab inside ",
];

/// Renders the token list in the given layout. Random choices are read from `tape`
/// (proptest-provided bytes), never from an RNG of our own.
pub fn render_layout(toks: &[Tok], layout: Layout, tape: &mut Tape) -> (String, LayoutStats) {
    let mut stats = LayoutStats::default();
    if layout == Layout::Canonical {
        return (render_canonical(toks), stats);
    }
    let real: Vec<&Tok> = toks.iter().filter(|t| !matches!(t, Tok::Brk(_))).collect();
    let mut out = String::new();
    if layout == Layout::Padded {
        for _ in 0..=tape.choose(4) {
            out.push_str(SEPS[tape.choose(SEPS.len())]);
        }
    }
    for (i, t) in real.iter().enumerate() {
        if i > 0 {
            let must = needs_sep(real[i - 1], t);
            let sep: String = match layout {
                Layout::SingleLine => " ".to_string(),
                Layout::TokenPerLine => "\n".to_string(),
                Layout::Padded => {
                    if must || tape.choose(2) == 1 { " ".to_string() } else { String::new() }
                }
                Layout::RandomSeparators => {
                    let n = if must { 1 + tape.choose(3) } else { tape.choose(3) };
                    (0..n).map(|_| SEPS[tape.choose(SEPS.len())]).collect()
                }
                Layout::Comments => {
                    let mut s = String::new();
                    if tape.choose(3) == 0 {
                        // a comment directly after the previous token, or after some blanks
                        if tape.choose(2) == 1 {
                            s.push(' ');
                        }
                        s.push('#');
                        s.push_str(COMMENT_TEXTS[tape.choose(COMMENT_TEXTS.len())]);
                        s.push_str(["\n", "\r", "\r\n"][tape.choose(3)]);
                        stats.comments += 1;
                    } else if must || tape.choose(2) == 1 {
                        s.push_str(SEPS[tape.choose(SEPS.len())]);
                    }
                    s
                }
                Layout::Canonical => unreachable!(),
            };
            if sep != " " {
                stats.gaps_differing += 1;
            }
            stats.crs += sep.matches('\r').count() as u32;
            out.push_str(&sep);
        }
        let mut multi_sep = || -> String {
            match layout {
                Layout::SingleLine => " ".to_string(),
                Layout::TokenPerLine => {
                    stats.split_multi += 1;
                    "\n".to_string()
                }
                _ => {
                    let n = 1 + tape.choose(2);
                    let s: String = (0..n).map(|_| SEPS[tape.choose(SEPS.len())]).collect();
                    if s != " " {
                        stats.split_multi += 1;
                    }
                    s
                }
            }
        };
        tok_text(t, &mut multi_sep, &mut out);
    }
    match layout {
        Layout::Comments => {
            // a final comment terminated by end of input (or a line terminator)
            if tape.choose(2) == 1 {
                out.push_str(" #");
                out.push_str(COMMENT_TEXTS[tape.choose(COMMENT_TEXTS.len())]);
                out.push_str(["", "\n", "\r", "\r\n"][tape.choose(4)]);
                stats.comments += 1;
            }
        }
        Layout::Padded => {
            for _ in 0..=tape.choose(4) {
                out.push_str(SEPS[tape.choose(SEPS.len())]);
            }
        }
        Layout::TokenPerLine => out.push('\n'),
        _ => {}
    }
    (out, stats)
}
