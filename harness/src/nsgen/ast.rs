//! nsgen's own AST for NaijaScript programs (independent of the implementation's AST).

#[derive(Debug, Clone, Copy, PartialEq, Eq, Hash)]
pub enum UnOp {
    Not,
    Neg,
}

#[derive(Debug, Clone, Copy, PartialEq, Eq, Hash)]
pub enum BinOp {
    Add,
    Minus,
    Times,
    Divide,
    Mod,
    And,
    Or,
    Eq,
    Gt,
    Lt,
}

impl BinOp {
    /// Documented precedence: or < and < comparison < add/minus < times/divide/mod.
    pub fn prec(self) -> u8 {
        match self {
            BinOp::Or => 1,
            BinOp::And => 2,
            BinOp::Eq | BinOp::Gt | BinOp::Lt => 3,
            BinOp::Add | BinOp::Minus => 4,
            BinOp::Times | BinOp::Divide | BinOp::Mod => 5,
        }
    }
    pub fn word(self) -> &'static str {
        match self {
            BinOp::Add => "add",
            BinOp::Minus => "minus",
            BinOp::Times => "times",
            BinOp::Divide => "divide",
            BinOp::Mod => "mod",
            BinOp::And => "and",
            BinOp::Or => "or",
            BinOp::Eq => "na",
            BinOp::Gt => "pass",
            BinOp::Lt => "small pass",
        }
    }
}

pub const PREC_UNARY: u8 = 6;
pub const PREC_POSTFIX: u8 = 7;
pub const PREC_ATOM: u8 = 8;

#[derive(Debug, Clone, PartialEq)]
pub enum StrPart {
    /// literal characters (the printer escapes what needs escaping)
    Text(String),
    /// `{name}` placeholder with optional ASCII whitespace inside the braces
    Interp { name: String, ws_before: String, ws_after: String },
}

#[derive(Debug, Clone, PartialEq)]
pub struct StrLit {
    /// `"` or `'`
    pub quote: char,
    pub parts: Vec<StrPart>,
}

impl StrLit {
    pub fn plain(text: &str) -> StrLit {
        StrLit { quote: '"', parts: vec![StrPart::Text(text.to_string())] }
    }
    pub fn has_interp(&self) -> bool {
        self.parts.iter().any(|p| matches!(p, StrPart::Interp { .. }))
    }
    /// True when the printed literal needs at least one escape sequence.
    pub fn needs_escape(&self) -> bool {
        self.parts.iter().any(|p| match p {
            StrPart::Text(t) => {
                t.chars().any(|c| c == '\n' || c == '\t' || c == '\\' || c == self.quote)
            }
            StrPart::Interp { .. } => false,
        })
    }
}

#[derive(Debug, Clone, PartialEq)]
pub enum Expr {
    /// non-negative finite literal
    Num(f64),
    Str(StrLit),
    Bool(bool),
    Null,
    Var(String),
    Unary(UnOp, Box<Expr>),
    Binary(BinOp, Box<Expr>, Box<Expr>),
    Array(Vec<Expr>),
    Index(Box<Expr>, Box<Expr>),
    /// call of a user function or a global built-in by name
    Call(String, Vec<Expr>),
    /// method call `recv.name(args)`
    Method(Box<Expr>, String, Vec<Expr>),
    /// member access without call `recv.name` (only ill-formed / C06 programs)
    Member(Box<Expr>, String),
    /// call whose callee is an arbitrary expression (only ill-formed / C06 programs)
    CallExpr(Box<Expr>, Vec<Expr>),
    /// explicit redundant parentheses
    Paren(Box<Expr>),
}

impl Expr {
    pub fn num(v: f64) -> Expr {
        if v.is_sign_negative() && v != 0.0 {
            Expr::Unary(UnOp::Neg, Box::new(Expr::Num(-v)))
        } else {
            Expr::Num(v.abs())
        }
    }
    pub fn str(s: &str) -> Expr {
        Expr::Str(StrLit::plain(s))
    }
    pub fn var(s: &str) -> Expr {
        Expr::Var(s.to_string())
    }
    pub fn bin(op: BinOp, l: Expr, r: Expr) -> Expr {
        Expr::Binary(op, Box::new(l), Box::new(r))
    }
    pub fn un(op: UnOp, e: Expr) -> Expr {
        Expr::Unary(op, Box::new(e))
    }
    pub fn call(name: &str, args: Vec<Expr>) -> Expr {
        Expr::Call(name.to_string(), args)
    }
    pub fn method(recv: Expr, name: &str, args: Vec<Expr>) -> Expr {
        Expr::Method(Box::new(recv), name.to_string(), args)
    }
    pub fn index(a: Expr, i: Expr) -> Expr {
        Expr::Index(Box::new(a), Box::new(i))
    }
    pub fn prec(&self) -> u8 {
        match self {
            Expr::Binary(op, ..) => op.prec(),
            Expr::Unary(..) => PREC_UNARY,
            Expr::Index(..) | Expr::Call(..) | Expr::Method(..) | Expr::Member(..) | Expr::CallExpr(..) => {
                PREC_POSTFIX
            }
            _ => PREC_ATOM,
        }
    }
}

#[derive(Debug, Clone, PartialEq)]
pub struct FuncDef {
    pub name: String,
    pub params: Vec<String>,
    pub body: Block,
}

#[derive(Debug, Clone, PartialEq)]
pub enum Stmt {
    /// `make x get e` / `make x`
    Make(String, Option<Expr>),
    /// `x get e`
    Assign(String, Expr),
    /// `a[i][j] get e` (target is an Index chain rooted at a variable)
    AssignIndex(Expr, Expr),
    If(Expr, Block, Option<Block>),
    Loop(Expr, Block),
    Block(Block),
    FuncDef(FuncDef),
    Return(Option<Expr>),
    Break,
    Continue,
    /// expression statement (must begin with an identifier)
    Expr(Expr),
}

pub type Block = Vec<Stmt>;

#[derive(Debug, Clone, PartialEq, Default)]
pub struct Program {
    pub body: Block,
}

/// Counts statements (recursively).
pub fn count_stmts(b: &Block) -> usize {
    b.iter()
        .map(|s| {
            1 + match s {
                Stmt::If(_, t, e) => count_stmts(t) + e.as_ref().map_or(0, count_stmts),
                Stmt::Loop(_, b) | Stmt::Block(b) => count_stmts(b),
                Stmt::FuncDef(f) => count_stmts(&f.body),
                _ => 0,
            }
        })
        .sum()
}
