//! Reference static checker / name resolution over the nsgen AST.
//!
//! Implements only the *documented* static rules (docs/*.md and the property statements):
//! lexical block scoping with textual order for variables, per-block function tables with
//! forward visibility, arity tables from the docs, loop / function context for
//! `comot` / `next` / `return`, duplicate function / parameter, reserved and built-in
//! names, and clear-cut type errors on literal or declared types.
//!
//! The result doubles as the binding table of the reference interpreter.

use std::collections::HashMap;

use super::ast::*;

pub type DeclId = u32;
pub type FuncId = u32;

#[derive(Debug, Clone, Copy, PartialEq, Eq, Hash, PartialOrd, Ord)]
pub enum Rule {
    UndeclaredVariable,
    AssignUndeclared,
    UnknownFunction,
    Arity,
    BreakOutsideLoop,
    ContinueOutsideLoop,
    ReturnOutsideFunction,
    DuplicateFunction,
    DuplicateParameter,
    ReservedName,
    TypeError,
    UnknownMethod,
}

impl Rule {
    pub fn name(self) -> &'static str {
        match self {
            Rule::UndeclaredVariable => "undeclared-variable",
            Rule::AssignUndeclared => "assign-undeclared",
            Rule::UnknownFunction => "unknown-function",
            Rule::Arity => "arity",
            Rule::BreakOutsideLoop => "comot-outside-loop",
            Rule::ContinueOutsideLoop => "next-outside-loop",
            Rule::ReturnOutsideFunction => "return-outside-function",
            Rule::DuplicateFunction => "duplicate-function",
            Rule::DuplicateParameter => "duplicate-parameter",
            Rule::ReservedName => "reserved-name",
            Rule::TypeError => "type-error",
            Rule::UnknownMethod => "unknown-method",
        }
    }
}

#[derive(Debug, Clone)]
pub struct Issue {
    pub rule: Rule,
    pub detail: String,
}

/// Static (literal / declared) type. `Dyn` = only known at run time.
#[derive(Debug, Clone, Copy, PartialEq, Eq)]
pub enum STy {
    Num,
    Str,
    Bool,
    Null,
    Arr,
    Dyn,
}

pub const GLOBAL_BUILTINS: [(&str, usize); 5] =
    [("shout", 1), ("typeof", 1), ("read_line", 1), ("to_string", 1), ("command", 1)];

pub const KEYWORDS: [&str; 26] = [
    "make", "get", "add", "minus", "times", "divide", "mod", "and", "or", "not", "jasi", "start",
    "end", "comot", "next", "na", "pass", "true", "false", "null", "do", "return", "if", "small",
    "to", "say",
];

pub fn string_method(name: &str) -> Option<(usize, STy)> {
    Some(match name {
        "len" => (0, STy::Num),
        "slice" => (2, STy::Str),
        "to_uppercase" | "to_lowercase" | "trim" => (0, STy::Str),
        "find" => (1, STy::Num),
        "replace" => (2, STy::Str),
        "to_number" => (0, STy::Num),
        "split" => (1, STy::Arr),
        _ => return None,
    })
}

pub fn array_method(name: &str) -> Option<(usize, STy)> {
    Some(match name {
        "len" => (0, STy::Num),
        "push" => (1, STy::Null),
        "pop" => (0, STy::Dyn),
        "reverse" => (0, STy::Null),
        "join" => (1, STy::Str),
        _ => return None,
    })
}

pub fn number_method(name: &str) -> Option<(usize, STy)> {
    Some(match name {
        "abs" | "sqrt" | "floor" | "ceil" | "round" => (0, STy::Num),
        _ => return None,
    })
}

#[derive(Debug, Clone)]
pub struct FuncMeta {
    pub name: String,
    pub arity: usize,
    pub def: *const FuncDef,
    pub param_decls: Vec<DeclId>,
}

#[derive(Debug, Default)]
pub struct Resolved {
    /// `Expr::Var` node -> declaration
    pub var_of_expr: HashMap<*const Expr, DeclId>,
    /// `Stmt::Make` / `Stmt::Assign` node -> declaration it (re)binds or assigns
    pub decl_of_stmt: HashMap<*const Stmt, DeclId>,
    /// `StrPart::Interp` node -> declaration
    pub var_of_part: HashMap<*const StrPart, DeclId>,
    /// `Expr::Call` node (user function) -> function
    pub func_of_call: HashMap<*const Expr, FuncId>,
    pub func_of_def: HashMap<*const FuncDef, FuncId>,
    pub funcs: Vec<FuncMeta>,
    pub decl_names: Vec<String>,
    pub issues: Vec<Issue>,
}

impl Resolved {
    pub fn rules(&self) -> Vec<Rule> {
        let mut r: Vec<Rule> = self.issues.iter().map(|i| i.rule).collect();
        r.sort();
        r.dedup();
        r
    }
    pub fn ok(&self) -> bool {
        self.issues.is_empty()
    }
}

struct VarEntry {
    name: String,
    decl: DeclId,
    ty: STy,
}

struct FnEntry {
    name: String,
    id: FuncId,
    arity: usize,
    ret: STy,
}

struct Scope {
    vars: Vec<VarEntry>,
    funcs: Vec<FnEntry>,
}

struct Checker {
    scopes: Vec<Scope>,
    loop_depth: usize,
    in_function: bool,
    out: Resolved,
}

pub fn resolve(p: &Program) -> Resolved {
    let mut c = Checker { scopes: Vec::new(), loop_depth: 0, in_function: false, out: Resolved::default() };
    c.block(&p.body);
    c.out
}

fn is_builtin(name: &str) -> bool {
    GLOBAL_BUILTINS.iter().any(|(n, _)| *n == name)
}

impl Checker {
    fn issue(&mut self, rule: Rule, detail: String) {
        self.out.issues.push(Issue { rule, detail });
    }

    fn new_decl(&mut self, name: &str) -> DeclId {
        let id = self.out.decl_names.len() as DeclId;
        self.out.decl_names.push(name.to_string());
        id
    }

    fn lookup_var(&self, name: &str) -> Option<(DeclId, STy)> {
        for s in self.scopes.iter().rev() {
            if let Some(v) = s.vars.iter().rev().find(|v| v.name == name) {
                return Some((v.decl, v.ty));
            }
        }
        None
    }

    fn lookup_fn(&self, name: &str) -> Option<(FuncId, usize, STy)> {
        for s in self.scopes.iter().rev() {
            if let Some(f) = s.funcs.iter().find(|f| f.name == name) {
                return Some((f.id, f.arity, f.ret));
            }
        }
        None
    }

    fn check_name(&mut self, name: &str, what: &str) {
        if is_builtin(name) || KEYWORDS.contains(&name) {
            self.issue(Rule::ReservedName, format!("{what} `{name}`"));
        }
    }

    fn block(&mut self, b: &Block) {
        self.scopes.push(Scope { vars: Vec::new(), funcs: Vec::new() });
        // functions are visible throughout the block that defines them
        let mut pending: Vec<(usize, &FuncDef)> = Vec::new();
        for s in b {
            if let Stmt::FuncDef(f) = s {
                self.check_name(&f.name, "function name");
                let dup = self.scopes.last().unwrap().funcs.iter().any(|e| e.name == f.name);
                if dup {
                    self.issue(Rule::DuplicateFunction, format!("function `{}`", f.name));
                    continue;
                }
                let mut seen: Vec<&str> = Vec::new();
                for p in &f.params {
                    self.check_name(p, "parameter");
                    if seen.contains(&p.as_str()) {
                        self.issue(Rule::DuplicateParameter, format!("parameter `{p}` of `{}`", f.name));
                    }
                    seen.push(p);
                }
                let id = self.out.funcs.len() as FuncId;
                self.out.funcs.push(FuncMeta {
                    name: f.name.clone(),
                    arity: f.params.len(),
                    def: std::ptr::from_ref(f),
                    param_decls: Vec::new(),
                });
                self.out.func_of_def.insert(std::ptr::from_ref(f), id);
                let idx = self.scopes.last().unwrap().funcs.len();
                self.scopes.last_mut().unwrap().funcs.push(FnEntry {
                    name: f.name.clone(),
                    id,
                    arity: f.params.len(),
                    ret: STy::Dyn,
                });
                pending.push((idx, f));
            }
        }
        // Return types: a function whose `return`s all have the same literal/declared type has
        // that type; anything else is dynamic. Only used for clear-cut type errors, so the
        // conservative answer `Dyn` is always sound.
        for (idx, f) in &pending {
            let ret = self.declared_return_type(f);
            self.scopes.last_mut().unwrap().funcs[*idx].ret = ret;
        }
        for s in b {
            self.stmt(s);
        }
        self.scopes.pop();
    }

    /// Literal return type when every `return` returns a literal of the same type
    /// (or there is no `return` at all => null). Otherwise `Dyn`.
    fn declared_return_type(&self, f: &FuncDef) -> STy {
        fn collect(b: &Block, out: &mut Vec<STy>) {
            for s in b {
                match s {
                    Stmt::Return(None) => out.push(STy::Null),
                    Stmt::Return(Some(e)) => out.push(match e {
                        Expr::Num(_) => STy::Num,
                        Expr::Str(_) => STy::Str,
                        Expr::Bool(_) => STy::Bool,
                        Expr::Null => STy::Null,
                        Expr::Array(_) => STy::Arr,
                        _ => STy::Dyn,
                    }),
                    Stmt::If(_, t, e) => {
                        collect(t, out);
                        if let Some(e) = e {
                            collect(e, out);
                        }
                    }
                    Stmt::Loop(_, b) | Stmt::Block(b) => collect(b, out),
                    _ => {}
                }
            }
        }
        let mut tys = Vec::new();
        collect(&f.body, &mut tys);
        match tys.first() {
            None => STy::Null,
            Some(first) if tys.iter().all(|t| t == first) => *first,
            _ => STy::Dyn,
        }
    }

    fn stmt(&mut self, s: &Stmt) {
        match s {
            Stmt::Make(name, init) => {
                self.check_name(name, "variable name");
                let ty = match init {
                    Some(e) => {
                        self.expr(e);
                        self.ty(e)
                    }
                    None => STy::Null,
                };
                // re-declaring a name in the same block rebinds that same variable
                let existing =
                    self.scopes.last().unwrap().vars.iter().position(|v| v.name == *name);
                let decl = if let Some(i) = existing {
                    let scope = self.scopes.last_mut().unwrap();
                    scope.vars[i].ty = ty;
                    scope.vars[i].decl
                } else {
                    let d = self.new_decl(name);
                    self.scopes.last_mut().unwrap().vars.push(VarEntry {
                        name: name.clone(),
                        decl: d,
                        ty,
                    });
                    d
                };
                self.out.decl_of_stmt.insert(std::ptr::from_ref(s), decl);
            }
            Stmt::Assign(name, e) => {
                if let Some((d, _)) = self.lookup_var(name) {
                    self.out.decl_of_stmt.insert(std::ptr::from_ref(s), d);
                } else {
                    self.issue(Rule::AssignUndeclared, format!("assignment to `{name}`"));
                }
                self.expr(e);
            }
            Stmt::AssignIndex(target, e) => {
                self.expr(target);
                self.expr(e);
            }
            Stmt::If(c, t, e) => {
                self.expr(c);
                self.condition(c);
                self.block(t);
                if let Some(e) = e {
                    self.block(e);
                }
            }
            Stmt::Loop(c, b) => {
                self.expr(c);
                self.condition(c);
                self.loop_depth += 1;
                self.block(b);
                self.loop_depth -= 1;
            }
            Stmt::Block(b) => self.block(b),
            Stmt::FuncDef(f) => {
                let Some(&id) = self.out.func_of_def.get(&std::ptr::from_ref(f)) else {
                    return; // duplicate definition: not analysed further
                };
                // loop context does not extend into a function body
                let saved_loop = std::mem::replace(&mut self.loop_depth, 0);
                let saved_fn = std::mem::replace(&mut self.in_function, true);
                self.scopes.push(Scope { vars: Vec::new(), funcs: Vec::new() });
                let mut decls = Vec::new();
                for p in &f.params {
                    let d = self.new_decl(p);
                    decls.push(d);
                    self.scopes.last_mut().unwrap().vars.push(VarEntry {
                        name: p.clone(),
                        decl: d,
                        ty: STy::Dyn,
                    });
                }
                self.out.funcs[id as usize].param_decls = decls;
                self.block(&f.body);
                self.scopes.pop();
                self.loop_depth = saved_loop;
                self.in_function = saved_fn;
            }
            Stmt::Return(e) => {
                if !self.in_function {
                    self.issue(Rule::ReturnOutsideFunction, "`return` outside any function".into());
                }
                if let Some(e) = e {
                    self.expr(e);
                }
            }
            Stmt::Break => {
                if self.loop_depth == 0 {
                    self.issue(Rule::BreakOutsideLoop, "`comot` with no enclosing loop".into());
                }
            }
            Stmt::Continue => {
                if self.loop_depth == 0 {
                    self.issue(Rule::ContinueOutsideLoop, "`next` with no enclosing loop".into());
                }
            }
            Stmt::Expr(e) => self.expr(e),
        }
    }

    fn condition(&mut self, c: &Expr) {
        let t = self.ty(c);
        if !matches!(t, STy::Bool | STy::Null | STy::Dyn) {
            self.issue(Rule::TypeError, format!("condition of static type {t:?}"));
        }
    }

    /// Literal / declared type of an expression; `Dyn` whenever a dynamically typed operand
    /// is involved (those cases are never asserted).
    fn ty(&self, e: &Expr) -> STy {
        match e {
            Expr::Num(_) => STy::Num,
            Expr::Str(_) => STy::Str,
            Expr::Bool(_) => STy::Bool,
            Expr::Null => STy::Null,
            Expr::Array(_) => STy::Arr,
            Expr::Var(n) => self.lookup_var(n).map_or(STy::Dyn, |(_, t)| t),
            Expr::Paren(inner) => self.ty(inner),
            Expr::Unary(op, inner) => match (op, self.ty(inner)) {
                (UnOp::Not, STy::Bool | STy::Null) => STy::Bool,
                (UnOp::Neg, STy::Num) => STy::Num,
                _ => STy::Dyn,
            },
            Expr::Binary(op, l, r) => {
                let (l, r) = (self.ty(l), self.ty(r));
                match op {
                    BinOp::Add => match (l, r) {
                        (STy::Num, STy::Num) => STy::Num,
                        (STy::Str, STy::Str | STy::Num) | (STy::Num, STy::Str) => STy::Str,
                        _ => STy::Dyn,
                    },
                    BinOp::Minus | BinOp::Times | BinOp::Divide | BinOp::Mod => match (l, r) {
                        (STy::Num, STy::Num) => STy::Num,
                        _ => STy::Dyn,
                    },
                    BinOp::Eq | BinOp::Gt | BinOp::Lt | BinOp::And | BinOp::Or => STy::Bool,
                }
            }
            Expr::Index(..) => STy::Dyn,
            Expr::Call(name, _) => match name.as_str() {
                "shout" => STy::Null,
                "typeof" | "to_string" | "read_line" => STy::Str,
                "command" => STy::Dyn,
                _ => self.lookup_fn(name).map_or(STy::Dyn, |(_, _, r)| r),
            },
            Expr::Method(recv, name, _) => {
                let m = match self.ty(recv) {
                    STy::Str => string_method(name),
                    STy::Arr => array_method(name),
                    STy::Num => number_method(name),
                    _ => None,
                };
                m.map_or(STy::Dyn, |(_, t)| t)
            }
            Expr::Member(..) | Expr::CallExpr(..) => STy::Dyn,
        }
    }

    fn expr(&mut self, e: &Expr) {
        match e {
            Expr::Num(_) | Expr::Bool(_) | Expr::Null => {}
            Expr::Str(lit) => {
                for p in &lit.parts {
                    if let StrPart::Interp { name, .. } = p {
                        if let Some((d, _)) = self.lookup_var(name) {
                            self.out.var_of_part.insert(std::ptr::from_ref(p), d);
                        } else {
                            self.issue(Rule::UndeclaredVariable, format!("placeholder `{{{name}}}`"));
                        }
                    }
                }
            }
            Expr::Var(n) => {
                if let Some((d, _)) = self.lookup_var(n) {
                    self.out.var_of_expr.insert(std::ptr::from_ref(e), d);
                } else {
                    self.issue(Rule::UndeclaredVariable, format!("variable `{n}`"));
                }
            }
            Expr::Paren(inner) => self.expr(inner),
            Expr::Unary(op, inner) => {
                self.expr(inner);
                let t = self.ty(inner);
                let bad = match op {
                    UnOp::Not => matches!(t, STy::Num | STy::Str | STy::Arr),
                    UnOp::Neg => matches!(t, STy::Str | STy::Bool | STy::Null | STy::Arr),
                };
                if bad {
                    self.issue(Rule::TypeError, format!("{op:?} applied to {t:?}"));
                }
            }
            Expr::Binary(op, l, r) => {
                self.expr(l);
                self.expr(r);
                let (lt, rt) = (self.ty(l), self.ty(r));
                if lt == STy::Dyn || rt == STy::Dyn {
                    return; // never asserted
                }
                let bad = match op {
                    // `add`: numbers, or string concatenation with a string/number operand.
                    // String with bool/null/array is an unspecified zone (U6): not asserted.
                    BinOp::Add => match (lt, rt) {
                        (STy::Num, STy::Num) => false,
                        (STy::Str, _) | (_, STy::Str) => false,
                        _ => true,
                    },
                    BinOp::Minus | BinOp::Times | BinOp::Divide | BinOp::Mod => {
                        !(lt == STy::Num && rt == STy::Num)
                    }
                    BinOp::Eq | BinOp::Gt | BinOp::Lt => {
                        // null may be compared with anything (docs/NULL.md)
                        !(lt == rt || lt == STy::Null || rt == STy::Null)
                            || (lt == STy::Arr && rt == STy::Arr)
                    }
                    BinOp::And | BinOp::Or => {
                        !(matches!(lt, STy::Bool | STy::Null) && matches!(rt, STy::Bool | STy::Null))
                    }
                };
                if bad {
                    self.issue(Rule::TypeError, format!("{op:?} on {lt:?} and {rt:?}"));
                }
            }
            Expr::Array(items) => {
                for i in items {
                    self.expr(i);
                }
            }
            Expr::Index(a, i) => {
                self.expr(a);
                self.expr(i);
                let at = self.ty(a);
                if !matches!(at, STy::Arr | STy::Dyn) {
                    self.issue(Rule::TypeError, format!("index into {at:?}"));
                }
                let it = self.ty(i);
                if !matches!(it, STy::Num | STy::Dyn) {
                    self.issue(Rule::TypeError, format!("index of type {it:?}"));
                }
            }
            Expr::Call(name, args) => {
                if let Some((_, arity)) = GLOBAL_BUILTINS.iter().find(|(n, _)| *n == name) {
                    if args.len() != *arity {
                        self.issue(Rule::Arity, format!("built-in `{name}` with {} args", args.len()));
                    }
                } else if let Some((id, arity, _)) = self.lookup_fn(name) {
                    self.out.func_of_call.insert(std::ptr::from_ref(e), id);
                    if args.len() != arity {
                        self.issue(Rule::Arity, format!("`{name}` with {} args, expects {arity}", args.len()));
                    }
                } else {
                    self.issue(Rule::UnknownFunction, format!("function `{name}`"));
                }
                for a in args {
                    self.expr(a);
                }
            }
            Expr::Method(recv, name, args) => {
                self.expr(recv);
                let rt = self.ty(recv);
                let m = match rt {
                    STy::Str => Some(string_method(name)),
                    STy::Arr => Some(array_method(name)),
                    STy::Num => Some(number_method(name)),
                    STy::Bool | STy::Null => Some(None),
                    STy::Dyn => None,
                };
                match m {
                    Some(Some((arity, _))) => {
                        if args.len() != arity {
                            self.issue(Rule::Arity, format!("method `{name}` with {} args", args.len()));
                        }
                        // clear-cut argument type errors (documented string argument)
                        if rt == STy::Arr && name == "join" && args.len() == 1 {
                            let t = self.ty(&args[0]);
                            if !matches!(t, STy::Str | STy::Dyn) {
                                self.issue(Rule::TypeError, format!("join separator of type {t:?}"));
                            }
                        }
                    }
                    Some(None) => {
                        self.issue(Rule::UnknownMethod, format!("method `{name}` on {rt:?}"));
                    }
                    None => {}
                }
                for a in args {
                    self.expr(a);
                }
            }
            Expr::Member(recv, _) => self.expr(recv),
            Expr::CallExpr(callee, args) => {
                self.expr(callee);
                for a in args {
                    self.expr(a);
                }
            }
        }
    }
}
