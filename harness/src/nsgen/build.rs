//! Tape-driven, intent-typed program generator.
//!
//! Every variable, parameter, array and function result carries the type the generator
//! *intends* it to have at run time, so dynamically typed positions are used type-correctly
//! by construction. Programs are well scoped, terminate (reserved loop counters, fuel
//! parameters) and avoid constructs with no documented meaning (see DESIGN.md 1.3).

use super::ast::*;
use super::tape::Tape;

#[derive(Debug, Clone, PartialEq, Eq)]
pub enum Ty {
    Num,
    Str,
    Bool,
    Null,
    Arr(Box<Ty>),
}

impl Ty {
    fn arr(t: Ty) -> Ty {
        Ty::Arr(Box::new(t))
    }
    fn is_scalar(&self) -> bool {
        !matches!(self, Ty::Arr(_))
    }
}

/// Weight table of one generator profile.
#[derive(Debug, Clone)]
pub struct Profile {
    pub name: &'static str,
    pub max_stmts: u32,
    pub max_depth: u32,
    /// per-mille probability of planting a possible runtime error (division by zero, bad index)
    pub trap_pm: u32,
    /// statement kind weights: make, assign, shout, if, loop, block, call, array-mutation,
    /// redeclare, dead-code-return/break
    pub w_make: u32,
    pub w_assign: u32,
    pub w_shout: u32,
    pub w_if: u32,
    pub w_loop: u32,
    pub w_block: u32,
    pub w_call: u32,
    pub w_arrmut: u32,
    pub w_redecl: u32,
    pub w_jump: u32,
    pub w_unused: u32,
    /// expected number of functions planned per block (x10)
    pub funcs_per_block_x10: u32,
    /// use a pool of 3 names per namespace (heavy shadowing) instead of fresh names
    pub small_name_pool: bool,
    /// weight of array-typed declarations among `make`
    pub w_array_ty: u32,
    pub w_string_ty: u32,
    /// shout visible variables at the end of blocks (observation epilogues)
    pub epilogue_pm: u32,
    /// dump *all* visible arrays after every array mutation (C05)
    pub dump_arrays: bool,
    /// allow long strings (> 256 bytes, and every pool size class)
    pub long_strings: bool,
    /// literals encode their creation site, so a wrong binding changes the output (C04)
    pub site_tagged: bool,
    /// weight of "read a variable, then call a function that overwrites it, in ONE expression"
    pub w_clobber: u32,
    /// weight of unused declarations whose right-hand side misuses a dynamically typed value
    /// (reported runtime error, not a crash): only for the differential C03 check
    pub w_illtyped_dead: u32,
    /// weight of "declare a local namesake of a variable that a callable function assigns or
    /// mutates in an enclosing scope, call it, print the namesake" (lexical vs dynamic binding)
    pub w_namesake: u32,
}

impl Profile {
    pub fn general() -> Profile {
        Profile {
            name: "general",
            max_stmts: 60,
            max_depth: 5,
            trap_pm: 15,
            w_make: 20,
            w_assign: 14,
            w_shout: 22,
            w_if: 8,
            w_loop: 6,
            w_block: 3,
            w_call: 8,
            w_arrmut: 8,
            w_redecl: 3,
            w_jump: 3,
            w_unused: 1,
            funcs_per_block_x10: 8,
            small_name_pool: false,
            w_array_ty: 20,
            w_string_ty: 30,
            epilogue_pm: 300,
            dump_arrays: false,
            long_strings: true,
            site_tagged: false,
            w_clobber: 6,
            w_illtyped_dead: 0,
            w_namesake: 0,
        }
    }
    /// strings/arrays flowing through loops, calls, returns, captured reassignment (C02)
    pub fn reclaim() -> Profile {
        Profile {
            name: "reclaim",
            w_clobber: 10,
            w_make: 18,
            w_assign: 22,
            w_shout: 18,
            w_loop: 10,
            w_call: 14,
            w_arrmut: 10,
            w_array_ty: 25,
            w_string_ty: 55,
            funcs_per_block_x10: 12,
            epilogue_pm: 500,
            trap_pm: 5,
            ..Profile::general()
        }
    }
    /// dead code, dead stores, unused functions, captures, traps (C03)
    pub fn prune() -> Profile {
        Profile {
            name: "prune",
            w_illtyped_dead: 6,
            w_make: 22,
            w_assign: 18,
            w_shout: 12,
            w_jump: 10,
            w_unused: 12,
            w_call: 10,
            trap_pm: 60,
            funcs_per_block_x10: 14,
            epilogue_pm: 250,
            ..Profile::general()
        }
    }
    /// three-letter name pool, deep nesting, recursion, captures (C04)
    pub fn scope() -> Profile {
        Profile {
            name: "scope",
            w_namesake: 6,
            small_name_pool: true,
            site_tagged: true,
            long_strings: false,
            max_depth: 6,
            w_make: 22,
            w_assign: 16,
            w_shout: 20,
            w_block: 8,
            w_if: 6,
            w_loop: 5,
            w_call: 12,
            w_redecl: 6,
            w_arrmut: 2,
            w_array_ty: 5,
            w_string_ty: 25,
            funcs_per_block_x10: 9,
            epilogue_pm: 500,
            trap_pm: 0,
            ..Profile::general()
        }
    }
    /// `scope` with many (nested) arrays and mutations: captured arrays changed through paths
    /// (`g[i].push(v)`) while a namesake is live in the caller (C04, C05)
    pub fn scope_arrays() -> Profile {
        Profile {
            name: "scope-arrays",
            w_namesake: 10,
            w_call: 14,
            w_arrmut: 28,
            w_array_ty: 55,
            w_shout: 14,
            dump_arrays: true,
            trap_pm: 0,
            ..Profile::scope()
        }
    }
    /// copy / mutate histories over arrays (C05)
    pub fn arrays() -> Profile {
        Profile {
            name: "arrays",
            w_namesake: 5,
            w_clobber: 12,
            w_make: 16,
            w_assign: 14,
            w_shout: 6,
            w_arrmut: 40,
            w_call: 10,
            w_array_ty: 80,
            w_string_ty: 10,
            funcs_per_block_x10: 10,
            dump_arrays: true,
            epilogue_pm: 100,
            trap_pm: 10,
            ..Profile::general()
        }
    }
}

/// Features of a generated program (classification counters for the evidence).
#[derive(Debug, Clone, Default)]
pub struct Features {
    pub functions: u32,
    pub recursive_functions: u32,
    pub mutual_groups: u32,
    pub hoisted_forward_calls: u32,
    pub loops: u32,
    pub capture_reads: u32,
    pub capture_writes: u32,
    pub interpolations: u32,
    pub escapes: u32,
    pub string_methods: u32,
    pub array_ops: u32,
    pub traps_planted: u32,
    pub dead_code: u32,
    pub redeclarations: u32,
    pub shadowing_decls: u32,
    pub long_strings: u32,
    pub returns_of_variable: u32,
    pub unused_decls: u32,
    pub nested_functions: u32,
    pub array_copies: u32,
    pub clobber_patterns: u32,
    pub illtyped_dead: u32,
    pub captured_array_mutations: u32,
    pub captured_path_mutations: u32,
    pub namesake_calls: u32,
}

#[derive(Debug, Clone)]
struct Var {
    name: String,
    ty: Ty,
    /// loop counter / fuel parameter: never assigned or redeclared by generated statements
    reserved: bool,
    /// referenced from a nested function body (its type must then stay fixed)
    captured: bool,
    /// lower bound of the array length (for choosing in-range indexes)
    min_len: usize,
}

#[derive(Debug, Clone, Copy, PartialEq, Eq)]
enum FState {
    Planned,
    InProgress,
    Done,
}

#[derive(Debug, Clone)]
struct Func {
    name: String,
    params: Vec<(String, Ty)>,
    ret: Ty,
    /// has a leading numeric fuel parameter and a base case
    fuel: bool,
    /// mutual-recursion group (members call each other with decremented fuel)
    group: Option<u32>,
    /// callable before its definition; captures only variables from outside its defining block
    hoisted: bool,
    state: FState,
    /// function context (index into `fn_stack`) in which the defining block lives
    ctx: usize,
    /// variables of enclosing scopes this function (transitively) assigns or mutates:
    /// (scope index, variable name)
    writes: Vec<(usize, String)>,
}

#[derive(Debug, Clone)]
struct Scope {
    vars: Vec<Var>,
    funcs: Vec<Func>,
    /// function nesting level this scope belongs to (0 = top level)
    fn_level: usize,
}

struct FnCtx {
    /// (scope index, func index) of the function being generated; None for top level
    me: Option<(usize, usize)>,
    ret: Ty,
    /// scope indexes of defining blocks hidden while generating hoisted bodies (inherited by
    /// nested functions: they may run whenever the hoisted ancestor runs)
    hidden: Vec<usize>,
    /// index of the first scope belonging to this function (its parameter scope)
    base_scope: usize,
    loop_depth: u32,
    group: Option<u32>,
    fuel_param: Option<String>,
}

pub struct Gen<'t> {
    tape: Tape<'t>,
    pub profile: Profile,
    scopes: Vec<Scope>,
    fn_stack: Vec<FnCtx>,
    stmts_left: u32,
    depth: u32,
    uid: u32,
    next_group: u32,
    pub features: Features,
}

const NAME_POOL_VARS: [&str; 3] = ["a", "b", "c"];
const NAME_POOL_FUNCS: [&str; 3] = ["f", "g", "h"];

pub fn generate(tape_bytes: &[u8], profile: Profile) -> (Program, Features) {
    let mut g = Gen {
        tape: Tape::new(tape_bytes),
        stmts_left: profile.max_stmts,
        profile,
        scopes: Vec::new(),
        fn_stack: vec![FnCtx {
            me: None,
            ret: Ty::Null,
            hidden: Vec::new(),
            base_scope: 0,
            loop_depth: 0,
            group: None,
            fuel_param: None,
        }],
        depth: 0,
        uid: 0,
        next_group: 0,
        features: Features::default(),
    };
    let body = g.block(true);
    (Program { body }, g.features)
}

impl Gen<'_> {
    fn fresh(&mut self, prefix: &str) -> String {
        self.uid += 1;
        format!("{prefix}{}", self.uid)
    }

    fn ctx(&self) -> &FnCtx {
        self.fn_stack.last().unwrap()
    }

    fn fn_level(&self) -> usize {
        self.fn_stack.len() - 1
    }

    // ------------------------------------------------------------ lookups --

    /// Variables usable at this point, innermost first, each name once (inner shadows outer).
    /// While a hoisted function body is generated, the defining block's own variables are
    /// unusable and shadow same-named outer ones (static binding would pick them, but they may
    /// not exist yet when the function is called early).
    fn visible_vars(&self) -> Vec<(usize, usize)> {
        let hidden = &self.ctx().hidden;
        let mut seen: Vec<&str> = Vec::new();
        let mut out = Vec::new();
        for si in (0..self.scopes.len()).rev() {
            let scope = &self.scopes[si];
            for (vi, v) in scope.vars.iter().enumerate().rev() {
                if seen.contains(&v.name.as_str()) {
                    continue;
                }
                seen.push(&v.name);
                if hidden.contains(&si) {
                    continue;
                }
                out.push((si, vi));
            }
        }
        out
    }

    fn vars_of(&self, want: &dyn Fn(&Var) -> bool) -> Vec<(usize, usize)> {
        self.visible_vars().into_iter().filter(|(s, v)| want(&self.scopes[*s].vars[*v])).collect()
    }

    fn var(&self, r: (usize, usize)) -> &Var {
        &self.scopes[r.0].vars[r.1]
    }

    /// Marks a variable as captured when it is used from a deeper function level.
    fn touch(&mut self, r: (usize, usize), write: bool) {
        let level = self.fn_level();
        let scope_level = self.scopes[r.0].fn_level;
        if scope_level < level {
            self.scopes[r.0].vars[r.1].captured = true;
            if write {
                self.features.capture_writes += 1;
                let name = self.scopes[r.0].vars[r.1].name.clone();
                self.note_capture_write(r.0, &name);
            } else {
                self.features.capture_reads += 1;
            }
        }
    }

    /// Remembers, for every function being generated whose own scopes start above `scope`,
    /// that it writes this outer variable.
    fn note_capture_write(&mut self, scope: usize, name: &str) {
        let owners: Vec<(usize, usize)> = self
            .fn_stack
            .iter()
            .filter(|c| c.base_scope > scope)
            .filter_map(|c| c.me)
            .collect();
        for (si, fi) in owners {
            let w = &mut self.scopes[si].funcs[fi].writes;
            if !w.iter().any(|(s2, n2)| *s2 == scope && n2 == name) {
                w.push((scope, name.to_string()));
            }
        }
    }

    /// Functions callable at this point: (scope, index, needs_decrement).
    fn callable_funcs(&self, ret: Option<&Ty>) -> Vec<(usize, usize, bool)> {
        let cur_ctx = self.fn_stack.len() - 1;
        let hidden = &self.ctx().hidden;
        let my_group = self.ctx().group;
        let mut seen: Vec<&str> = Vec::new();
        let mut out = Vec::new();
        for si in (0..self.scopes.len()).rev() {
            for (fi, f) in self.scopes[si].funcs.iter().enumerate() {
                if seen.contains(&f.name.as_str()) {
                    continue;
                }
                seen.push(&f.name);
                if let Some(t) = ret
                    && f.ret != *t
                {
                    continue;
                }
                let same_group = f.group.is_some() && f.group == my_group;
                if same_group {
                    // members of one recursion group always pass decremented fuel
                    if self.ctx().fuel_param.is_some() {
                        out.push((si, fi, true));
                    }
                    continue;
                }
                match f.state {
                    FState::Done => {
                        // from a hoisted body, non-hoisted functions of the hidden block are off limits
                        if hidden.contains(&si) && !f.hoisted {
                            continue;
                        }
                        out.push((si, fi, false));
                    }
                    FState::Planned => {
                        // forward call: only from statements of the defining function context
                        if f.hoisted && f.ctx == cur_ctx {
                            out.push((si, fi, false));
                        }
                    }
                    FState::InProgress => {}
                }
            }
        }
        out
    }

    // -------------------------------------------------------------- types --

    fn pick_scalar_ty(&mut self) -> Ty {
        let p = &self.profile;
        match self.tape.weighted(&[40, p.w_string_ty, 12, 3]) {
            0 => Ty::Num,
            1 => Ty::Str,
            2 => Ty::Bool,
            _ => Ty::Null,
        }
    }

    fn pick_elem_ty(&mut self) -> Ty {
        match self.tape.weighted(&[40, 35, 10, 10, 5]) {
            0 => Ty::Num,
            1 => Ty::Str,
            2 => Ty::Bool,
            3 => Ty::arr(Ty::Num),
            _ => Ty::arr(Ty::Str),
        }
    }

    fn pick_ty(&mut self) -> Ty {
        let w = self.profile.w_array_ty;
        if self.tape.weighted(&[100, w]) == 1 { Ty::arr(self.pick_elem_ty()) } else { self.pick_scalar_ty() }
    }

    // -------------------------------------------------------- expressions --

    fn trap(&mut self) -> bool {
        let pm = self.profile.trap_pm;
        if pm > 0 && self.tape.chance(pm, 1000) {
            self.features.traps_planted += 1;
            true
        } else {
            false
        }
    }

    fn num_literal(&mut self) -> Expr {
        if self.profile.site_tagged && self.tape.chance(3, 4) {
            self.uid += 1;
            return Expr::Num(f64::from(self.uid * 10) + self.tape.choose(10) as f64);
        }
        let v = match self.tape.weighted(&[50, 20, 12, 8, 5, 5]) {
            0 => self.tape.int(0, 10) as f64,
            1 => [0.5, 0.25, 1.5, 2.75, 0.1, 3.14, 99.99, 0.125][self.tape.choose(8)],
            2 => [100.0, 255.0, 256.0, 1000.0, 65536.0, 12345.0][self.tape.choose(6)],
            3 => -(self.tape.int(1, 10) as f64),
            4 => [1e15, 9007199254740992.0, 1e21, 123456789012.0][self.tape.choose(4)],
            _ => [0.000001, 0.001, 1e-7][self.tape.choose(3)],
        };
        Expr::num(v)
    }

    fn text_piece(&mut self) -> String {
        if self.profile.site_tagged && self.tape.chance(3, 4) {
            self.uid += 1;
            return format!("s{}", self.uid);
        }
        const POOL: [&str; 18] = [
            "a", "", "abc", "hello world", "Naija", "x,y,z", " pad ", "UPPER lower", "0123456789",
            "é", "世界", "🌎 ok", "Σίσυφος", "tab\there", "line\nbreak", "q\"uote", "back\\slash",
            "it's",
        ];
        let s = POOL[self.tape.choose(POOL.len())].to_string();
        if self.profile.long_strings && self.tape.chance(1, 8) {
            // hit several pool size classes and the > 256 byte arena fallback
            let target = [9usize, 17, 33, 65, 120, 129, 161, 200, 257, 300][self.tape.choose(10)];
            let unit = if s.is_empty() { "ab".to_string() } else { s };
            let mut out = String::new();
            while out.len() < target {
                out.push_str(&unit);
            }
            self.features.long_strings += 1;
            return out;
        }
        s
    }

    fn str_literal(&mut self) -> Expr {
        let quote = if self.tape.chance(1, 6) { '\'' } else { '"' };
        let mut parts = Vec::new();
        let n = 1 + self.tape.choose(3);
        for _ in 0..n {
            if self.tape.chance(1, 3) {
                // placeholder of a visible scalar variable
                let cands = self.vars_of(&|v| v.ty.is_scalar());
                if !cands.is_empty() {
                    let r = cands[self.tape.choose(cands.len())];
                    self.touch(r, false);
                    let name = self.var(r).name.clone();
                    let (wb, wa) = if self.tape.chance(1, 8) { (" ", " ") } else { ("", "") };
                    parts.push(StrPart::Interp {
                        name,
                        ws_before: wb.to_string(),
                        ws_after: wa.to_string(),
                    });
                    self.features.interpolations += 1;
                    continue;
                }
            }
            let t = self.text_piece();
            parts.push(StrPart::Text(t));
        }
        let lit = StrLit { quote, parts };
        if lit.needs_escape() {
            self.features.escapes += 1;
        }
        Expr::Str(lit)
    }

    /// A pure, non-trapping number that is a valid index for an array of at least `min_len` elements.
    fn safe_index(&mut self, min_len: usize) -> Expr {
        if min_len == 0 {
            return Expr::Num(0.0);
        }
        Expr::Num(self.tape.choose(min_len.min(4)) as f64)
    }

    fn maybe_paren(&mut self, e: Expr) -> Expr {
        if self.tape.chance(1, 12) { Expr::Paren(Box::new(e)) } else { e }
    }

    pub fn expr(&mut self, ty: &Ty, depth: u32) -> Expr {
        let e = self.expr_inner(ty, depth);
        if depth > 0 { self.maybe_paren(e) } else { e }
    }

    /// In the name-pool profile, prefer variables of enclosing functions half of the time
    /// (captures are what lexical scoping is about; own locals would otherwise dominate).
    fn prefer_captured(&mut self, cands: Vec<(usize, usize)>) -> Vec<(usize, usize)> {
        if !self.profile.small_name_pool || self.fn_level() == 0 || !self.tape.chance(1, 2) {
            return cands;
        }
        let level = self.fn_level();
        let outer: Vec<(usize, usize)> =
            cands.iter().copied().filter(|r| self.scopes[r.0].fn_level < level).collect();
        if outer.is_empty() { cands } else { outer }
    }

    fn var_expr(&mut self, ty: &Ty) -> Option<Expr> {
        let cands = self.vars_of(&|v| v.ty == *ty);
        let cands = self.prefer_captured(cands);
        if cands.is_empty() {
            return None;
        }
        let r = cands[self.tape.choose(cands.len())];
        self.touch(r, false);
        if matches!(ty, Ty::Arr(_)) {
            self.features.array_copies += 1;
        }
        Some(Expr::Var(self.var(r).name.clone()))
    }

    /// Index read `a[i]` (or `a[i][j]`) producing `ty`.
    fn index_expr(&mut self, ty: &Ty) -> Option<Expr> {
        let want = Ty::arr(ty.clone());
        let want2 = Ty::arr(want.clone());
        let cands = self.vars_of(&|v| v.ty == want || v.ty == want2);
        if cands.is_empty() {
            return None;
        }
        let r = cands[self.tape.choose(cands.len())];
        let v = self.var(r).clone();
        let trap = self.trap();
        if v.min_len == 0 && !trap && !self.tape.chance(1, 6) {
            return None;
        }
        self.touch(r, false);
        let idx = |g: &mut Self, min_len: usize| -> Expr {
            if trap {
                match g.tape.choose(4) {
                    0 => Expr::num(-1.0),
                    1 => Expr::Num(1.5),
                    2 => Expr::Num(1000.0),
                    _ => Expr::bin(BinOp::Divide, Expr::Num(1.0), Expr::Num(0.5)),
                }
            } else {
                g.safe_index(min_len)
            }
        };
        self.features.array_ops += 1;
        if v.ty == want {
            let i = idx(self, v.min_len);
            Some(Expr::index(Expr::Var(v.name), i))
        } else {
            let i = self.safe_index(v.min_len);
            let j = idx(self, 0);
            Some(Expr::index(Expr::index(Expr::Var(v.name), i), j))
        }
    }

    fn call_expr(&mut self, ret: &Ty, depth: u32) -> Option<Expr> {
        let cands = self.callable_funcs(Some(ret));
        if cands.is_empty() {
            return None;
        }
        let (si, fi, dec) = cands[self.tape.choose(cands.len())];
        Some(self.make_call(si, fi, dec, depth))
    }

    fn make_call(&mut self, si: usize, fi: usize, decrement: bool, depth: u32) -> Expr {
        let f = self.scopes[si].funcs[fi].clone();
        if f.state == FState::Planned {
            self.features.hoisted_forward_calls += 1;
        }
        // a caller inherits the capture writes of its callee
        for (ws, wn) in &f.writes {
            self.note_capture_write(*ws, wn);
        }
        let mut args = Vec::new();
        for (k, (_, pty)) in f.params.iter().enumerate() {
            if k == 0 && f.fuel {
                if decrement {
                    let n = self.ctx().fuel_param.clone().unwrap();
                    args.push(Expr::bin(BinOp::Minus, Expr::Var(n), Expr::Num(1.0)));
                } else {
                    args.push(Expr::Num(self.tape.int(0, 4) as f64));
                }
                continue;
            }
            args.push(self.expr(pty, depth + 1));
        }
        Expr::Call(f.name, args)
    }

    fn expr_inner(&mut self, ty: &Ty, depth: u32) -> Expr {
        let deep = depth >= 3;
        match ty {
            Ty::Num => {
                let k = if deep {
                    self.tape.weighted(&[50, 40])
                } else {
                    self.tape.weighted(&[22, 22, 22, 5, 6, 6, 5, 7, 5])
                };
                match k {
                    0 => self.num_literal(),
                    1 => self.var_expr(ty).unwrap_or_else(|| self.num_literal()),
                    2 => {
                        let op = [BinOp::Add, BinOp::Minus, BinOp::Times, BinOp::Divide, BinOp::Mod]
                            [self.tape.weighted(&[35, 30, 20, 8, 7])];
                        let l = self.expr(ty, depth + 1);
                        let r = if matches!(op, BinOp::Divide | BinOp::Mod) {
                            if self.trap() {
                                match self.tape.choose(2) {
                                    0 => Expr::Num(0.0),
                                    _ => Expr::bin(BinOp::Minus, Expr::Num(2.0), Expr::Num(2.0)),
                                }
                            } else {
                                Expr::Num([2.0, 3.0, 4.0, 7.0, 0.5, 10.0][self.tape.choose(6)])
                            }
                        } else {
                            self.expr(ty, depth + 1)
                        };
                        Expr::bin(op, l, r)
                    }
                    3 => Expr::un(UnOp::Neg, self.expr(ty, depth + 1)),
                    4 => {
                        let m = ["abs", "floor", "ceil", "round", "sqrt"][self.tape.choose(5)];
                        let inner = self.expr(ty, depth + 1);
                        if m == "sqrt" {
                            Expr::method(Expr::method(inner, "abs", vec![]), "sqrt", vec![])
                        } else {
                            Expr::method(inner, m, vec![])
                        }
                    }
                    5 => {
                        self.features.string_methods += 1;
                        let s = self.expr(&Ty::Str, depth + 1);
                        match self.tape.choose(3) {
                            0 => Expr::method(s, "len", vec![]),
                            1 => {
                                let needle = self.expr(&Ty::Str, depth + 2);
                                Expr::method(s, "find", vec![needle])
                            }
                            _ => {
                                let digits = ["42", "3.5", "0", "1000", "-7", "0.25"][self.tape.choose(6)];
                                Expr::method(Expr::str(digits), "to_number", vec![])
                            }
                        }
                    }
                    6 => {
                        let ety = self.pick_elem_ty();
                        let a = self.expr(&Ty::arr(ety), depth + 1);
                        self.features.array_ops += 1;
                        Expr::method(a, "len", vec![])
                    }
                    7 => self.index_expr(ty).unwrap_or_else(|| self.num_literal()),
                    _ => self.call_expr(ty, depth).unwrap_or_else(|| self.num_literal()),
                }
            }
            Ty::Str => {
                let k = if deep {
                    self.tape.weighted(&[50, 40])
                } else {
                    self.tape.weighted(&[24, 22, 18, 10, 8, 5, 5, 5, 3])
                };
                match k {
                    0 => self.str_literal(),
                    1 => self.var_expr(ty).unwrap_or_else(|| self.str_literal()),
                    2 => {
                        // concatenation: string with string / number on either side
                        let (lt, rt) = match self.tape.weighted(&[60, 20, 20]) {
                            0 => (Ty::Str, Ty::Str),
                            1 => (Ty::Str, Ty::Num),
                            _ => (Ty::Num, Ty::Str),
                        };
                        let l = self.expr(&lt, depth + 1);
                        let r = self.expr(&rt, depth + 1);
                        Expr::bin(BinOp::Add, l, r)
                    }
                    3 => {
                        self.features.string_methods += 1;
                        let s = self.expr(ty, depth + 1);
                        match self.tape.choose(5) {
                            0 => Expr::method(s, "to_uppercase", vec![]),
                            1 => Expr::method(s, "to_lowercase", vec![]),
                            2 => Expr::method(s, "trim", vec![]),
                            3 => {
                                let a = self.slice_bound();
                                let b = self.slice_bound();
                                Expr::method(s, "slice", vec![a, b])
                            }
                            _ => {
                                let from = Expr::str(["a", "l", "ab", "é", " ", "xyz", "hello world hello"][self.tape.choose(7)]);
                                let to = self.expr(ty, depth + 2);
                                Expr::method(s, "replace", vec![from, to])
                            }
                        }
                    }
                    4 => {
                        let inner_ty = self.pick_scalar_ty();
                        let inner = self.expr(&inner_ty, depth + 1);
                        Expr::call(if self.tape.chance(1, 2) { "to_string" } else { "typeof" }, vec![inner])
                    }
                    5 => {
                        let ety = if self.tape.chance(1, 2) { Ty::Str } else { Ty::Num };
                        let a = self.expr(&Ty::arr(ety), depth + 1);
                        let sep = Expr::str([",", "", " - ", "é"][self.tape.choose(4)]);
                        self.features.array_ops += 1;
                        Expr::method(a, "join", vec![sep])
                    }
                    6 => self.index_expr(ty).unwrap_or_else(|| self.str_literal()),
                    7 => self.call_expr(ty, depth).unwrap_or_else(|| self.str_literal()),
                    _ => {
                        let arr_ty = self.pick_ty();
                        let inner = self.expr(&arr_ty, depth + 1);
                        Expr::call("typeof", vec![inner])
                    }
                }
            }
            Ty::Bool => {
                let k = if deep {
                    self.tape.weighted(&[50, 40])
                } else {
                    self.tape.weighted(&[12, 14, 30, 10, 10, 8, 6, 5, 5])
                };
                match k {
                    0 => Expr::Bool(self.tape.chance(1, 2)),
                    1 => self.var_expr(ty).unwrap_or(Expr::Bool(true)),
                    2 => {
                        // numeric comparison
                        let op = [BinOp::Lt, BinOp::Gt, BinOp::Eq][self.tape.choose(3)];
                        let l = self.expr(&Ty::Num, depth + 1);
                        let r = self.expr(&Ty::Num, depth + 1);
                        Expr::bin(op, l, r)
                    }
                    3 => {
                        let op = [BinOp::Eq, BinOp::Lt, BinOp::Gt][self.tape.weighted(&[60, 20, 20])];
                        let l = self.expr(&Ty::Str, depth + 1);
                        let r = self.expr(&Ty::Str, depth + 1);
                        Expr::bin(op, l, r)
                    }
                    4 => {
                        let op = if self.tape.chance(1, 2) { BinOp::And } else { BinOp::Or };
                        let l = self.bool_or_null(depth + 1);
                        let r = self.bool_or_null(depth + 1);
                        Expr::bin(op, l, r)
                    }
                    5 => Expr::un(UnOp::Not, self.bool_or_null(depth + 1)),
                    6 => {
                        // comparison with null
                        let t = self.pick_scalar_ty();
                        let l = self.expr(&t, depth + 1);
                        if self.tape.chance(1, 2) {
                            Expr::bin(BinOp::Eq, l, Expr::Null)
                        } else {
                            Expr::bin(BinOp::Eq, Expr::Null, l)
                        }
                    }
                    7 => {
                        let l = self.expr(ty, depth + 1);
                        let r = self.expr(ty, depth + 1);
                        Expr::bin(BinOp::Eq, l, r)
                    }
                    _ => self
                        .index_expr(ty)
                        .or_else(|| self.call_expr(ty, depth))
                        .unwrap_or(Expr::Bool(false)),
                }
            }
            Ty::Null => match self.tape.weighted(&[50, 30, 20]) {
                0 => Expr::Null,
                1 => self.var_expr(ty).unwrap_or(Expr::Null),
                _ => self.call_expr(ty, depth).unwrap_or(Expr::Null),
            },
            Ty::Arr(elem) => {
                let k = if deep { self.tape.weighted(&[60, 40]) } else { self.tape.weighted(&[45, 30, 10, 8, 7]) };
                match k {
                    0 => {
                        let n = if self.tape.chance(1, 8) { 0 } else { 1 + self.tape.choose(4) };
                        let items = (0..n).map(|_| self.expr(elem, depth + 1)).collect();
                        Expr::Array(items)
                    }
                    1 => self.var_expr(ty).unwrap_or_else(|| Expr::Array(vec![])),
                    2 => self.call_expr(ty, depth).unwrap_or_else(|| Expr::Array(vec![])),
                    3 => self.index_expr(ty).unwrap_or_else(|| Expr::Array(vec![])),
                    _ => {
                        if **elem == Ty::Str {
                            let s = self.expr(&Ty::Str, depth + 1);
                            let p = Expr::str([",", " ", "a", "ll", "é"][self.tape.choose(5)]);
                            self.features.string_methods += 1;
                            Expr::method(s, "split", vec![p])
                        } else {
                            let n = 1 + self.tape.choose(3);
                            let items = (0..n).map(|_| self.expr(elem, depth + 1)).collect();
                            Expr::Array(items)
                        }
                    }
                }
            }
        }
    }

    fn bool_or_null(&mut self, depth: u32) -> Expr {
        if self.tape.chance(1, 10) { self.expr(&Ty::Null, depth) } else { self.expr(&Ty::Bool, depth) }
    }

    fn slice_bound(&mut self) -> Expr {
        match self.tape.weighted(&[50, 20, 15, 15]) {
            0 => Expr::Num(self.tape.int(0, 8) as f64),
            1 => Expr::num(-(self.tape.int(1, 5) as f64)),
            2 => Expr::Num([0.5, 1.9, 2.5, 100.0][self.tape.choose(4)]),
            _ => self.expr(&Ty::Num, 3),
        }
    }

    // --------------------------------------------------------- statements --

    fn declare(&mut self, name: String, ty: Ty, reserved: bool, min_len: usize) {
        // statistics: does this declaration shadow an outer one?
        let shadows = self.scopes[..self.scopes.len() - 1].iter().any(|s| s.vars.iter().any(|v| v.name == name));
        if shadows {
            self.features.shadowing_decls += 1;
        }
        let scope = self.scopes.last_mut().unwrap();
        if let Some(v) = scope.vars.iter_mut().find(|v| v.name == name) {
            v.ty = ty;
            v.min_len = min_len;
        } else {
            scope.vars.push(Var { name, ty, reserved, captured: false, min_len });
        }
    }

    fn new_var_name(&mut self) -> String {
        if self.profile.small_name_pool {
            // names already declared in this very block would be re-declarations; those are
            // generated separately, so prefer a pool name that is free in this block
            let scope = self.scopes.last().unwrap();
            let free: Vec<&str> = NAME_POOL_VARS
                .iter()
                .copied()
                .filter(|n| !scope.vars.iter().any(|v| v.name == *n))
                .collect();
            // a name that an enclosing *parameter scope* of the current function owns must not be
            // redeclared at the top level of the body (closure-capture ambiguity): handled by caller
            if !free.is_empty() {
                return free[self.tape.choose(free.len())].to_string();
            }
        }
        self.fresh("v")
    }

    fn literal_len(e: &Expr) -> usize {
        match e {
            Expr::Array(items) => items.len(),
            Expr::Paren(inner) => Self::literal_len(inner),
            _ => 0,
        }
    }

    fn stmt_make(&mut self, out: &mut Block) {
        let ty = self.pick_ty();
        let mut name = self.new_var_name();
        // never re-declare a parameter of the current function at the top level of its body
        if self.is_param_of_current_fn(&name) && self.scopes.len() == self.ctx().base_scope + 2 {
            name = self.fresh("v");
        }
        if ty == Ty::Null && self.tape.chance(1, 2) {
            out.push(Stmt::Make(name.clone(), None));
            self.declare(name, ty, false, 0);
            return;
        }
        let e = self.expr(&ty, 0);
        let min_len = Self::literal_len(&e);
        out.push(Stmt::Make(name.clone(), Some(e)));
        self.declare(name, ty, false, min_len);
    }

    fn is_param_of_current_fn(&self, name: &str) -> bool {
        let ctx = self.ctx();
        if ctx.me.is_none() {
            return false;
        }
        self.scopes[ctx.base_scope].vars.iter().any(|v| v.name == name)
    }

    fn stmt_redeclare(&mut self, out: &mut Block) {
        // `make x get ...` for a name already declared in this block: rebinds the same variable
        let scope = self.scopes.last().unwrap();
        let cands: Vec<usize> =
            scope.vars.iter().enumerate().filter(|(_, v)| !v.reserved).map(|(i, _)| i).collect();
        if cands.is_empty() {
            return self.stmt_make(out);
        }
        let vi = cands[self.tape.choose(cands.len())];
        let v = self.scopes.last().unwrap().vars[vi].clone();
        // the type may only change when no function has captured the variable
        let ty = if v.captured || self.tape.chance(2, 3) { v.ty.clone() } else { self.pick_ty() };
        let e = self.expr(&ty, 0);
        let min_len = Self::literal_len(&e);
        out.push(Stmt::Make(v.name.clone(), Some(e)));
        self.features.redeclarations += 1;
        self.declare(v.name, ty, false, min_len);
    }

    fn stmt_assign(&mut self, out: &mut Block) {
        let cands = self.vars_of(&|v| !v.reserved);
        let cands = self.prefer_captured(cands);
        if cands.is_empty() {
            return self.stmt_make(out);
        }
        let r = cands[self.tape.choose(cands.len())];
        let v = self.var(r).clone();
        let e = self.expr(&v.ty, 0);
        self.touch(r, true);
        let min_len = Self::literal_len(&e);
        self.scopes[r.0].vars[r.1].min_len = min_len.min(v.min_len);
        out.push(Stmt::Assign(v.name, e));
    }

    fn stmt_shout(&mut self, out: &mut Block) {
        let ty = self.pick_ty();
        let e = self.expr(&ty, 0);
        out.push(Stmt::Expr(Expr::call("shout", vec![e])));
    }

    fn dump_arrays(&mut self, out: &mut Block) {
        let cands = self.vars_of(&|v| matches!(v.ty, Ty::Arr(_)));
        for r in cands {
            self.touch(r, false);
            let name = self.var(r).name.clone();
            out.push(Stmt::Expr(Expr::call("shout", vec![Expr::Var(name)])));
        }
    }

    fn stmt_array_mutation(&mut self, out: &mut Block) {
        let cands = self.vars_of(&|v| matches!(v.ty, Ty::Arr(_)) && !v.reserved);
        let cands = self.prefer_captured(cands);
        if cands.is_empty() {
            return self.stmt_make(out);
        }
        let r = cands[self.tape.choose(cands.len())];
        let v = self.var(r).clone();
        let Ty::Arr(elem) = v.ty.clone() else { unreachable!() };
        self.touch(r, true);
        self.features.array_ops += 1;
        let base = Expr::Var(v.name.clone());
        // nested target `a[i]` when the element is itself an array
        let nested = matches!(*elem, Ty::Arr(_)) && self.tape.chance(1, 2);
        let (target, tty, tmin): (Expr, Ty, usize) = if nested {
            let i = self.safe_index(v.min_len);
            (Expr::index(base, i), (*elem).clone(), 0)
        } else {
            (base, v.ty.clone(), v.min_len)
        };
        let Ty::Arr(telem) = tty else { unreachable!() };
        if self.scopes[r.0].fn_level < self.fn_level() {
            self.features.captured_array_mutations += 1;
            if nested {
                self.features.captured_path_mutations += 1;
            }
        }
        let w_idx = if tmin == 0 { 4 } else { 38 };
        match self.tape.weighted(&[35, 15, 12, w_idx]) {
            0 => {
                let val = self.expr(&telem, 1);
                out.push(Stmt::Expr(Expr::method(target, "push", vec![val])));
                if !nested {
                    self.scopes[r.0].vars[r.1].min_len = v.min_len + usize::from(self.ctx().loop_depth == 0 && self.depth == 0);
                }
            }
            1 => {
                // pop: as a statement, or observed
                let pop = Expr::method(target, "pop", vec![]);
                if self.tape.chance(1, 2) {
                    out.push(Stmt::Expr(Expr::call("shout", vec![pop])));
                } else {
                    out.push(Stmt::Expr(pop));
                }
                if !nested {
                    self.scopes[r.0].vars[r.1].min_len = 0;
                }
            }
            2 => out.push(Stmt::Expr(Expr::method(target, "reverse", vec![]))),
            _ => {
                // indexed assignment (pure index expressions; the value may have effects)
                let idx = if self.trap() {
                    [Expr::num(-1.0), Expr::Num(0.5), Expr::Num(99.0)][self.tape.choose(3)].clone()
                } else {
                    self.safe_index(tmin)
                };
                let val = self.expr(&telem, 1);
                out.push(Stmt::AssignIndex(Expr::index(target, idx), val));
            }
        }
        if self.profile.dump_arrays {
            self.dump_arrays(out);
        }
    }

    fn stmt_call(&mut self, out: &mut Block) {
        let cands = self.callable_funcs(None);
        if cands.is_empty() {
            return self.stmt_shout(out);
        }
        let (si, fi, dec) = cands[self.tape.choose(cands.len())];
        let ret = self.scopes[si].funcs[fi].ret.clone();
        let call = self.make_call(si, fi, dec, 0);
        match self.tape.weighted(&[40, 35, 25]) {
            0 => out.push(Stmt::Expr(Expr::call("shout", vec![call]))),
            1 => {
                let name = self.new_var_name();
                out.push(Stmt::Make(name.clone(), Some(call)));
                self.declare(name, ret, false, 0);
            }
            _ => out.push(Stmt::Expr(call)),
        }
    }

    fn stmt_unused(&mut self, out: &mut Block) {
        // declarations / stores whose value is never read: pure, may-trap or impure right-hand sides
        let name = self.fresh("u");
        let ty = self.pick_ty();
        let e = self.expr(&ty, 0);
        self.features.unused_decls += 1;
        out.push(Stmt::Make(name, Some(e)));
        // deliberately NOT declared in the generator's tables: nothing will ever read it
    }

    /// Runs `f` with at most a third of the remaining statement budget, so that one early
    /// construct cannot eat the whole program.
    fn with_budget_cap<T>(&mut self, f: impl FnOnce(&mut Self) -> T) -> T {
        let saved = self.stmts_left;
        let cap = (saved / 3).max(3).min(saved);
        self.stmts_left = cap;
        // the same for the choice tape, so later top-level statements keep their share
        let saved_limit = self.tape.limit();
        let tape_cap = (self.tape.remaining() / 3).max(40);
        self.tape.set_limit(saved_limit.min(self.tape.consumed() + tape_cap));
        let r = f(self);
        self.tape.set_limit(saved_limit);
        let used = cap - self.stmts_left;
        self.stmts_left = saved - used;
        r
    }

    /// `shout([<read of v>, <call of a function that overwrites v>])`: the value read first must
    /// survive the overwrite that happens later in the same expression.
    fn stmt_clobber(&mut self, out: &mut Block) {
        let callable = self.callable_funcs(None);
        let visible = self.visible_vars();
        let mut cands: Vec<(usize, usize, bool, (usize, usize))> = Vec::new();
        for (si, fi, dec) in callable {
            for (ws, wn) in &self.scopes[si].funcs[fi].writes {
                if let Some(r) = visible.iter().find(|(s2, v2)| s2 == ws && self.scopes[*s2].vars[*v2].name == *wn) {
                    cands.push((si, fi, dec, *r));
                }
            }
        }
        if cands.is_empty() {
            return self.stmt_shout(out);
        }
        let (si, fi, dec, r) = cands[self.tape.choose(cands.len())];
        let v = self.var(r).clone();
        self.touch(r, false);
        self.features.clobber_patterns += 1;
        // the read: the variable itself, an element, or a derived value
        let read = match &v.ty {
            Ty::Arr(elem) => match self.tape.choose(4) {
                0 => Expr::Var(v.name.clone()),
                1 => {
                    let i = self.safe_index(v.min_len);
                    Expr::index(Expr::Var(v.name.clone()), i)
                }
                2 if matches!(**elem, Ty::Str | Ty::Num) => {
                    Expr::method(Expr::Var(v.name.clone()), "join", vec![Expr::str("|")])
                }
                _ => Expr::Array(vec![Expr::Var(v.name.clone())]),
            },
            Ty::Str => match self.tape.choose(3) {
                0 => Expr::Var(v.name.clone()),
                1 => Expr::bin(BinOp::Add, Expr::Var(v.name.clone()), Expr::str("+")),
                _ => Expr::method(Expr::Var(v.name.clone()), "to_uppercase", vec![]),
            },
            _ => Expr::Var(v.name.clone()),
        };
        let call = self.make_call(si, fi, dec, 1);
        let fret = self.scopes[si].funcs[fi].ret.clone();
        let e = match self.tape.choose(6) {
            // concatenation where the types allow it
            0 if v.ty == Ty::Str && matches!(fret, Ty::Str | Ty::Num) => Expr::bin(BinOp::Add, read, call),
            // the array is read before its index expression runs: `v[f() times 0]`
            4 if matches!(v.ty, Ty::Arr(_)) && v.min_len >= 1 && fret == Ty::Num => Expr::index(
                Expr::Var(v.name.clone()),
                Expr::bin(BinOp::Times, call, Expr::Num(0.0)),
            ),
            // a string receiver is read before the method's arguments run
            5 if v.ty == Ty::Str && fret == Ty::Str => {
                Expr::method(Expr::Var(v.name.clone()), "replace", vec![call, Expr::str("#")])
            }
            // receiver evaluated before the argument
            1 if matches!(&v.ty, Ty::Arr(e) if matches!(**e, Ty::Str | Ty::Num)) && fret == Ty::Str => {
                Expr::method(Expr::Var(v.name.clone()), "join", vec![call])
            }
            _ => Expr::Array(vec![read, call]),
        };
        if self.tape.chance(1, 3) {
            // store the pair first (promotion path), then observe it
            let t = self.fresh("t");
            out.push(Stmt::Make(t.clone(), Some(e)));
            out.push(Stmt::Expr(Expr::call("shout", vec![Expr::Var(t)])));
        } else {
            out.push(Stmt::Expr(Expr::call("shout", vec![e])));
        }
        // and the variable afterwards
        out.push(Stmt::Expr(Expr::call("shout", vec![Expr::Var(v.name)])));
    }

    /// `make g get <value>` for a name `g` that a callable function (defined in an enclosing block)
    /// assigns or mutates in an enclosing scope, then the call, then `shout(g)`: names resolve
    /// lexically, so the callee changes the outer `g` and the local namesake keeps its value.
    fn stmt_namesake_call(&mut self, out: &mut Block) {
        let cur = self.scopes.len() - 1;
        let mut cands: Vec<(usize, usize, bool, usize, String)> = Vec::new();
        for (si, fi, dec) in self.callable_funcs(None) {
            // the function's definition must lie in an enclosing block: a later declaration in
            // *its own* block would make the binding of its body a matter of ordering
            if si >= cur {
                continue;
            }
            for (ws, wn) in &self.scopes[si].funcs[fi].writes {
                if *ws < cur
                    && !self.scopes[cur].vars.iter().any(|v| v.name == *wn)
                    && !(self.is_param_of_current_fn(wn) && self.scopes.len() == self.ctx().base_scope + 2)
                {
                    cands.push((si, fi, dec, *ws, wn.clone()));
                }
            }
        }
        if cands.is_empty() {
            return self.stmt_call(out);
        }
        let (si, fi, dec, ws, wn) = cands[self.tape.choose(cands.len())].clone();
        let Some(ty) = self.scopes[ws].vars.iter().find(|v| v.name == wn).map(|v| v.ty.clone()) else {
            return self.stmt_call(out);
        };
        let e = self.expr(&ty, 0);
        let min_len = Self::literal_len(&e);
        out.push(Stmt::Make(wn.clone(), Some(e)));
        self.declare(wn.clone(), ty, false, min_len);
        self.features.shadowing_decls += 1;
        self.features.namesake_calls += 1;
        let call = self.make_call(si, fi, dec, 0);
        if self.tape.chance(1, 2) {
            out.push(Stmt::Expr(Expr::call("shout", vec![call])));
        } else {
            out.push(Stmt::Expr(call));
        }
        out.push(Stmt::Expr(Expr::call("shout", vec![Expr::Var(wn)])));
    }

    /// An unused declaration whose right-hand side raises a *reported* runtime error when it is
    /// evaluated (a dynamically typed value that does not fit). Not intent-type correct on
    /// purpose: only the pruning differential (C03) may use it.
    fn stmt_illtyped_dead(&mut self, out: &mut Block) {
        // parameters and array elements are dynamically typed for the static checker
        let params: Vec<(usize, usize)> = if self.ctx().me.is_some() {
            let base = self.ctx().base_scope;
            (0..self.scopes[base].vars.len()).map(|i| (base, i)).filter(|r| !self.var(*r).reserved).collect()
        } else {
            Vec::new()
        };
        let arrays = self.vars_of(&|v| matches!(v.ty, Ty::Arr(_)) && v.min_len > 0);
        let u = self.fresh("u");
        let e = if !params.is_empty() && self.tape.chance(2, 3) {
            let r = params[self.tape.choose(params.len())];
            let p = self.var(r).clone();
            let pv = Expr::Var(p.name.clone());
            match &p.ty {
                Ty::Num => match self.tape.choose(3) {
                    0 => Expr::method(pv, "len", vec![]),
                    1 => Expr::un(UnOp::Not, pv),
                    _ => Expr::index(pv, Expr::Num(0.0)),
                },
                Ty::Str => match self.tape.choose(4) {
                    0 => Expr::bin(BinOp::Minus, pv, Expr::Num(1.0)),
                    1 => Expr::un(UnOp::Neg, pv),
                    2 => Expr::method(pv, "slice", vec![Expr::Num(1.0)]),
                    _ => Expr::method(pv, "abs", vec![]),
                },
                Ty::Bool => match self.tape.choose(2) {
                    0 => Expr::bin(BinOp::Times, pv, Expr::Num(2.0)),
                    _ => Expr::method(pv, "len", vec![]),
                },
                Ty::Null => match self.tape.choose(2) {
                    0 => Expr::method(pv, "len", vec![]),
                    _ => Expr::bin(BinOp::Add, pv, Expr::Num(1.0)),
                },
                Ty::Arr(_) => match self.tape.choose(3) {
                    0 => Expr::bin(BinOp::Minus, pv, Expr::Num(1.0)),
                    1 => Expr::method(pv, "to_uppercase", vec![]),
                    _ => Expr::method(Expr::str("abc"), "find", vec![pv]),
                },
            }
        } else if !arrays.is_empty() {
            let r = arrays[self.tape.choose(arrays.len())];
            self.touch(r, false);
            let a = self.var(r).clone();
            let el = Expr::index(Expr::Var(a.name.clone()), Expr::Num(0.0));
            match a.ty {
                Ty::Arr(ref e) if **e == Ty::Num => Expr::method(el, "len", vec![]),
                Ty::Arr(ref e) if **e == Ty::Str => Expr::bin(BinOp::Times, el, Expr::Num(2.0)),
                _ => Expr::un(UnOp::Neg, el),
            }
        } else {
            return self.stmt_unused(out);
        };
        self.features.illtyped_dead += 1;
        out.push(Stmt::Make(u, Some(e)));
    }

    fn nested_block(&mut self) -> Block {
        self.depth += 1;
        let b = self.with_budget_cap(|g| g.block(false));
        self.depth -= 1;
        b
    }

    fn stmt_if(&mut self, out: &mut Block) {
        let c = self.bool_or_null(0);
        let t = self.nested_block();
        let e = if self.tape.chance(1, 2) { Some(self.nested_block()) } else { None };
        out.push(Stmt::If(c, t, e));
    }

    fn stmt_loop(&mut self, out: &mut Block) {
        // reserved counter, incremented as the first body statement so `next` cannot skip it
        let counter = self.fresh("i");
        let bound = 1 + self.tape.choose(5);
        out.push(Stmt::Make(counter.clone(), Some(Expr::Num(0.0))));
        self.declare(counter.clone(), Ty::Num, true, 0);
        let mut cond = Expr::bin(BinOp::Lt, Expr::Var(counter.clone()), Expr::Num(bound as f64));
        if self.tape.chance(1, 4) {
            let extra = self.expr(&Ty::Bool, 1);
            cond = Expr::bin(BinOp::And, cond, extra);
        }
        self.features.loops += 1;
        self.fn_stack.last_mut().unwrap().loop_depth += 1;
        self.depth += 1;
        let mut body = vec![Stmt::Assign(
            counter.clone(),
            Expr::bin(BinOp::Add, Expr::Var(counter), Expr::Num(1.0)),
        )];
        let rest = self.with_budget_cap(|g| g.block(false));
        body.extend(rest);
        self.depth -= 1;
        self.fn_stack.last_mut().unwrap().loop_depth -= 1;
        out.push(Stmt::Loop(cond, body));
    }

    fn stmt_jump(&mut self, out: &mut Block) -> bool {
        // return / comot / next in the middle of a block; what follows is dead code
        let in_loop = self.ctx().loop_depth > 0;
        let in_fn = self.ctx().me.is_some();
        let k = self.tape.choose(3);
        if in_loop && k < 2 {
            out.push(if k == 0 { Stmt::Break } else { Stmt::Continue });
            return true;
        }
        if in_fn {
            let ret = self.ctx().ret.clone();
            if ret == Ty::Null {
                // a bare `return` is only unambiguous directly before `end`
                out.push(Stmt::Return(Some(Expr::Null)));
            } else {
                let e = self.return_value(&ret);
                out.push(Stmt::Return(Some(e)));
            }
            return true;
        }
        false
    }

    fn return_value(&mut self, ret: &Ty) -> Expr {
        // returning a plain variable (local / parameter / captured) is the interesting case for
        // storage reclamation, so give it real weight
        if self.tape.chance(1, 2)
            && let Some(v) = self.var_expr(ret)
        {
            self.features.returns_of_variable += 1;
            return v;
        }
        self.expr(ret, 0)
    }

    fn plan_functions(&mut self) {
        let want = self.profile.funcs_per_block_x10;
        let mut n = 0;
        // the prune profile wants recursion cycles of three and four functions (interprocedural
        // summaries need more than one pass over such a component)
        let big_groups = self.profile.w_illtyped_dead > 0;
        let max_n = if big_groups { 4 } else { 3 };
        while n < max_n && self.depth < self.profile.max_depth && self.tape.chance(want, 10 + 8 * self.depth + 4 * n) {
            n += 1;
        }
        if n == 0 {
            return;
        }
        let ctx = self.fn_stack.len() - 1;
        let mutual = n >= 2 && (if big_groups && n >= 3 { self.tape.chance(3, 4) } else { self.tape.chance(1, 3) });
        let group = if mutual {
            self.next_group += 1;
            self.features.mutual_groups += 1;
            Some(self.next_group)
        } else {
            None
        };
        for _ in 0..n {
            let name = if self.profile.small_name_pool {
                let scope = self.scopes.last().unwrap();
                let free: Vec<&str> = NAME_POOL_FUNCS
                    .iter()
                    .copied()
                    .filter(|n| !scope.funcs.iter().any(|f| f.name == *n))
                    .collect();
                if free.is_empty() { self.fresh("fn") } else { free[self.tape.choose(free.len())].to_string() }
            } else {
                self.fresh("fn")
            };
            let recursive = mutual || self.tape.chance(1, 4);
            let mut params = Vec::new();
            if recursive {
                params.push((self.fresh("n"), Ty::Num));
            }
            let np = self.tape.choose(4);
            for _ in 0..np {
                let pty = self.pick_ty();
                let pname = if self.profile.small_name_pool {
                    let free: Vec<&str> = NAME_POOL_VARS
                        .iter()
                        .copied()
                        .filter(|n| !params.iter().any(|(p, _)| p == n))
                        .collect();
                    if free.is_empty() { self.fresh("p") } else { free[self.tape.choose(free.len())].to_string() }
                } else {
                    self.fresh("p")
                };
                params.push((pname, pty));
            }
            let ret = self.pick_ty();
            let my_group = if mutual {
                group
            } else if recursive {
                self.next_group += 1;
                Some(self.next_group)
            } else {
                None
            };
            let hoisted = mutual || self.tape.chance(1, 2);
            self.scopes.last_mut().unwrap().funcs.push(Func {
                name,
                params,
                ret,
                fuel: recursive,
                group: my_group,
                hoisted,
                state: FState::Planned,
                ctx,
                writes: Vec::new(),
            });
        }
    }

    fn emit_function(&mut self, si: usize, fi: usize, out: &mut Block) {
        let f = self.scopes[si].funcs[fi].clone();
        self.scopes[si].funcs[fi].state = FState::InProgress;
        self.features.functions += 1;
        if f.fuel {
            self.features.recursive_functions += 1;
        }
        if self.fn_level() > 0 {
            self.features.nested_functions += 1;
        }
        let level = self.fn_level() + 1;
        let base_scope = self.scopes.len();
        // parameter scope
        self.scopes.push(Scope { vars: Vec::new(), funcs: Vec::new(), fn_level: level });
        for (k, (p, t)) in f.params.iter().enumerate() {
            self.scopes.last_mut().unwrap().vars.push(Var {
                name: p.clone(),
                ty: t.clone(),
                reserved: k == 0 && f.fuel,
                captured: false,
                min_len: 0,
            });
        }
        self.fn_stack.push(FnCtx {
            me: Some((si, fi)),
            ret: f.ret.clone(),
            hidden: {
                let mut h = self.ctx().hidden.clone();
                if f.hoisted {
                    h.push(si);
                }
                h
            },
            base_scope,
            loop_depth: 0,
            group: f.group,
            fuel_param: if f.fuel { Some(f.params[0].0.clone()) } else { None },
        });
        self.depth += 1;
        let mut body: Block = Vec::new();
        // the body block has its own scope under the parameter scope
        self.scopes.push(Scope { vars: Vec::new(), funcs: Vec::new(), fn_level: level });
        // plan the body block's functions first: their names shadow outer ones from the very
        // start of the block, including inside the base case below
        self.plan_functions();
        if f.fuel {
            // base case first: everything after it runs with fuel >= 1
            let n = f.params[0].0.clone();
            // make sure recursive calls cannot appear in the base value
            let saved_group = self.fn_stack.last_mut().unwrap().group.take();
            let saved_fuel = self.fn_stack.last_mut().unwrap().fuel_param.take();
            let base = self.expr(&f.ret, 2);
            self.fn_stack.last_mut().unwrap().group = saved_group;
            self.fn_stack.last_mut().unwrap().fuel_param = saved_fuel;
            body.push(Stmt::If(
                Expr::bin(BinOp::Lt, Expr::Var(n), Expr::Num(1.0)),
                vec![Stmt::Return(Some(base))],
                None,
            ));
        }
        let inner = self.with_budget_cap(Self::block_body);
        body.extend(inner);
        // every path ends in a return of the intended type
        if f.ret != Ty::Null || self.tape.chance(1, 3) {
            let e = if f.ret == Ty::Null { Expr::Null } else { self.return_value(&f.ret) };
            body.push(Stmt::Return(Some(e)));
        } else if self.tape.chance(1, 4) {
            body.push(Stmt::Return(None)); // bare return directly before `end`
        }
        self.scopes.pop();
        self.depth -= 1;
        self.fn_stack.pop();
        self.scopes.pop();
        self.scopes[si].funcs[fi].state = FState::Done;
        out.push(Stmt::FuncDef(FuncDef {
            name: f.name,
            params: f.params.into_iter().map(|(p, _)| p).collect(),
            body,
        }));
    }

    /// Emits pending function definitions of the current block (`force`: all of them).
    fn emit_pending(&mut self, out: &mut Block, force: bool) {
        let si = self.scopes.len() - 1;
        loop {
            let pending: Vec<usize> = self.scopes[si]
                .funcs
                .iter()
                .enumerate()
                .filter(|(_, f)| f.state == FState::Planned)
                .map(|(i, _)| i)
                .collect();
            if pending.is_empty() {
                return;
            }
            if !force && !self.tape.chance(1, 3) {
                return;
            }
            let fi = pending[self.tape.choose(pending.len())];
            self.emit_function(si, fi, out);
            // make it likely that a function is actually called
            if self.tape.chance(2, 3) {
                let f = &self.scopes[si].funcs[fi];
                let callable = self
                    .callable_funcs(None)
                    .into_iter()
                    .find(|(s2, f2, _)| *s2 == si && *f2 == fi && self.scopes[*s2].funcs[*f2].name == f.name);
                if let Some((s2, f2, dec)) = callable {
                    let call = self.make_call(s2, f2, dec, 1);
                    out.push(Stmt::Expr(Expr::call("shout", vec![call])));
                }
            }
            if !force {
                return;
            }
        }
    }

    /// A new block: pushes a scope, plans its functions, generates statements.
    fn block(&mut self, top: bool) -> Block {
        let level = self.fn_level();
        self.scopes.push(Scope { vars: Vec::new(), funcs: Vec::new(), fn_level: level });
        self.plan_functions();
        let body = self.block_body();
        self.scopes.pop();
        let _ = top;
        body
    }

    /// Statements of the block whose scope is on top of the scope stack.
    fn block_body(&mut self) -> Block {
        let mut out: Block = Vec::new();
        let max_here = match self.depth {
            0 => 4 + self.tape.choose(14),
            1 => 2 + self.tape.choose(6),
            _ => 1 + self.tape.choose(4),
        };
        let mut dead = false;
        for _ in 0..max_here {
            if self.stmts_left == 0 || (self.tape.exhausted() && !out.is_empty()) {
                break;
            }
            self.stmts_left -= 1;
            self.emit_pending(&mut out, false);
            let p = self.profile.clone();
            let can_nest = self.depth < p.max_depth;
            let w = [
                p.w_make,
                p.w_shout,
                p.w_assign,
                if can_nest { p.w_if } else { 0 },
                if can_nest { p.w_loop } else { 0 },
                if can_nest { p.w_block } else { 0 },
                p.w_call,
                p.w_arrmut,
                p.w_redecl,
                if dead { 0 } else { p.w_jump },
                p.w_unused,
                p.w_clobber,
                p.w_illtyped_dead,
                p.w_namesake,
            ];
            match self.tape.weighted(&w) {
                0 => self.stmt_make(&mut out),
                1 => self.stmt_shout(&mut out),
                2 => self.stmt_assign(&mut out),
                3 => self.stmt_if(&mut out),
                4 => self.stmt_loop(&mut out),
                5 => {
                    let b = self.nested_block();
                    out.push(Stmt::Block(b));
                }
                6 => self.stmt_call(&mut out),
                7 => self.stmt_array_mutation(&mut out),
                8 => self.stmt_redeclare(&mut out),
                9 => {
                    if self.stmt_jump(&mut out) {
                        dead = true;
                        self.features.dead_code += 1;
                        // keep a little dead code after the jump, then stop
                        if !self.tape.chance(1, 2) {
                            break;
                        }
                    }
                }
                10 => self.stmt_unused(&mut out),
                11 => self.stmt_clobber(&mut out),
                12 => self.stmt_illtyped_dead(&mut out),
                _ => self.stmt_namesake_call(&mut out),
            }
            if dead && self.tape.chance(1, 2) {
                break;
            }
        }
        // observation epilogue: make stale or wrongly bound values visible
        if !dead && self.profile.epilogue_pm > 0 && self.tape.chance(self.profile.epilogue_pm, 1000) {
            let cands = self.visible_vars();
            let n = cands.len().min(1 + self.tape.choose(3));
            for k in 0..n {
                let r = cands[(k * 7 + self.tape.choose(cands.len())) % cands.len()];
                self.touch(r, false);
                let name = self.var(r).name.clone();
                out.push(Stmt::Expr(Expr::call("shout", vec![Expr::Var(name)])));
            }
        }
        self.emit_pending(&mut out, true);
        out
    }
}
