use std::path::PathBuf;

use nsverif::ctx::Tier;
use nsverif::{driver, find_check, isolate};

fn usage() -> ! {
    eprintln!(
        "usage:\n  nsverif check <ID> [--tier quick|thorough] [--replay <path>]\n  nsverif shard <ID> --tier T --seed S --shard I --of N --result PATH\n  nsverif list"
    );
    std::process::exit(2);
}

fn main() {
    isolate::install_panic_hook();
    let args: Vec<String> = std::env::args().collect();
    if args.len() < 2 {
        usage();
    }
    let flag = |name: &str| -> Option<String> {
        args.iter().position(|a| a == name).and_then(|i| args.get(i + 1)).cloned()
    };
    match args[1].as_str() {
        "gen" => {
            // debugging aid: print generated programs (not used by any check)
            let profile = args.get(2).cloned().unwrap_or_else(|| "general".into());
            let n: u64 = args.get(3).and_then(|s| s.parse().ok()).unwrap_or(3);
            let seed: u64 = args.get(4).and_then(|s| s.parse().ok()).unwrap_or(1);
            let len: usize = args.get(5).and_then(|s| s.parse().ok()).unwrap_or(400);
            let mut rng = nsverif::util::SplitMix(seed);
            for i in 0..n {
                let tape: Vec<u8> = (0..len).map(|_| rng.next() as u8).collect();
                let p = nsverif::progs::prepare(&tape, &profile);
                println!("# ---- program {i} ({} stmts) issues={:?}", nsverif::nsgen::ast::count_stmts(&p.program.body), p.resolved.issues.iter().map(|x| format!("{}:{}", x.rule.name(), x.detail)).collect::<Vec<_>>());
                println!("{}", p.source);
                let r = nsverif::progs::reference(&p);
                println!("# reference: {:?} ambiguous={:?} output={}", r.ending, r.ambiguous, r.output.len());
            }
        }
        "list" => {
            for c in nsverif::checks() {
                println!("{}", c.id());
            }
        }
        "check" => {
            let Some(id) = args.get(2) else { usage() };
            let Some(check) = find_check(id) else {
                eprintln!("unknown property {id}");
                std::process::exit(2);
            };
            let tier = flag("--tier")
                .or_else(|| std::env::var("VERIF_TIER").ok())
                .map_or(Tier::Quick, |s| Tier::parse(&s));
            let code = if let Some(path) = flag("--replay") {
                driver::run_replay(check, &PathBuf::from(path))
            } else {
                driver::run_check(check, tier)
            };
            std::process::exit(code);
        }
        "shard" => {
            let Some(id) = args.get(2) else { usage() };
            let Some(check) = find_check(id) else { usage() };
            let tier = Tier::parse(&flag("--tier").unwrap_or_default());
            let seed = flag("--seed").and_then(|s| s.parse().ok()).unwrap_or(1);
            let shard = flag("--shard").and_then(|s| s.parse().ok()).unwrap_or(0);
            let of = flag("--of").and_then(|s| s.parse().ok()).unwrap_or(1);
            let result = PathBuf::from(flag("--result").unwrap_or_else(|| "/dev/null".into()));
            std::process::exit(driver::run_shard(check, tier, seed, shard, of, &result));
        }
        _ => usage(),
    }
}
