//! C13 - String built-ins agree with their specification on every input.
//!
//! Subjects: `builtins::find` (tw.rs), `builtins::replace`, `StringBuiltin::*`,
//! `ArrayBuiltin::join`, called as Rust functions in the dbg and rel builds, plus a
//! sample routed through a script (wiring in runtime.rs).
//! Oracles: naive quadratic search / replacement / split written here, a `Vec<char>`
//! model of `slice`, own whitespace loop for `trim`, std's string case conversion,
//! exact round trips for `to_number`.

use std::time::Duration;

use naijascript::arena::{Arena, ArenaCow};
use naijascript::builtins::{ArrayBuiltin, StringBuiltin};
use naijascript::runtime::Value;
use proptest::prelude::*;
use serde_json::{Value as J, json};

use crate::ctx::{Failure, Outcome, ShardCtx, Tier};
use crate::driver::{Bin, Check, ShardSpec};
use crate::isolate;
use crate::util::{Fnv, show};

pub struct C13;

#[derive(Debug, Clone)]
pub enum Case {
    /// find / replace / split+join on (hay, needle, replacement)
    Search { hay: String, needle: String, repl: String },
    Slice { s: String, start: f64, end: f64 },
    /// len / trim / to_uppercase / to_lowercase
    Text { s: String },
    /// to_number: `text` must parse to exactly `expect` bits (None = must be NaN)
    Num { text: String, expect: Option<u64> },
}

impl Case {
    pub fn to_json(&self) -> J {
        match self {
            Case::Search { hay, needle, repl } => {
                json!({"kind":"search","hay":hay,"needle":needle,"repl":repl})
            }
            Case::Slice { s, start, end } => json!({
                "kind":"slice","s":s,"start_bits":start.to_bits(),"end_bits":end.to_bits(),
                "start":format!("{start:?}"),"end":format!("{end:?}")}),
            Case::Text { s } => json!({"kind":"text","s":s}),
            Case::Num { text, expect } => json!({"kind":"num","text":text,"expect_bits":expect}),
        }
    }

    pub fn from_json(j: &J) -> Option<Case> {
        let s = |k: &str| j.get(k).and_then(J::as_str).map(str::to_string);
        match j.get("kind")?.as_str()? {
            "search" => Some(Case::Search { hay: s("hay")?, needle: s("needle")?, repl: s("repl")? }),
            "slice" => Some(Case::Slice {
                s: s("s")?,
                start: f64::from_bits(j.get("start_bits")?.as_u64()?),
                end: f64::from_bits(j.get("end_bits")?.as_u64()?),
            }),
            "text" => Some(Case::Text { s: s("s")? }),
            "num" => Some(Case::Num { text: s("text")?, expect: j.get("expect_bits")?.as_u64() }),
            _ => None,
        }
    }

    fn hash(&self) -> u64 {
        let mut h = Fnv::new();
        h.write(self.to_json().to_string().as_bytes());
        h.finish()
    }
}

// ---------------------------------------------------------------- oracles --

pub fn naive_find(h: &[u8], n: &[u8]) -> Option<usize> {
    if n.is_empty() {
        return Some(0);
    }
    if n.len() > h.len() {
        return None;
    }
    (0..=h.len() - n.len()).find(|&i| &h[i..i + n.len()] == n)
}

pub fn naive_replace(h: &str, from: &str, to: &str) -> String {
    let mut out = String::new();
    if from.is_empty() {
        // insertion at every character boundary (pinned by the repository's unit test t9)
        out.push_str(to);
        for ch in h.chars() {
            out.push(ch);
            out.push_str(to);
        }
        return out;
    }
    let hb = h.as_bytes();
    let mut pos = 0;
    while let Some(i) = naive_find(&hb[pos..], from.as_bytes()) {
        out.push_str(&h[pos..pos + i]);
        out.push_str(to);
        pos += i + from.len();
    }
    out.push_str(&h[pos..]);
    out
}

pub fn naive_split(h: &str, p: &str) -> Vec<String> {
    assert!(!p.is_empty());
    let hb = h.as_bytes();
    let mut out = Vec::new();
    let mut pos = 0;
    while let Some(i) = naive_find(&hb[pos..], p.as_bytes()) {
        out.push(h[pos..pos + i].to_string());
        pos += i + p.len();
    }
    out.push(h[pos..].to_string());
    out
}

/// `slice` on character positions: floor, negative counts from the end, clamp, empty if start >= end.
pub fn model_slice(s: &str, start: f64, end: f64) -> String {
    let chars: Vec<char> = s.chars().collect();
    let len = chars.len() as i128;
    let norm = |x: f64| -> i128 {
        let f = x.floor();
        let mut v: i128 = if f >= 1e30 {
            i128::from(i64::MAX)
        } else if f <= -1e30 {
            -i128::from(i64::MAX)
        } else {
            f as i128
        };
        if v < 0 {
            v += len;
        }
        v.clamp(0, len)
    };
    let (a, b) = (norm(start), norm(end));
    if a >= b {
        return String::new();
    }
    chars[a as usize..b as usize].iter().collect()
}

fn model_trim(s: &str) -> &str {
    let mut start = 0;
    for (i, ch) in s.char_indices() {
        if ch.is_whitespace() {
            start = i + ch.len_utf8();
        } else {
            break;
        }
    }
    let rest = &s[start..];
    let mut end = rest.len();
    for (i, ch) in rest.char_indices().rev() {
        if ch.is_whitespace() {
            end = i;
        } else {
            break;
        }
    }
    &rest[..end]
}

fn nlen_tier(n: usize) -> &'static str {
    match n {
        0 => "nlen=0",
        1 => "nlen=1",
        2 => "nlen=2",
        3..=16 => "nlen=3..16",
        _ => "nlen>16",
    }
}

type Bad = (String, String); // (signature, description)

/// Evaluates the oracle for one case against the implementation. Runs in the child.
pub fn eval_case(case: &Case, arena: &Arena) -> Result<(), Bad> {
    match case {
        Case::Search { hay, needle, repl } => {
            let tier = nlen_tier(needle.len());
            // find
            let want = naive_find(hay.as_bytes(), needle.as_bytes());
            debug_assert_eq!(want, hay.find(needle.as_str()));
            let got = naijascript::builtins::find(hay, needle);
            if got != want {
                return Err((
                    format!("mismatch|find|{tier}"),
                    format!("find({hay:?}, {needle:?}) = {got:?}, first occurrence is {want:?}"),
                ));
            }
            let got_f = StringBuiltin::find(hay, needle);
            let want_f = want.map_or(-1.0, |v| v as f64);
            if got_f != want_f {
                return Err((
                    format!("mismatch|StringBuiltin::find|{tier}"),
                    format!("StringBuiltin::find({hay:?}, {needle:?}) = {got_f}, expected {want_f}"),
                ));
            }
            // replace
            let want_r = naive_replace(hay, needle, repl);
            let got_r = StringBuiltin::replace(hay, needle, repl, arena);
            if std::str::from_utf8(got_r.as_bytes()).is_err() {
                return Err((
                    format!("invalid-utf8|replace|{tier}"),
                    format!("replace({hay:?}, {needle:?}, {repl:?}) is not valid UTF-8"),
                ));
            }
            if got_r.as_str() != want_r {
                return Err((
                    format!("mismatch|replace|{tier}"),
                    format!(
                        "replace({hay:?}, {needle:?}, {repl:?}) = {:?}, expected {want_r:?}",
                        got_r.as_str()
                    ),
                ));
            }
            // split / join
            let mut pieces: Vec<Value<'_>, &Arena> = Vec::new_in(arena);
            let mut piece_strs: Vec<String> = Vec::new();
            for p in StringBuiltin::split(hay, needle, arena) {
                if std::str::from_utf8(p.as_bytes()).is_err() {
                    return Err((
                        format!("invalid-utf8|split|{tier}"),
                        format!("split({hay:?}, {needle:?}) produced invalid UTF-8"),
                    ));
                }
                piece_strs.push(p.as_str().to_string());
                pieces.push(Value::Str(ArenaCow::Owned(p)));
            }
            if !needle.is_empty() {
                let want_p = naive_split(hay, needle);
                if piece_strs != want_p {
                    return Err((
                        format!("mismatch|split|{tier}"),
                        format!("split({hay:?}, {needle:?}) = {piece_strs:?}, expected {want_p:?}"),
                    ));
                }
            }
            let joined = ArrayBuiltin::join(&pieces, needle, arena);
            if joined.as_str() != hay {
                return Err((
                    format!("mismatch|split-join|{tier}"),
                    format!(
                        "split({hay:?}, {needle:?}).join({needle:?}) = {:?} (pieces {piece_strs:?})",
                        joined.as_str()
                    ),
                ));
            }
            Ok(())
        }
        Case::Slice { s, start, end } => {
            let got = StringBuiltin::slice(s, *start, *end, arena);
            if std::str::from_utf8(got.as_bytes()).is_err() {
                return Err((
                    "invalid-utf8|slice".into(),
                    format!("slice({s:?}, {start:?}, {end:?}) is not valid UTF-8"),
                ));
            }
            if start.is_nan() || end.is_nan() {
                // NaN bounds are undocumented: totality and "contiguous char substring" only.
                let chars: Vec<char> = s.chars().collect();
                let g: Vec<char> = got.as_str().chars().collect();
                let ok = g.is_empty() || chars.windows(g.len()).any(|w| w == g.as_slice());
                if !ok {
                    return Err((
                        "mismatch|slice|nan".into(),
                        format!(
                            "slice({s:?}, {start:?}, {end:?}) = {:?} is not a substring",
                            got.as_str()
                        ),
                    ));
                }
                return Ok(());
            }
            let want = model_slice(s, *start, *end);
            if got.as_str() != want {
                return Err((
                    "mismatch|slice".into(),
                    format!(
                        "slice({s:?}, {start:?}, {end:?}) = {:?}, expected {want:?}",
                        got.as_str()
                    ),
                ));
            }
            Ok(())
        }
        Case::Text { s } => {
            let l = StringBuiltin::len(s);
            if l != s.chars().count() as f64 {
                return Err((
                    "mismatch|len".into(),
                    format!("len({s:?}) = {l}, expected {}", s.chars().count()),
                ));
            }
            let t = StringBuiltin::trim(s, arena);
            if t.as_str() != model_trim(s) {
                return Err((
                    "mismatch|trim".into(),
                    format!("trim({s:?}) = {:?}, expected {:?}", t.as_str(), model_trim(s)),
                ));
            }
            let up = StringBuiltin::to_uppercase(s, arena);
            let lo = StringBuiltin::to_lowercase(s, arena);
            for (name, got, want) in
                [("to_uppercase", &up, s.to_uppercase()), ("to_lowercase", &lo, s.to_lowercase())]
            {
                if std::str::from_utf8(got.as_bytes()).is_err() {
                    return Err((
                        format!("invalid-utf8|{name}"),
                        format!("{name}({s:?}) is not valid UTF-8"),
                    ));
                }
                if got.as_str() != want {
                    let class = if s.contains('Σ') { "|final-sigma" } else { "" };
                    return Err((
                        format!("mismatch|{name}{class}"),
                        format!("{name}({s:?}) = {:?}, expected {want:?}", got.as_str()),
                    ));
                }
            }
            // idempotence
            let up2 = StringBuiltin::to_uppercase(up.as_str(), arena);
            if up2.as_str() != up.as_str() {
                return Err((
                    "mismatch|to_uppercase|idempotence".into(),
                    format!("to_uppercase is not idempotent on {s:?}"),
                ));
            }
            Ok(())
        }
        Case::Num { text, expect } => {
            let got = StringBuiltin::to_number(text);
            match expect {
                Some(bits) => {
                    if got.to_bits() != *bits {
                        return Err((
                            "mismatch|to_number|value".into(),
                            format!(
                                "to_number({text:?}) = {got:?}, expected {:?}",
                                f64::from_bits(*bits)
                            ),
                        ));
                    }
                }
                None => {
                    if !got.is_nan() {
                        return Err((
                            "mismatch|to_number|not-nan".into(),
                            format!("to_number({text:?}) = {got:?}, expected NaN"),
                        ));
                    }
                }
            }
            Ok(())
        }
    }
}

fn fail_of(case: &Case, sig: String, what: String) -> Failure {
    Failure { sig, what, input: json!({"case": case.to_json()}) }
}

/// Classification and non-trivial rule.
fn classify(ctx: &mut ShardCtx, case: &Case) {
    ctx.eval();
    match case {
        Case::Search { hay, needle, .. } => {
            let tier = nlen_tier(needle.len());
            ctx.class(&format!("search {tier}"));
            let hb = hay.as_bytes();
            let nb = needle.as_bytes();
            let occurs = !nb.is_empty() && naive_find(hb, nb).is_some();
            let near = nb.len() >= 2 && naive_find(hb, &nb[..nb.len().div_ceil(2)]).is_some();
            if occurs {
                ctx.class("search needle occurs");
            } else if near {
                ctx.class("search near miss only");
            }
            if !hay.is_ascii() || !needle.is_ascii() {
                ctx.class("search multi-byte");
            }
            if occurs || near {
                ctx.nontrivial(case.hash());
                ctx.sample(&format!("search {tier}"), case.to_json());
            }
        }
        Case::Slice { s, start, end } => {
            let len = s.chars().count() as f64;
            let odd = |x: f64| x < 0.0 || x.fract() != 0.0 || x > len || !x.is_finite();
            if start.is_nan() || end.is_nan() {
                ctx.class("slice NaN bound");
            }
            if odd(*start) || odd(*end) {
                ctx.class("slice negative/fractional/out-of-range bound");
                ctx.nontrivial(case.hash());
                ctx.sample("slice", case.to_json());
            }
            if !s.is_ascii() {
                ctx.class("slice multi-byte");
            }
        }
        Case::Text { s } => {
            let interesting = s.chars().any(|c| c.is_whitespace() || !c.is_ascii());
            if interesting {
                ctx.class("text with whitespace or non-ASCII");
                ctx.nontrivial(case.hash());
                ctx.sample("text", case.to_json());
            }
            if s.contains('Σ') {
                ctx.class("text with capital sigma");
            }
        }
        Case::Num { expect, .. } => {
            ctx.class(if expect.is_some() { "to_number valid spelling" } else { "to_number invalid" });
            ctx.nontrivial(case.hash());
            ctx.sample(
                if expect.is_some() { "to_number valid" } else { "to_number invalid" },
                case.to_json(),
            );
        }
    }
}

/// Runs one case isolated; a crash, abort or hang is a failure (termination and
/// "never fails" are part of the statement).
pub fn check_case(case: &Case) -> Outcome {
    let iso = isolate::run(isolate::Opts { timeout: Duration::from_secs(10), ..Default::default() }, |out| {
        let arena = Arena::new(8 << 20).expect("arena");
        match eval_case(case, &arena) {
            Ok(()) => out.frame(b"ok"),
            Err((sig, what)) => {
                let mut p = b"bad\n".to_vec();
                p.extend_from_slice(sig.as_bytes());
                p.push(b'\n');
                p.extend_from_slice(what.as_bytes());
                out.frame(&p);
            }
        }
    });
    if !iso.clean() || iso.frames.is_empty() {
        let kind = iso.crash_kind().unwrap_or_else(|| "no result".into());
        let (func, tier) = match case {
            Case::Search { needle, .. } => ("search", nlen_tier(needle.len())),
            Case::Slice { .. } => ("slice", ""),
            Case::Text { .. } => ("text", ""),
            Case::Num { .. } => ("to_number", ""),
        };
        let kind_class = if kind == "timeout" { "hang".to_string() } else { format!("crash|{kind}") };
        return Outcome::Fail(fail_of(
            case,
            format!("{kind_class}|{func}|{tier}"),
            format!("{kind} while evaluating {}", show(&case.to_json().to_string())),
        ));
    }
    let f = &iso.frames[0];
    if f == b"ok" {
        return Outcome::Pass;
    }
    let text = String::from_utf8_lossy(f);
    let mut it = text.splitn(3, '\n');
    let _ = it.next();
    let sig = it.next().unwrap_or("mismatch").to_string();
    let what = it.next().unwrap_or("").to_string();
    Outcome::Fail(fail_of(case, sig, what))
}

// ------------------------------------------------------------- generators --

fn alphabet_strings(max_len: usize) -> Vec<String> {
    // all strings over {a,b,c} of length 0..=max_len, in length-lexicographic order
    let mut all = vec![String::new()];
    let mut level = vec![String::new()];
    for _ in 0..max_len {
        let mut next = Vec::with_capacity(level.len() * 3);
        for s in &level {
            for c in ['a', 'b', 'c'] {
                let mut t = s.clone();
                t.push(c);
                next.push(t);
            }
        }
        all.extend(next.iter().cloned());
        level = next;
    }
    all
}

fn fib_word(n: usize) -> String {
    let (mut a, mut b) = (String::from("a"), String::from("ab"));
    while b.len() < n {
        let c = format!("{b}{a}");
        a = b;
        b = c;
    }
    b.chars().take(n).collect()
}

fn thue_morse(n: usize) -> String {
    (0..n).map(|i| if (i as u32).count_ones() % 2 == 0 { 'a' } else { 'b' }).collect()
}

fn needle_strategy() -> impl Strategy<Value = String> {
    let unit = prop::collection::vec(prop::sample::select(vec!['a', 'b', 'c', 'é', '世']), 1..8)
        .prop_map(|v| v.into_iter().collect::<String>());
    prop_oneof![
        // periodic u^k, 17..48 bytes
        (unit.clone(), 17usize..48).prop_map(|(u, n)| u.chars().cycle().take(n).collect::<String>()),
        // near-periodic: one flipped char
        (unit.clone(), 17usize..48, any::<prop::sample::Index>()).prop_map(|(u, n, ix)| {
            let mut v: Vec<char> = u.chars().cycle().take(n).collect();
            let i = ix.index(v.len());
            v[i] = if v[i] == 'z' { 'y' } else { 'z' };
            v.into_iter().collect()
        }),
        (17usize..60).prop_map(fib_word),
        (17usize..60).prop_map(thue_morse),
        // suffix-heavy: x^k y
        (1usize..30, 1usize..6).prop_map(|(k, m)| format!("{}{}", "a".repeat(k + 14), "b".repeat(m))),
        (1usize..30, 1usize..6).prop_map(|(k, m)| format!("{}{}", "b".repeat(m), "a".repeat(k + 14))),
        // random over small alphabets
        prop::collection::vec(prop::sample::select(vec!['a', 'b']), 3..40)
            .prop_map(|v| v.into_iter().collect()),
        prop::collection::vec(prop::sample::select(vec!['a', 'b', 'c', 'd']), 0..24)
            .prop_map(|v| v.into_iter().collect()),
        // multi-byte text
        prop::collection::vec(prop::sample::select(vec!['a', 'é', 'ñ', '世', '界', '🌎', ' ']), 1..24)
            .prop_map(|v| v.into_iter().collect()),
        "[ -~]{0,40}",
    ]
}

#[derive(Debug, Clone)]
enum Part {
    Prefix(prop::sample::Index),
    Suffix(prop::sample::Index),
    Full,
    AlmostFull,
    Filler(String),
    Overlap(prop::sample::Index),
}

pub fn search_strategy() -> impl Strategy<Value = Case> {
    prop_oneof![
        6 => structured_search_strategy(),
        1 => free_text_search_strategy(),
    ]
}

/// Haystack = arbitrary (multi-byte rich) text; needle = empty, a substring of it by character
/// positions, or its last / first character; replacement short, possibly multi-byte.
fn free_text_search_strategy() -> impl Strategy<Value = Case> {
    let repl = prop_oneof![Just(String::new()), Just("-".to_string()), Just("<>".to_string()), Just("é".to_string())];
    (text_string(), 0u8..6, any::<prop::sample::Index>(), any::<prop::sample::Index>(), repl).prop_map(
        |(hay, kind, a, b, repl)| {
            let chars: Vec<char> = hay.chars().collect();
            let needle: String = match kind {
                0 | 1 => String::new(),
                2 => chars.last().map(|c| c.to_string()).unwrap_or_default(),
                3 => chars.first().map(|c| c.to_string()).unwrap_or_default(),
                _ => {
                    let (mut i, mut j) = (a.index(chars.len() + 1), b.index(chars.len() + 1));
                    if i > j {
                        std::mem::swap(&mut i, &mut j);
                    }
                    chars[i..j].iter().collect()
                }
            };
            Case::Search { hay, needle, repl }
        },
    )
}

fn structured_search_strategy() -> impl Strategy<Value = Case> {
    let part = prop_oneof![
        3 => any::<prop::sample::Index>().prop_map(Part::Prefix),
        2 => any::<prop::sample::Index>().prop_map(Part::Suffix),
        2 => Just(Part::Full),
        2 => Just(Part::AlmostFull),
        2 => "[abcz ]{0,6}".prop_map(Part::Filler),
        1 => any::<prop::sample::Index>().prop_map(Part::Overlap),
    ];
    let repl = prop_oneof![
        Just(String::new()),
        Just("-".to_string()),
        "[a-c]{0,3}",
        Just("éé".to_string()),
    ];
    (needle_strategy(), prop::collection::vec(part, 0..8), repl).prop_map(|(needle, parts, repl)| {
        let chars: Vec<char> = needle.chars().collect();
        let mut hay = String::new();
        for p in parts {
            match p {
                Part::Prefix(ix) => hay.extend(chars.iter().take(ix.index(chars.len() + 1))),
                Part::Suffix(ix) => hay.extend(chars.iter().skip(ix.index(chars.len() + 1))),
                Part::Full => hay.push_str(&needle),
                Part::AlmostFull => hay.extend(chars.iter().take(chars.len().saturating_sub(1))),
                Part::Filler(s) => hay.push_str(&s),
                Part::Overlap(ix) => {
                    // needle followed by a proper suffix of itself starting inside it
                    hay.push_str(&needle);
                    hay.extend(chars.iter().skip(ix.index(chars.len() + 1)));
                }
            }
        }
        // replacing "" with "" etc. is fine; repl with needle content exercises "no rescanning"
        Case::Search { hay, needle, repl }
    })
}

fn text_string() -> impl Strategy<Value = String> {
    let ch = prop_oneof![
        6 => prop::sample::select(vec!['a', 'Z', 'm', '0', '_', '-']),
        3 => prop::sample::select(vec![' ', '\t', '\n', '\r', '\u{0b}', '\u{0c}', '\u{85}', '\u{a0}',
            '\u{1680}', '\u{2003}', '\u{2028}', '\u{2029}', '\u{202f}', '\u{205f}', '\u{3000}',
            '\u{200b}', '\u{feff}']),
        4 => prop::sample::select(vec!['ß', 'İ', 'ı', 'Σ', 'σ', 'ς', 'ǅ', 'ﬁ', 'ŉ', 'ΐ', 'Å', 'é', 'É',
            'ñ', 'Ж', 'ж', '世', '🌎', 'ᾳ', 'ᾼ', 'Ǆ', 'ǆ', '\u{0345}', '\u{0307}']),
        1 => any::<char>(),
    ];
    prop::collection::vec(ch, 0..24).prop_map(|v| v.into_iter().collect())
}

fn slice_strategy() -> impl Strategy<Value = Case> {
    let bound = |len: usize| {
        let l = len as f64;
        prop_oneof![
            4 => (-3i32..=3).prop_map(|d| f64::from(d)),
            4 => (-3i32..=3).prop_map(move |d| l + f64::from(d)),
            4 => (-3i32..=3).prop_map(move |d| -l + f64::from(d)),
            3 => (0.0f64..1.0, -2i32..40).prop_map(|(f, i)| f64::from(i) + f),
            1 => prop::sample::select(vec![1e300, -1e300, f64::INFINITY, f64::NEG_INFINITY, -0.0,
                9.3e18, -9.3e18, 1.8446744073709552e19, 0.999_999_999_999, -0.000_000_1, f64::MIN_POSITIVE]),
            1 => Just(f64::NAN),
            2 => any::<f64>(),
        ]
    };
    text_string().prop_flat_map(move |s| {
        let n = s.chars().count();
        (Just(s), bound(n), bound(n))
            .prop_map(|(s, start, end)| Case::Slice { s, start, end })
    })
}

fn num_strategy() -> impl Strategy<Value = Case> {
    let finite = prop_oneof![
        3 => any::<f64>().prop_filter_map("finite", |x| x.is_finite().then_some(x)),
        1 => (any::<i64>()).prop_map(|i| (i % (1i64 << 53)) as f64),
        1 => (any::<i32>(), 0u32..40).prop_map(|(m, e)| f64::from(m) / 2f64.powi(e as i32)),
        1 => prop::sample::select(vec![0.0, -0.0, 1.0, 0.1, 0.3, 1e22, 1e23, 5e-324, 2.2250738585072014e-308,
            1.7976931348623157e308, 9007199254740993.0, 0.5, 123456789.125]),
    ];
    let valid = (finite, 0u8..6).prop_map(|(x, style)| {
        let text = match style {
            0 => format!("{x}"),
            1 => format!("{x:e}"),
            2 => format!("{x:E}"),
            3 => {
                if x.is_sign_negative() { format!("{x}") } else { format!("+{x}") }
            }
            4 => {
                // leading zeros on the integer part
                let s = format!("{x}");
                if let Some(rest) = s.strip_prefix('-') { format!("-000{rest}") } else { format!("000{s}") }
            }
            _ => {
                // trailing fractional zeros
                let s = format!("{x}");
                if s.contains('.') { format!("{s}000") } else { format!("{s}.000") }
            }
        };
        Case::Num { text, expect: Some(x.to_bits()) }
    });
    let invalid = prop_oneof![
        "[a-df-hj-mo-z]{1,5}".prop_map(|s| s), // letters that cannot start inf/nan/e
        "[0-9]{1,4} [0-9]{1,4}",
        "[0-9]{1,3}_[0-9]{1,3}",
        "0x[0-9a-f]{1,4}",
        " [0-9]{1,4}",
        "[0-9]{1,4} ",
        "[0-9]{1,4}\\.[0-9]{1,3}\\.[0-9]{1,3}",
        "[0-9]{1,3}e",
        "--[0-9]{1,3}",
        Just(String::new()),
        Just(".".to_string()),
        Just("e5".to_string()),
        Just("1,5".to_string()),
        Just("١٢٣".to_string()),
    ]
    .prop_map(|text| Case::Num { text, expect: None });
    prop_oneof![3 => valid, 1 => invalid]
}

/// A script that routes (hay, needle, repl) through parameters into find / replace / split /
/// join / slice / len and prints the results. Characters the literal syntax cannot carry
/// (CR, braces that would read as placeholders) are replaced.
pub fn script_for_search(hay: &str, needle: &str, repl: &str) -> String {
    let lit = |s: &str| -> String {
        let cleaned: String = s
            .chars()
            .map(|c| match c {
                '\r' => ' ',
                '{' => '(',
                '}' => ')',
                c => c,
            })
            .collect();
        let mut out = String::from("\"");
        crate::nsgen::print::escape_text(&cleaned, '"', &mut out);
        out.push('"');
        out
    };
    format!(
        "do w(h, n, r) start\n    shout(h.find(n))\n    shout(h.replace(n, r))\n    make parts get h.split(n)\n    shout(parts.len())\n    shout(parts.join(n))\n    shout(h.slice(h.find(n), h.len()))\n    shout(h.len())\nend\nw({}, {}, {})\n",
        lit(hay),
        lit(needle),
        lit(repl)
    )
}

/// What the script of [`script_for_search`] must print, from the naive oracles (None where the
/// documentation leaves the script-level result open: empty patterns, non-ASCII find index).
pub fn expected_script_output(hay: &str, needle: &str, repl: &str) -> Option<Vec<crate::pipeline::NVal>> {
    use crate::pipeline::NVal;
    let clean = |s: &str| -> String {
        s.chars().map(|c| match c { '\r' => ' ', '{' => '(', '}' => ')', c => c }).collect()
    };
    let (h, n, r) = (clean(hay), clean(needle), clean(repl));
    if n.is_empty() || !h.is_ascii() {
        return None;
    }
    let found = naive_find(h.as_bytes(), n.as_bytes());
    let idx = found.map_or(-1.0, |i| i as f64);
    let parts = naive_split(&h, &n);
    Some(vec![
        NVal::Num(idx),
        NVal::s(&naive_replace(&h, &n, &r)),
        NVal::Num(parts.len() as f64),
        NVal::s(&h),
        NVal::s(&model_slice(&h, idx, h.chars().count() as f64)),
        NVal::Num(h.chars().count() as f64),
    ])
}

// ----------------------------------------------------------------- stages --

fn exhaustive_stage(ctx: &mut ShardCtx, max_hay: usize) {
    let hays = alphabet_strings(max_hay);
    let needles = alphabet_strings(5);
    let repls = ["", "-", "ab"];
    let mine: Vec<&String> = hays
        .iter()
        .enumerate()
        .filter(|(i, _)| (*i as u32) % ctx.of == ctx.shard)
        .map(|(_, h)| h)
        .collect();
    ctx.exhaustive = Some(true);
    ctx.note(format!(
        "exhaustive sub-space: all (haystack, needle) over {{a,b,c}} with |haystack| <= {max_hay}, |needle| <= 5 \
         ({} x {} pairs, x3 replacements), each through find/replace/split/join",
        hays.len(),
        needles.len()
    ));
    for batch in mine.chunks(128) {
        let iso = isolate::run(
            isolate::Opts { timeout: Duration::from_secs(120), ..Default::default() },
            |out| {
                let arena = Arena::new(64 << 20).expect("arena");
                let mut reported = 0;
                for (hi, hay) in batch.iter().enumerate() {
                    let mark = arena.offset();
                    for needle in &needles {
                        let repl = repls[(hay.len() + needle.len()) % repls.len()];
                        let case = Case::Search {
                            hay: (*hay).clone(),
                            needle: needle.clone(),
                            repl: repl.to_string(),
                        };
                        if let Err((sig, what)) = eval_case(&case, &arena) {
                            if reported < 4 {
                                let doc = json!({"sig": sig, "what": what, "case": case.to_json()});
                                out.frame(doc.to_string().as_bytes());
                                reported += 1;
                            }
                        }
                    }
                    unsafe { arena.reset(mark) };
                    let _ = hi;
                }
                out.frame(b"done");
            },
        );
        let finished = iso.frames.last().is_some_and(|f| f == b"done");
        for f in &iso.frames {
            if f == b"done" {
                continue;
            }
            if let Ok(doc) = serde_json::from_slice::<J>(f)
                && let Some(case) = Case::from_json(&doc["case"])
            {
                let fail = fail_of(
                    &case,
                    doc["sig"].as_str().unwrap_or("mismatch").to_string(),
                    doc["what"].as_str().unwrap_or("").to_string(),
                );
                ctx.handle("find-exh", Outcome::Fail(fail));
            }
        }
        if !finished || !iso.clean() {
            // A crash or hang somewhere in the batch: locate it pair by pair.
            for hay in batch {
                for needle in &needles {
                    let case = Case::Search {
                        hay: (*hay).clone(),
                        needle: needle.clone(),
                        repl: "-".to_string(),
                    };
                    let o = check_case(&case);
                    ctx.handle("find-exh", o);
                }
            }
        }
        // counting (in the parent, so that it is independent of the child's fate)
        for hay in batch {
            let hb = hay.as_bytes();
            let mut nt = 0u64;
            for needle in &needles {
                let nb = needle.as_bytes();
                let occurs = !nb.is_empty() && naive_find(hb, nb).is_some();
                let near = nb.len() >= 2 && naive_find(hb, &nb[..nb.len().div_ceil(2)]).is_some();
                if occurs || near {
                    nt += 1;
                    let mut h = Fnv::new();
                    h.write(hb);
                    h.write(b"|");
                    h.write(nb);
                    ctx.nontrivial(h.finish());
                }
            }
            ctx.evals(needles.len() as u64);
            ctx.class_n("exhaustive pair (needle occurs or near miss)", nt);
        }
    }
    if let Some(h) = mine.last() {
        ctx.sample(
            "exhaustive pair",
            json!({"kind":"search","hay": h, "needle": "ab", "repl": "-"}),
        );
    }
}

fn prop_stage<S: Strategy<Value = Case>>(ctx: &mut ShardCtx, stage: &str, cases: u32, strat: S) {
    crate::prop::run(ctx, stage, cases, strat, |ctx, case| {
        classify(ctx, case);
        check_case(case)
    });
}

impl Check for C13 {
    fn id(&self) -> &'static str {
        "C13"
    }

    fn rule(&self) -> String {
        "Generated: (1) exhaustive (haystack, needle) pairs over {a,b,c}; (2) proptest structured \
         search cases: needles that are periodic / near-periodic / Fibonacci / Thue-Morse / random / \
         multi-byte (0..60 bytes, tiers 0,1,2,3-16,>16) in haystacks assembled from needle prefixes, \
         suffixes, overlaps, almost-complete copies, fillers and true occurrences, each through \
         find, replace, split and join against naive oracles; (3) slice with bounds around 0/len/-len, \
         fractional, huge, infinite, -0.0 and NaN against a Vec<char> model; (4) len/trim/case \
         conversion on strings over Unicode whitespace and special-casing characters; (5) to_number \
         on exact decimal spellings of generated doubles and on strings outside the number grammar. \
         Non-trivial: search case whose needle occurs or whose first half occurs (near miss); slice \
         with a negative, fractional, non-finite or out-of-range bound; text containing whitespace or \
         non-ASCII; every to_number case. Distinct by hash of the canonical case. Runs in both the \
         debug-assertion build and the optimised build."
            .into()
    }

    fn assumptions(&self) -> Vec<String> {
        vec![
            "find/replace/split are specified on bytes of valid UTF-8 (byte offsets, as the repository's own unit test t_utf8_multibyte pins)".into(),
            "empty-pattern replace inserts at every character boundary (repository unit test t9); empty-pattern split is only required to round-trip through join".into(),
            "case conversion oracle is std's str::to_uppercase/to_lowercase (Unicode default case conversion incl. Final_Sigma)".into(),
            "slice with a NaN bound is undocumented: only totality and substring-ness are asserted".into(),
            "a case that does not finish within 10 s (inputs < 1 KiB) counts as non-termination".into(),
        ]
    }

    fn plan(&self, _tier: Tier) -> Vec<ShardSpec> {
        // 12 shards with debug assertions, 4 optimised (as shipped)
        (0..16).map(|i| ShardSpec { bin: if i % 4 == 3 { Bin::Rel } else { Bin::Dbg } }).collect()
    }

    fn shard(&self, ctx: &mut ShardCtx) {
        let t = ctx.tier;
        exhaustive_stage(ctx, t.pick(8, 10));
        prop_stage(ctx, "search", t.pick(12_000, 400_000), search_strategy());
        prop_stage(ctx, "slice", t.pick(6_000, 150_000), slice_strategy());
        prop_stage(ctx, "text", t.pick(6_000, 150_000), text_string().prop_map(|s| Case::Text { s }));
        prop_stage(ctx, "to_number", t.pick(6_000, 150_000), num_strategy());
        // wiring: the same cases through a script (runtime.rs argument order, receiver, results)
        crate::prop::run(ctx, "via-script", t.pick(1_500, 30_000), search_strategy(), |ctx, case| {
            let Case::Search { hay, needle, repl } = case else { return Outcome::Pass };
            ctx.eval();
            let src = script_for_search(hay, needle, repl);
            let Some(want) = expected_script_output(hay, needle, repl) else {
                return Outcome::Discard("script-level result undocumented (empty pattern / non-ASCII find index)");
            };
            let res = crate::progs::run_impl(&src, &[crate::pipeline::Mode::FP], false);
            match &res[0] {
                crate::pipeline::ModeResult::Crash(c) => {
                    if crate::progs::is_arena_exhaustion(c) || c == "timeout" {
                        return Outcome::Discard("U8");
                    }
                    Outcome::Fail(Failure {
                        sig: format!("crash|{c}|via-script|{}", nlen_tier(needle.len())),
                        what: format!("crash {c} running\n{src}"),
                        input: json!({"case": case.to_json(), "via_script": true}),
                    })
                }
                crate::pipeline::ModeResult::Ok(o) => {
                    if !o.accepted() {
                        return Outcome::Discard("script rejected");
                    }
                    ctx.class("via script");
                    if needle.len() > 16 {
                        ctx.nontrivial(case.hash());
                    }
                    if o.output != want || o.rt_error().is_some() {
                        return Outcome::Fail(Failure {
                            sig: format!("mismatch|via-script|{}", nlen_tier(needle.len())),
                            what: format!(
                                "script prints {} (ending {:?}), naive oracles give {}\n{src}",
                                crate::progs::show_vals(&o.output),
                                o.rt_error(),
                                crate::progs::show_vals(&want)
                            ),
                            input: json!({"case": case.to_json(), "via_script": true}),
                        });
                    }
                    Outcome::Pass
                }
            }
        });
        if t == Tier::Thorough {
            let inputs = crate::driver::fuzz_inputs("strings", 40_000);
            if ctx.shard == 0 {
                ctx.note(format!("fuzz-triage: {} inputs from the libFuzzer campaign on the `strings` target", inputs.len()));
            }
            for (i, (_, data)) in inputs.iter().enumerate() {
                if (i as u32) % ctx.of != ctx.shard || data.len() > 600 {
                    continue;
                }
                // same decoding as fuzzing::strings_case
                let take = |pos: &mut usize, max: usize| -> String {
                    let n = usize::from(data.get(*pos).copied().unwrap_or(0)) % (max + 1);
                    *pos += 1;
                    let end = (*pos + n).min(data.len());
                    let s = String::from_utf8_lossy(&data[(*pos).min(data.len())..end]).into_owned();
                    *pos = end;
                    s
                };
                let mut pos = 0;
                let needle = take(&mut pos, 48);
                let repl = take(&mut pos, 6);
                let hay = String::from_utf8_lossy(&data[pos.min(data.len())..]).into_owned();
                let case = Case::Search { hay, needle, repl };
                classify(ctx, &case);
                ctx.class("libFuzzer input triaged");
                let o = check_case(&case);
                ctx.handle("fuzz-triage", o);
            }
        }
    }

    fn replay(&self, _ctx: &mut ShardCtx, _stage: &str, input: &J) -> Outcome {
        match Case::from_json(&input["case"]) {
            Some(case) => check_case(&case),
            None => Outcome::Discard("unreadable replay input"),
        }
    }
}
