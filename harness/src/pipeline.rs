//! Running source text through the library pipeline and observing it in a neutral form.
//!
//! Modes: frame arena on/off (reclamation on/off) x optimisation plan on/off.

use naijascript::arena::Arena;
use naijascript::diagnostics::{Diagnostics, Severity};
use naijascript::process::HostPolicy;
use naijascript::resolver::Resolver;
use naijascript::runtime::{Runtime, Value};
use naijascript::syntax::parser::Parser;
use naijascript::syntax::scanner::Lexer;

use crate::codec::{Dec, Enc};

pub const MEBI: usize = 1 << 20;

#[derive(Debug, Clone, Copy, PartialEq, Eq)]
pub struct Mode {
    /// separate frame arena => per-iteration / per-call resets and pool recycling active
    pub frame: bool,
    /// run with the resolver's optimisation plan
    pub plan: bool,
}

impl Mode {
    pub const FP: Mode = Mode { frame: true, plan: true };
    pub const F_: Mode = Mode { frame: true, plan: false };
    pub const _P: Mode = Mode { frame: false, plan: true };
    pub const __: Mode = Mode { frame: false, plan: false };
    pub fn name(self) -> &'static str {
        match (self.frame, self.plan) {
            (true, true) => "FP",
            (true, false) => "F-",
            (false, true) => "-P",
            (false, false) => "--",
        }
    }
    pub fn from_name(s: &str) -> Mode {
        match s {
            "F-" => Mode::F_,
            "-P" => Mode::_P,
            "--" => Mode::__,
            _ => Mode::FP,
        }
    }
}

/// Neutral value (no arena pointers).
#[derive(Debug, Clone)]
pub enum NVal {
    Num(f64),
    Str(Vec<u8>),
    Bool(bool),
    Null,
    Arr(Vec<NVal>),
    Host(String),
}

impl PartialEq for NVal {
    fn eq(&self, other: &Self) -> bool {
        match (self, other) {
            (NVal::Num(a), NVal::Num(b)) => (a.is_nan() && b.is_nan()) || a.to_bits() == b.to_bits(),
            (NVal::Str(a), NVal::Str(b)) => a == b,
            (NVal::Bool(a), NVal::Bool(b)) => a == b,
            (NVal::Null, NVal::Null) => true,
            (NVal::Arr(a), NVal::Arr(b)) => a == b,
            (NVal::Host(a), NVal::Host(b)) => a == b,
            _ => false,
        }
    }
}

impl NVal {
    pub fn from_value(v: &Value<'_>) -> NVal {
        match v {
            Value::Number(n) => NVal::Num(*n),
            Value::Str(s) => NVal::Str(s.as_bytes().to_vec()),
            Value::Bool(b) => NVal::Bool(*b),
            Value::Null => NVal::Null,
            Value::Array(items) => NVal::Arr(items.iter().map(NVal::from_value).collect()),
            Value::Host(_) => NVal::Host(format!("{v}")),
        }
    }

    pub fn s(text: &str) -> NVal {
        NVal::Str(text.as_bytes().to_vec())
    }

    /// Display form used in reports (not for comparison).
    pub fn show(&self) -> String {
        match self {
            NVal::Num(n) => format!("{n}"),
            NVal::Str(b) => format!("{:?}", String::from_utf8_lossy(b)),
            NVal::Bool(b) => format!("{b}"),
            NVal::Null => "null".into(),
            NVal::Arr(a) => {
                format!("[{}]", a.iter().map(NVal::show).collect::<Vec<_>>().join(", "))
            }
            NVal::Host(h) => format!("<{h}>"),
        }
    }

    pub fn enc(&self, e: &mut Enc) {
        match self {
            NVal::Num(n) => {
                e.u8(0);
                e.u64(n.to_bits());
            }
            NVal::Str(b) => {
                e.u8(1);
                e.bytes(b);
            }
            NVal::Bool(b) => {
                e.u8(2);
                e.u8(u8::from(*b));
            }
            NVal::Null => e.u8(3),
            NVal::Arr(a) => {
                e.u8(4);
                e.u32(a.len() as u32);
                for x in a {
                    x.enc(e);
                }
            }
            NVal::Host(h) => {
                e.u8(5);
                e.bytes(h.as_bytes());
            }
        }
    }

    pub fn dec(d: &mut Dec) -> Option<NVal> {
        Some(match d.u8()? {
            0 => NVal::Num(f64::from_bits(d.u64()?)),
            1 => NVal::Str(d.bytes()?),
            2 => NVal::Bool(d.u8()? != 0),
            3 => NVal::Null,
            4 => {
                let n = d.u32()? as usize;
                let mut v = Vec::with_capacity(n.min(1 << 16));
                for _ in 0..n {
                    v.push(NVal::dec(d)?);
                }
                NVal::Arr(v)
            }
            5 => NVal::Host(String::from_utf8_lossy(&d.bytes()?).into_owned()),
            _ => return None,
        })
    }
}

#[derive(Debug, Clone, PartialEq)]
pub struct Diag {
    /// 0 error, 1 warning, 2 note
    pub severity: u8,
    pub code: String,
    pub message: String,
    pub span: (usize, usize),
    pub labels: Vec<(String, (usize, usize))>,
}

impl Diag {
    pub fn is_error(&self) -> bool {
        self.severity == 0
    }
    fn enc(&self, e: &mut Enc) {
        e.u8(self.severity);
        e.str(&self.code);
        e.str(&self.message);
        e.u64(self.span.0 as u64);
        e.u64(self.span.1 as u64);
        e.u32(self.labels.len() as u32);
        for (m, s) in &self.labels {
            e.str(m);
            e.u64(s.0 as u64);
            e.u64(s.1 as u64);
        }
    }
    fn dec(d: &mut Dec) -> Option<Diag> {
        let severity = d.u8()?;
        let code = d.str()?;
        let message = d.str()?;
        let span = (d.u64()? as usize, d.u64()? as usize);
        let n = d.u32()? as usize;
        let mut labels = Vec::new();
        for _ in 0..n {
            let m = d.str()?;
            labels.push((m, (d.u64()? as usize, d.u64()? as usize)));
        }
        Some(Diag { severity, code, message, span, labels })
    }
    /// All text a user sees for this diagnostic (message + labels), for category matching.
    pub fn text(&self) -> String {
        let mut s = self.message.clone();
        for (m, _) in &self.labels {
            s.push_str(" / ");
            s.push_str(m);
        }
        s
    }
}

pub fn collect_diags(d: &Diagnostics<'_>) -> Vec<Diag> {
    d.diagnostics
        .iter()
        .map(|x| Diag {
            severity: match x.severity {
                Severity::Error => 0,
                Severity::Warning => 1,
                Severity::Note => 2,
            },
            code: x.code.to_string(),
            message: x.message.to_string(),
            span: (x.span.start, x.span.end),
            labels: x
                .labels
                .iter()
                .map(|l| (l.message.to_string(), (l.span.start, l.span.end)))
                .collect(),
        })
        .collect()
}

#[derive(Debug, Clone, Copy, PartialEq, Eq)]
pub enum Stage {
    /// lexer/parser produced diagnostics; nothing else ran
    ParseRejected,
    /// resolver produced error-level diagnostics; nothing ran
    ResolveRejected,
    /// program was executed
    Ran,
}

#[derive(Debug, Clone, Default, PartialEq, Eq)]
pub struct Counters {
    pub frame_resets: u64,
    pub pool_returns: u64,
    pub promotions: u64,
    pub skipped_stmts: u64,
    pub pruned_function_defs: u64,
}

/// Everything observed from one run of one program in one mode.
#[derive(Debug, Clone)]
pub struct Obs {
    pub stage: Stage,
    /// parser diagnostics (if rejected there) or resolver diagnostics (errors and warnings)
    pub front: Vec<Diag>,
    pub output: Vec<NVal>,
    /// runtime diagnostics (at most one error in practice)
    pub runtime: Vec<Diag>,
    pub counters: Counters,
    /// size of the optimisation plan the resolver produced (None = no plan)
    pub plan: Option<(u32, u32)>,
    /// statement ids executed / skipped (only when requested)
    pub executed: Vec<u32>,
    pub skipped: Vec<u32>,
    /// statement ids the analysis calls unreachable (only when requested)
    pub unreachable: Vec<u32>,
    /// executed statements + loop iterations of the run (hook counter)
    pub work_done: u64,
}

impl Obs {
    pub fn rt_error(&self) -> Option<&str> {
        self.runtime.iter().find(|d| d.is_error()).map(|d| d.message.as_str())
    }
    pub fn accepted(&self) -> bool {
        self.stage == Stage::Ran
    }
    pub fn front_errors(&self) -> Vec<&Diag> {
        self.front.iter().filter(|d| d.is_error()).collect()
    }
    pub fn warnings(&self) -> Vec<&Diag> {
        self.front.iter().filter(|d| d.severity == 1).collect()
    }

    pub fn encode(&self) -> Vec<u8> {
        let mut e = Enc::default();
        e.u8(match self.stage {
            Stage::ParseRejected => 0,
            Stage::ResolveRejected => 1,
            Stage::Ran => 2,
        });
        e.u32(self.front.len() as u32);
        for d in &self.front {
            d.enc(&mut e);
        }
        e.u32(self.output.len() as u32);
        for v in &self.output {
            v.enc(&mut e);
        }
        e.u32(self.runtime.len() as u32);
        for d in &self.runtime {
            d.enc(&mut e);
        }
        let c = &self.counters;
        for x in [c.frame_resets, c.pool_returns, c.promotions, c.skipped_stmts, c.pruned_function_defs]
        {
            e.u64(x);
        }
        match self.plan {
            None => e.u8(0),
            Some((a, b)) => {
                e.u8(1);
                e.u32(a);
                e.u32(b);
            }
        }
        for list in [&self.executed, &self.skipped, &self.unreachable] {
            e.u32(list.len() as u32);
            for x in list {
                e.u32(*x);
            }
        }
        e.u64(self.work_done);
        e.buf
    }

    pub fn decode(bytes: &[u8]) -> Option<Obs> {
        let mut d = Dec::new(bytes);
        let stage = match d.u8()? {
            0 => Stage::ParseRejected,
            1 => Stage::ResolveRejected,
            _ => Stage::Ran,
        };
        let n = d.u32()? as usize;
        let mut front = Vec::new();
        for _ in 0..n {
            front.push(Diag::dec(&mut d)?);
        }
        let n = d.u32()? as usize;
        let mut output = Vec::new();
        for _ in 0..n {
            output.push(NVal::dec(&mut d)?);
        }
        let n = d.u32()? as usize;
        let mut runtime = Vec::new();
        for _ in 0..n {
            runtime.push(Diag::dec(&mut d)?);
        }
        let counters = Counters {
            frame_resets: d.u64()?,
            pool_returns: d.u64()?,
            promotions: d.u64()?,
            skipped_stmts: d.u64()?,
            pruned_function_defs: d.u64()?,
        };
        let plan = if d.u8()? == 1 { Some((d.u32()?, d.u32()?)) } else { None };
        let mut lists: [Vec<u32>; 3] = [Vec::new(), Vec::new(), Vec::new()];
        for list in &mut lists {
            let n = d.u32()? as usize;
            for _ in 0..n {
                list.push(d.u32()?);
            }
        }
        let [executed, skipped, unreachable] = lists;
        let work_done = d.u64()?;
        Some(Obs { stage, front, output, runtime, counters, plan, executed, skipped, unreachable, work_done })
    }
}

#[derive(Debug, Clone, Copy)]
pub struct RunOpts {
    pub mode: Mode,
    pub log_stmts: bool,
    pub persistent_cap: usize,
    pub frame_cap: usize,
    pub policy: HostPolicy,
    /// stop the run with a recognisable panic after this many executed statements + loop iterations
    pub work_budget: Option<u64>,
    /// (index of an earlier mode of the same `run_modes` call, factor, slack): tightens the budget
    /// to factor x that mode's measured work + slack
    pub work_relative: Option<(usize, u64, u64)>,
}

impl RunOpts {
    pub fn new(mode: Mode) -> Self {
        Self {
            mode,
            log_stmts: false,
            persistent_cap: 256 * MEBI,
            frame_cap: 256 * MEBI,
            policy: HostPolicy { allow_process: false, ..HostPolicy::default() },
            work_budget: None,
            work_relative: None,
        }
    }
}

/// Lex + parse + resolve + run `src` with fresh, separate arenas (the library pipeline,
/// as tests/common.rs does). Must be called inside an isolated child.
pub fn run_source(src: &str, opts: RunOpts) -> Obs {
    let arena = Arena::new(opts.persistent_cap).expect("reserve persistent arena");
    let frame = Arena::new(opts.frame_cap).expect("reserve frame arena");
    let mut obs = Obs {
        stage: Stage::Ran,
        front: Vec::new(),
        output: Vec::new(),
        runtime: Vec::new(),
        counters: Counters::default(),
        plan: None,
        executed: Vec::new(),
        skipped: Vec::new(),
        unreachable: Vec::new(),
        work_done: 0,
    };

    let lexer = Lexer::new(src, &arena);
    let mut parser = Parser::new(lexer, &arena);
    let (root, parse_errors) = parser.parse_program();
    if !parse_errors.diagnostics.is_empty() {
        obs.stage = Stage::ParseRejected;
        obs.front = collect_diags(parse_errors);
        return obs;
    }

    let mut resolver = Resolver::new(&arena);
    resolver.resolve(root);
    obs.front = collect_diags(&resolver.errors);
    if resolver.errors.has_errors() {
        obs.stage = Stage::ResolveRejected;
        return obs;
    }
    obs.plan = resolver.optimization_plan.as_ref().map(|p| {
        (p.removable_stmts.len() as u32, p.removable_function_defs.len() as u32)
    });
    if opts.log_stmts {
        use naijascript::analysis::{cfg, reachability};
        // Recompute reachability through the public analysis API, only when the resolver
        // itself ran the analyses (plan present => limits were not exceeded).
        if resolver.optimization_plan.is_some() {
            let program = cfg::build_program(&resolver.facts, &arena);
            let mask = reachability::reachable_statement_mask(&program, &arena);
            obs.unreachable = mask
                .iter()
                .enumerate()
                .filter(|(_, r)| !**r)
                .map(|(i, _)| i as u32)
                .collect();
        }
    }

    let policy = opts.policy;
    let mut runtime = Runtime::new_with_host_policy(
        &arena,
        if opts.mode.frame { Some(&frame) } else { None },
        policy,
    );
    naijascript::verif::reset(opts.log_stmts);
    if let Some(b) = opts.work_budget {
        naijascript::verif::set_work_budget(b);
    }
    let plan = if opts.mode.plan { resolver.optimization_plan.as_ref() } else { None };
    runtime.run_with_analysis(root, &resolver.facts, plan);
    let c = naijascript::verif::counters();
    obs.counters = Counters {
        frame_resets: c.frame_resets,
        pool_returns: c.pool_returns,
        promotions: c.promotions,
        skipped_stmts: c.skipped_stmts,
        pruned_function_defs: c.pruned_function_defs,
    };
    if opts.log_stmts {
        obs.executed = naijascript::verif::executed_stmts();
        obs.skipped = naijascript::verif::skipped_stmt_ids();
    }
    obs.output = runtime.output.iter().map(NVal::from_value).collect();
    obs.runtime = collect_diags(&runtime.errors);
    obs.work_done = naijascript::verif::work_done();
    obs
}

/// Like [`run_source`] for several modes, but lexing, parsing and resolving happen once and
/// every mode runs on the same AST, facts and plan (used for very large programs, where the
/// front end dominates). Must be called inside an isolated child.
pub fn run_source_shared(src: &str, modes: &[RunOpts]) -> Vec<Obs> {
    run_source_shared_measured(src, modes, false).0
}

/// The eleven limited quantities of an accepted program, measured through the public counting
/// API (`facts` vector lengths, `cfg::count_program`) and combined as `limits.rs` documents for
/// the two derived event bounds. Order: functions, locals, scopes, statements, cfg ops, max ops
/// in one function, cfg blocks, max blocks in one function, direct user calls, summary events,
/// liveness events.
pub type Measures = [u64; 11];

fn measure(facts: &naijascript::analysis::facts::ProgramFacts<'_, '_>, arena: &Arena) -> Measures {
    use naijascript::analysis::{cfg, ids::FunctionId};
    let counts = cfg::count_program(facts, arena);
    let functions = facts.functions.len() as u64;
    let locals = facts.locals.len() as u64;
    let max_ops = counts.function_ops.iter().copied().map(u64::from).max().unwrap_or(0);
    let max_blocks = counts.function_blocks.iter().copied().map(u64::from).max().unwrap_or(0);
    let summary = functions.saturating_mul(functions.saturating_add(locals.saturating_mul(2) + 2));
    let mut liveness = 0u64;
    for (i, (b, o)) in counts.function_blocks.iter().zip(counts.function_ops.iter()).enumerate() {
        let r = facts.local_range(FunctionId(i as u32));
        let per = u64::from(*b).saturating_mul(2).saturating_add(u64::from(*o));
        liveness = liveness.saturating_add(per.saturating_mul(u64::from(r.end - r.start)));
    }
    [
        functions,
        locals,
        facts.scopes.len() as u64,
        facts.stmt_effects.len() as u64,
        u64::from(counts.total_ops),
        max_ops,
        u64::from(counts.total_blocks),
        max_blocks,
        facts.user_calls.len() as u64,
        summary,
        liveness,
    ]
}

/// [`run_source_shared`] plus, when asked and the program is accepted, its [`Measures`].
pub fn run_source_shared_measured(src: &str, modes: &[RunOpts], want_measures: bool) -> (Vec<Obs>, Option<Measures>) {
    let first = modes[0];
    let arena = Arena::new(first.persistent_cap).expect("reserve persistent arena");
    let empty = || Obs {
        stage: Stage::Ran,
        front: Vec::new(),
        output: Vec::new(),
        runtime: Vec::new(),
        counters: Counters::default(),
        plan: None,
        executed: Vec::new(),
        skipped: Vec::new(),
        unreachable: Vec::new(),
        work_done: 0,
    };
    let lexer = Lexer::new(src, &arena);
    let mut parser = Parser::new(lexer, &arena);
    let (root, parse_errors) = parser.parse_program();
    if !parse_errors.diagnostics.is_empty() {
        let mut o = empty();
        o.stage = Stage::ParseRejected;
        o.front = collect_diags(parse_errors);
        return (modes.iter().map(|_| o.clone()).collect(), None);
    }
    let mut resolver = Resolver::new(&arena);
    resolver.resolve(root);
    let mut base = empty();
    base.front = collect_diags(&resolver.errors);
    if resolver.errors.has_errors() {
        base.stage = Stage::ResolveRejected;
        return (modes.iter().map(|_| base.clone()).collect(), None);
    }
    base.plan = resolver
        .optimization_plan
        .as_ref()
        .map(|p| (p.removable_stmts.len() as u32, p.removable_function_defs.len() as u32));
    let mut out = Vec::new();
    for opts in modes {
        let frame = Arena::new(opts.frame_cap).expect("reserve frame arena");
        let mut obs = base.clone();
        let mut runtime =
            Runtime::new_with_host_policy(&arena, if opts.mode.frame { Some(&frame) } else { None }, opts.policy);
        naijascript::verif::reset(false);
        if let Some(b) = opts.work_budget {
            naijascript::verif::set_work_budget(b);
        }
        let plan = if opts.mode.plan { resolver.optimization_plan.as_ref() } else { None };
        runtime.run_with_analysis(root, &resolver.facts, plan);
        let c = naijascript::verif::counters();
        obs.counters = Counters {
            frame_resets: c.frame_resets,
            pool_returns: c.pool_returns,
            promotions: c.promotions,
            skipped_stmts: c.skipped_stmts,
            pruned_function_defs: c.pruned_function_defs,
        };
        obs.output = runtime.output.iter().map(NVal::from_value).collect();
        obs.runtime = collect_diags(&runtime.errors);
        obs.work_done = naijascript::verif::work_done();
        out.push(obs);
    }
    // after the runs: a run-time divergence is reported as such
    let measures = want_measures.then(|| measure(&resolver.facts, &arena));
    (out, measures)
}

/// Result of running one program in one mode inside an isolated child.
#[derive(Debug, Clone)]
pub enum ModeResult {
    Ok(Obs),
    /// panic / abort / signal / timeout, with the normalised description
    Crash(String),
}

impl ModeResult {
    pub fn obs(&self) -> Option<&Obs> {
        match self {
            ModeResult::Ok(o) => Some(o),
            ModeResult::Crash(_) => None,
        }
    }
    pub fn crash(&self) -> Option<&str> {
        match self {
            ModeResult::Crash(c) => Some(c),
            ModeResult::Ok(_) => None,
        }
    }
}

/// Runs `src` in each of `modes`, each isolated from the driver. Fast path: one child runs
/// all modes in sequence and streams each result; if it dies, the mode that was running is
/// recorded as crashed and the remaining modes are re-run in a fresh child.
pub fn run_modes(
    src: &str,
    modes: &[RunOpts],
    timeout: std::time::Duration,
) -> Vec<ModeResult> {
    let mut results: Vec<ModeResult> = Vec::with_capacity(modes.len());
    let mut next = 0usize;
    while next < modes.len() {
        let todo = &modes[next..];
        // work measured so far, by mode index (crashed modes: unknown)
        let mut done: Vec<Option<u64>> = results.iter().map(|r| r.obs().map(|o| o.work_done)).collect();
        let iso = crate::isolate::run(
            crate::isolate::Opts { timeout, keep_stdio: false },
            |out| {
                for m in todo {
                    let mut m = *m;
                    if let Some((base, factor, slack)) = m.work_relative
                        && let Some(Some(w)) = done.get(base)
                    {
                        let rel = w.saturating_mul(factor).saturating_add(slack);
                        m.work_budget = Some(m.work_budget.map_or(rel, |b| b.min(rel)));
                    }
                    let obs = run_source(src, m);
                    done.push(Some(obs.work_done));
                    out.frame(&obs.encode());
                }
            },
        );
        for f in &iso.frames {
            match Obs::decode(f) {
                Some(o) => results.push(ModeResult::Ok(o)),
                None => results.push(ModeResult::Crash("undecodable result frame".into())),
            }
            next += 1;
        }
        if next < modes.len() {
            if iso.clean() {
                // Should not happen: child exited cleanly without all frames.
                results.push(ModeResult::Crash("missing result frame".into()));
            } else {
                results.push(ModeResult::Crash(iso.crash_kind().unwrap_or_else(|| "unknown".into())));
            }
            next += 1;
        }
    }
    results
}
