//! C17 - read_line delivers successive input lines, whatever the chunking.
//!
//! Subject: the shipped `naija` binary (dev and release builds) running an echo script
//! (passed as FILE, so stdin is free for data) that calls `read_line("")` a fixed number of
//! times and prints every result wrapped in brackets plus its `len()`.
//! Oracle: a pure function of the input text - call k returns the k-th `\n`-separated
//! piece, then empty strings - independent of how the text is delivered (regular file, one
//! write into a pipe, many writes at generated split points with pauses).

use std::ffi::OsString;
use std::time::Duration;

use proptest::prelude::*;
use proptest::sample::Index;
use serde_json::{Value as J, json};

use crate::ctx::{Failure, Outcome, ShardCtx, Tier};
use crate::driver::{Bin, Check, ShardSpec};
use crate::proc::{self, Build, Chunk, End, StdinPlan, TempDir};
use crate::util::hash_str;

pub struct C17;

/// The implementation's initial buffer; a line of at least this many bytes does not fit
/// into it together with its terminator.
const BUF: usize = 8192;
const EXTRA_CALLS: usize = 3;
const TIMEOUT_S: u64 = 30;

// ------------------------------------------------------------------- case --

#[derive(Debug, Clone, PartialEq, Eq)]
pub struct LineSpec {
    /// exact length in bytes
    pub len: usize,
    /// characters repeated cyclically (padded with 'x' where the next one does not fit)
    pub pat: Vec<char>,
}

impl LineSpec {
    fn render(&self, out: &mut String) {
        let start = out.len();
        let mut i = 0;
        while out.len() - start < self.len {
            let room = self.len - (out.len() - start);
            let ch = if self.pat.is_empty() { 'x' } else { self.pat[i % self.pat.len()] };
            i += 1;
            if ch.len_utf8() <= room && ch != '\n' && ch != '\r' {
                out.push(ch);
            } else {
                out.push('x');
            }
        }
    }
}

#[derive(Debug, Clone, PartialEq, Eq)]
pub enum Delivery {
    /// stdin is a regular file holding the text
    File,
    /// stdin is a pipe; the text is written with one `write`, then the pipe is closed
    PipeOnce,
    /// stdin is a pipe; the text is written in pieces cut at these byte offsets, with
    /// `pauses[i % n]` milliseconds after piece i; closed after the last piece
    PipeSplit { cuts: Vec<usize>, pauses: Vec<u8>, bytewise: bool },
}

impl Delivery {
    fn kind(&self) -> &'static str {
        match self {
            Delivery::File => "file",
            Delivery::PipeOnce => "pipe-once",
            Delivery::PipeSplit { bytewise: true, .. } => "pipe-bytewise",
            Delivery::PipeSplit { .. } => "pipe-split",
        }
    }
}

#[derive(Debug, Clone, PartialEq, Eq)]
pub struct Case {
    pub lines: Vec<LineSpec>,
    pub final_newline: bool,
    pub delivery: Delivery,
    /// the script reads in a `jasi` loop instead of a straight-line sequence
    pub looped: bool,
    /// every second call stores its line in a variable that is never used (and prints nothing):
    /// the line must be consumed all the same
    pub discard: bool,
    pub build: Build,
}

impl Case {
    pub fn text(&self) -> String {
        let mut t = String::new();
        for (i, l) in self.lines.iter().enumerate() {
            l.render(&mut t);
            if i + 1 < self.lines.len() || self.final_newline {
                t.push('\n');
            }
        }
        t
    }

    /// Write plan: byte ranges of the text, one per `write`.
    fn pieces(&self, len: usize) -> Vec<(usize, usize)> {
        match &self.delivery {
            Delivery::File | Delivery::PipeOnce => vec![(0, len)],
            Delivery::PipeSplit { cuts, .. } => {
                let mut v = Vec::new();
                let mut prev = 0;
                for &c in cuts {
                    if c > prev && c < len {
                        v.push((prev, c));
                        prev = c;
                    }
                }
                v.push((prev, len));
                v
            }
        }
    }

    pub fn to_json(&self) -> J {
        let delivery = match &self.delivery {
            Delivery::File => json!({"kind": "file"}),
            Delivery::PipeOnce => json!({"kind": "pipe-once"}),
            Delivery::PipeSplit { cuts, pauses, bytewise } => json!({
                "kind": if *bytewise { "pipe-bytewise" } else { "pipe-split" },
                "cuts": cuts, "pauses_ms": pauses}),
        };
        json!({
            "lines": self.lines.iter().map(|l| json!({
                "len": l.len, "pat": l.pat.iter().collect::<String>()})).collect::<Vec<_>>(),
            "final_newline": self.final_newline,
            "delivery": delivery,
            "looped": self.looped,
            "discard": self.discard,
            "build": self.build.name(),
        })
    }

    pub fn from_json(j: &J) -> Option<Case> {
        let mut lines = Vec::new();
        for l in j.get("lines")?.as_array()? {
            lines.push(LineSpec {
                len: l.get("len")?.as_u64()? as usize,
                pat: l.get("pat")?.as_str()?.chars().collect(),
            });
        }
        let d = j.get("delivery")?;
        let delivery = match d.get("kind")?.as_str()? {
            "file" => Delivery::File,
            "pipe-once" => Delivery::PipeOnce,
            k @ ("pipe-split" | "pipe-bytewise") => Delivery::PipeSplit {
                cuts: d.get("cuts")?.as_array()?.iter().filter_map(J::as_u64).map(|v| v as usize).collect(),
                pauses: d.get("pauses_ms")?.as_array()?.iter().filter_map(J::as_u64).map(|v| v as u8).collect(),
                bytewise: k == "pipe-bytewise",
            },
            _ => return None,
        };
        Some(Case {
            lines,
            final_newline: j.get("final_newline")?.as_bool()?,
            delivery,
            looped: j.get("looped")?.as_bool()?,
            discard: j.get("discard").and_then(J::as_bool).unwrap_or(false),
            build: Build::parse(j.get("build")?.as_str()?)?,
        })
    }

    fn hash(&self) -> u64 {
        hash_str(&self.to_json().to_string())
    }
}

// ----------------------------------------------------------------- oracle --

/// What call k (0-based) must return: the k-th `\n`-separated piece of the text, then "".
/// (If the text ends with a newline the piece after it is empty, which coincides with the
/// end-of-input answer.)
pub fn expected_lines(text: &str, calls: usize) -> Vec<&str> {
    let mut v: Vec<&str> = text.split('\n').collect();
    v.resize(calls, "");
    v
}

fn call_count(text: &str) -> usize {
    text.split('\n').count() + EXTRA_CALLS
}

fn script(calls: usize, looped: bool, discard: bool) -> String {
    let mut s = String::new();
    if discard {
        for k in 0..calls {
            if k % 2 == 1 {
                s.push_str(&format!("make skipped{k} get read_line(\"\")\n"));
                continue;
            }
            s.push_str(if k == 0 { "make l get read_line(\"\")\n" } else { "l get read_line(\"\")\n" });
            s.push_str("shout(\"[\" add l add \"]\")\n");
            s.push_str("shout(l.len())\n");
        }
    } else if looped {
        s.push_str("make i get 0\n");
        s.push_str(&format!("jasi (i small pass {calls}) start\n"));
        s.push_str("    make l get read_line(\"\")\n");
        s.push_str("    shout(\"[\" add l add \"]\")\n");
        s.push_str("    shout(l.len())\n");
        s.push_str("    i get i add 1\n");
        s.push_str("end\n");
    } else {
        for k in 0..calls {
            s.push_str(if k == 0 { "make l get read_line(\"\")\n" } else { "l get read_line(\"\")\n" });
            s.push_str("shout(\"[\" add l add \"]\")\n");
            s.push_str("shout(l.len())\n");
        }
    }
    s
}

fn record(line: &str) -> String {
    format!("[{line}]\n{}\n", line.chars().count())
}

/// Parses one printed record at `pos`: `[content]\n<digits>\n` (content may itself contain
/// `]` or newlines when the implementation misbehaves; the first `]\n<digits>\n` whose number
/// equals the character count of the content wins, else the first one at all).
fn parse_record(actual: &[u8], pos: usize) -> Option<&[u8]> {
    let rest = actual.get(pos..)?;
    if rest.first() != Some(&b'[') {
        return None;
    }
    let mut fallback = None;
    let mut from = 1;
    while from + 1 < rest.len() {
        let Some(i) = rest[from..].windows(2).position(|w| w == b"]\n") else { break };
        let close = from + i;
        let after = &rest[close + 2..];
        let digits = after.iter().take_while(|b| b.is_ascii_digit()).count();
        if digits > 0 && after.get(digits) == Some(&b'\n') {
            let content = &rest[1..close];
            let n: usize = std::str::from_utf8(&after[..digits]).ok()?.parse().ok()?;
            if String::from_utf8_lossy(content).chars().count() == n {
                return Some(content);
            }
            fallback.get_or_insert(content);
        }
        from = close + 1;
    }
    fallback
}

fn is_long(line: &str) -> bool {
    line.len() >= BUF
}

fn find_bytes(hay: &[u8], needle: &[u8]) -> bool {
    needle.is_empty() || hay.windows(needle.len()).any(|w| w == needle)
}

/// Semantic class of a wrong answer at call `k` (`got` = what was printed, if it could be
/// located in the output).
fn mismatch_class(text: &str, want: &[&str], k: usize, got: Option<&[u8]>) -> &'static str {
    let e = want[k];
    if let Some(g) = got
        && g.strip_suffix(b"\n") == Some(e.as_bytes())
    {
        return "terminator-kept";
    }
    if want[..=k].iter().any(|l| is_long(l)) {
        return "line>8KiB";
    }
    if k >= 1 {
        // Data was skipped: the answer is empty, or it is found later in the input than
        // where the expected line starts.
        let start: usize = want[..k].iter().map(|l| l.len() + 1).sum::<usize>();
        let later = text.as_bytes().get(start + 1..).unwrap_or(&[]);
        match got {
            Some(g) if g.is_empty() || find_bytes(later, g) => {
                return "lines-lost-after-first-newline-in-chunk";
            }
            _ => {}
        }
    }
    "other"
}

fn fail(case: &Case, sig: String, what: String) -> Outcome {
    Outcome::Fail(Failure { sig, what, input: json!({"case": case.to_json()}) })
}

/// Runs one case against the binary and applies the oracle.
pub fn check_case(case: &Case) -> Outcome {
    if !proc::naija_path(case.build).is_file() {
        return Outcome::Discard("naija binary missing");
    }
    let text = case.text();
    let all_calls = call_count(&text);
    let want_all = expected_lines(&text, all_calls);
    // with `discard` only the even-numbered calls print their line
    let want: Vec<&str> = if case.discard { want_all.iter().copied().step_by(2).collect() } else { want_all };
    let calls = want.len();
    let Ok(dir) = TempDir::new("c17") else {
        return Outcome::Discard("cannot create temp dir");
    };
    let script_path = dir.file("echo.ns");
    if std::fs::write(&script_path, script(all_calls, case.looped, case.discard)).is_err() {
        return Outcome::Discard("cannot write script");
    }
    let bytes = text.as_bytes();
    let stdin = match &case.delivery {
        Delivery::File => {
            let p = dir.file("input.txt");
            if std::fs::write(&p, bytes).is_err() {
                return Outcome::Discard("cannot write input file");
            }
            StdinPlan::File(p)
        }
        Delivery::PipeOnce => StdinPlan::Pipe(vec![Chunk { bytes: bytes.to_vec(), pause_ms: 0 }]),
        Delivery::PipeSplit { pauses, .. } => StdinPlan::Pipe(
            case.pieces(bytes.len())
                .into_iter()
                .enumerate()
                .map(|(i, (a, b))| Chunk {
                    bytes: bytes[a..b].to_vec(),
                    pause_ms: if pauses.is_empty() { 0 } else { u64::from(pauses[i % pauses.len()]) },
                })
                .collect(),
        ),
    };
    let exe = proc::naija_path(case.build);
    let mut run = proc::Run::new(&exe);
    run.args = vec![OsString::from(&script_path)];
    run.stdin = stdin;
    run.timeout = Duration::from_secs(TIMEOUT_S);
    let out = match proc::run(&run) {
        Ok(o) => o,
        Err(_) => return Outcome::Discard("cannot start naija"),
    };
    drop(dir);

    let build = case.build.name();
    let how = format!("{} delivery, {build} build", case.delivery.kind());
    let describe_input = || {
        format!(
            "input = {} line(s) of {:?} bytes, {}final newline",
            case.lines.len(),
            case.lines.iter().map(|l| l.len).collect::<Vec<_>>(),
            if case.final_newline { "" } else { "no " }
        )
    };
    if out.end == End::Timeout {
        return Outcome::Discard("watchdog timeout");
    }

    // How far did it get? (leading records that match the expectation, byte for byte)
    let mut actual: &[u8] = &out.stdout;
    if case.discard && calls > 0 {
        // the never-used variables earn "Unused variable" warnings, printed before the program
        // runs: the records start where the first expected record (or, failing that, the first
        // line that opens a record) begins
        let first = record(want[0]);
        let at = actual
            .windows(first.len().max(1))
            .position(|w| w == first.as_bytes())
            .or_else(|| actual.windows(2).position(|w| w == b"\n[").map(|i| i + 1));
        if let Some(i) = at {
            actual = &actual[i..];
        }
    }
    let mut pos = 0;
    let mut k = 0;
    while k < calls {
        let rec = record(want[k]);
        if actual[pos..].starts_with(rec.as_bytes()) {
            pos += rec.len();
            k += 1;
        } else {
            break;
        }
    }
    let any_long = want.iter().any(|l| is_long(l));
    let crash_class = if any_long { "line>8KiB" } else { "other" };

    if let End::Signaled(_) = out.end {
        let sig = out.signal_name().unwrap_or_default();
        return fail(
            case,
            format!("crash|{sig}|{crash_class}|{build}"),
            format!(
                "naija was killed by {sig} after {k} correct answer(s) of {calls} ({how}); {}; stderr: {}",
                describe_input(),
                proc::excerpt(&out.stderr, 300)
            ),
        );
    }
    if out.end == End::Exited(1)
        && k < calls
        && let Some(title) = proc::first_error_title(&actual[pos..])
    {
        return fail(
            case,
            format!("runtime-error|{title}|{crash_class}"),
            format!(
                "naija reported `{title}` and exited with status 1 after {k} correct answer(s) of {calls} ({how}); {}",
                describe_input()
            ),
        );
    }
    if k < calls {
        let got = parse_record(actual, pos);
        let class = mismatch_class(&text, &want, k, got);
        let got_txt = match got {
            Some(g) => format!("{} bytes {:?}", g.len(), proc::excerpt(g, 80)),
            None => format!("unparseable output {:?}", proc::excerpt(&actual[pos..], 120)),
        };
        let kind = if std::str::from_utf8(actual).is_err() { "invalid-utf8" } else { "mismatch" };
        return fail(
            case,
            format!("{kind}|{class}"),
            format!(
                "read_line call {k} of {calls} ({how}) returned {got_txt}, expected {} bytes {:?}; {}; {}{}",
                want[k].len(),
                proc::excerpt(want[k].as_bytes(), 80),
                describe_input(),
                out.end_text(),
                if kind == "invalid-utf8" { "; stdout is not valid UTF-8" } else { "" }
            ),
        );
    }
    if pos != actual.len() {
        return fail(
            case,
            "mismatch|extra-output".into(),
            format!(
                "all {calls} calls answered correctly but stdout continues with {:?} ({how})",
                proc::excerpt(&actual[pos..], 200)
            ),
        );
    }
    if out.end != End::Exited(0) {
        return fail(
            case,
            format!("exit-status|{crash_class}"),
            format!(
                "all {calls} answers correct but {} ({how}); stderr: {}",
                out.end_text(),
                proc::excerpt(&out.stderr, 200)
            ),
        );
    }
    Outcome::Pass
}

// ---------------------------------------------------------- classification --

fn classify(ctx: &mut ShardCtx, case: &Case) {
    ctx.eval();
    let text = case.text();
    let bytes = text.as_bytes();
    let pieces = case.pieces(bytes.len());
    // >= 2 lines delivered in one chunk: a newline that is not the last byte of its chunk
    let two_in_one = pieces.iter().any(|&(a, b)| bytes[a..b].iter().rev().skip(1).any(|&c| c == b'\n'));
    // a line split across chunks: a cut that is not right after a newline
    let split_line = pieces.iter().skip(1).any(|&(a, _)| a > 0 && bytes[a - 1] != b'\n');
    let long = text.split('\n').any(is_long);
    let split_char = pieces.iter().skip(1).any(|&(a, _)| !text.is_char_boundary(a));
    ctx.class(&format!("delivery {}", case.delivery.kind()));
    ctx.class(&format!("build {}", case.build.name()));
    if two_in_one {
        ctx.class(">=2 lines in one chunk");
    }
    if split_line {
        ctx.class("line split across chunks");
    }
    if split_char {
        ctx.class("cut inside a multi-byte character");
    }
    if long {
        ctx.class("line >= 8 KiB");
    }
    if !text.is_ascii() {
        ctx.class("multi-byte text");
    }
    if !text.is_empty() && !text.ends_with('\n') {
        ctx.class("no final newline");
    }
    if text.contains("\n\n") || text.starts_with('\n') {
        ctx.class("empty line(s)");
    }
    if text.is_empty() {
        ctx.class("empty input");
    }
    if two_in_one || split_line || long {
        ctx.nontrivial(case.hash());
        ctx.sample(case.delivery.kind(), case.to_json());
    }
}

// ------------------------------------------------------------- generators --

#[derive(Debug, Clone, Copy, PartialEq, Eq)]
enum Lengths {
    /// every line fits the initial buffer with its terminator (< 8192 bytes)
    Short,
    /// anything from the design's length set
    Any,
}

fn len_strategy(which: Lengths) -> BoxedStrategy<usize> {
    match which {
        Lengths::Short => prop_oneof![
            4 => Just(0usize),
            3 => Just(1usize),
            2 => Just(100usize),
            4 => 0usize..40,
            2 => 0usize..600,
            1 => Just(BUF - 1),
            1 => 4000usize..BUF,
        ]
        .boxed(),
        Lengths::Any => prop_oneof![
            4 => Just(0usize),
            3 => Just(1usize),
            2 => Just(100usize),
            4 => 0usize..40,
            2 => 0usize..600,
            2 => Just(BUF - 1),
            2 => Just(BUF),
            2 => Just(BUF + 1),
            1 => Just(2 * BUF),
            1 => Just(20_000usize),
            1 => Just(70_000usize),
            1 => (BUF - 20)..(BUF + 20),
            1 => BUF..40_000usize,
        ]
        .boxed(),
    }
}

fn long_len_strategy() -> BoxedStrategy<usize> {
    prop_oneof![
        3 => Just(BUF),
        3 => Just(BUF + 1),
        2 => Just(2 * BUF),
        2 => Just(20_000usize),
        1 => Just(70_000usize),
        2 => BUF..(BUF + 200),
        1 => BUF..80_000usize,
    ]
    .boxed()
}

fn pat_strategy() -> impl Strategy<Value = Vec<char>> {
    let ascii = prop::sample::select(vec![
        'a', 'b', 'z', 'Q', '0', '7', ' ', '\t', '.', ',', '[', ']', '{', '}', '"', '\\', '#', '\'',
    ]);
    let mixed = prop::sample::select(vec!['a', ' ', 'é', 'ñ', 'ß', '世', '界', '€', '🌎', '𝄞', '\u{a0}', '\u{2028}']);
    prop_oneof![
        3 => prop::collection::vec(ascii, 1..5),
        2 => prop::collection::vec(mixed, 1..6),
    ]
}

fn line_strategy(len: BoxedStrategy<usize>) -> impl Strategy<Value = LineSpec> {
    (len, pat_strategy()).prop_map(|(len, pat)| LineSpec { len, pat })
}

#[derive(Debug, Clone)]
enum CutSpec {
    Uniform(Index),
    /// relative to a newline: 0 = right before it, 1 = right after it
    Newline(Index, i8),
    /// inside a multi-byte character
    InsideChar(Index),
    /// around a multiple of the implementation's buffer size
    Block(Index, i8),
}

#[derive(Debug, Clone)]
enum DeliverySpec {
    File,
    PipeOnce,
    PipeSplit(Vec<CutSpec>, Vec<u8>),
    /// one byte per write (for the first 48 bytes of long texts)
    Bytewise(u8),
}

fn delivery_strategy() -> impl Strategy<Value = DeliverySpec> {
    let cut = prop_oneof![
        3 => any::<Index>().prop_map(CutSpec::Uniform),
        4 => (any::<Index>(), prop::sample::select(vec![0i8, 1, 1, -1, 2])).prop_map(|(i, d)| CutSpec::Newline(i, d)),
        2 => any::<Index>().prop_map(CutSpec::InsideChar),
        2 => (any::<Index>(), -1i8..=1).prop_map(|(i, d)| CutSpec::Block(i, d)),
    ];
    prop_oneof![
        2 => Just(DeliverySpec::File),
        2 => Just(DeliverySpec::PipeOnce),
        6 => (prop::collection::vec(cut, 1..12), prop::collection::vec(0u8..=15, 1..5))
            .prop_map(|(c, p)| DeliverySpec::PipeSplit(c, p)),
        1 => (0u8..=2).prop_map(DeliverySpec::Bytewise),
    ]
}

fn resolve_delivery(spec: DeliverySpec, text: &str) -> Delivery {
    let bytes = text.as_bytes();
    let len = bytes.len();
    match spec {
        DeliverySpec::File => Delivery::File,
        DeliverySpec::PipeOnce => Delivery::PipeOnce,
        DeliverySpec::Bytewise(p) => Delivery::PipeSplit {
            cuts: (1..len.min(49)).collect(),
            pauses: vec![p],
            bytewise: true,
        },
        DeliverySpec::PipeSplit(specs, pauses) => {
            let newlines: Vec<usize> =
                bytes.iter().enumerate().filter(|&(_, &b)| b == b'\n').map(|(i, _)| i).take(4096).collect();
            let inside: Vec<usize> = (1..len).filter(|&i| !text.is_char_boundary(i)).take(4096).collect();
            let blocks = len / BUF;
            let mut cuts: Vec<usize> = Vec::new();
            for c in specs {
                let at: Option<i64> = match c {
                    CutSpec::Uniform(ix) => (len >= 2).then(|| 1 + ix.index(len - 1) as i64),
                    CutSpec::Newline(ix, d) => {
                        (!newlines.is_empty()).then(|| newlines[ix.index(newlines.len())] as i64 + i64::from(d))
                    }
                    CutSpec::InsideChar(ix) => (!inside.is_empty()).then(|| inside[ix.index(inside.len())] as i64),
                    CutSpec::Block(ix, d) => {
                        (blocks >= 1).then(|| ((1 + ix.index(blocks)) * BUF) as i64 + i64::from(d))
                    }
                };
                if let Some(a) = at
                    && a > 0
                    && (a as usize) < len
                {
                    cuts.push(a as usize);
                }
            }
            cuts.sort_unstable();
            cuts.dedup();
            Delivery::PipeSplit { cuts, pauses, bytewise: false }
        }
    }
}

#[derive(Debug, Clone, Copy, PartialEq, Eq)]
enum Stage {
    Short,
    LongFirst,
    Mixed,
}

fn lines_strategy(stage: Stage) -> BoxedStrategy<Vec<LineSpec>> {
    match stage {
        Stage::Short => {
            let line = || line_strategy(len_strategy(Lengths::Short));
            prop_oneof![
                4 => prop::collection::vec(line(), 0..=12),
                // a run of empty lines between other lines
                1 => (prop::collection::vec(line(), 0..5), 2usize..6, prop::collection::vec(line(), 0..5)).prop_map(
                    |(mut a, n, b)| {
                        a.extend((0..n).map(|_| LineSpec { len: 0, pat: vec!['x'] }));
                        a.extend(b);
                        a
                    }
                ),
            ]
            .boxed()
        }
        Stage::LongFirst => (
            line_strategy(long_len_strategy()),
            prop::collection::vec(line_strategy(len_strategy(Lengths::Any)), 0..4),
        )
            .prop_map(|(first, rest)| {
                let mut v = vec![first];
                v.extend(rest);
                v
            })
            .boxed(),
        Stage::Mixed => prop::collection::vec(line_strategy(len_strategy(Lengths::Any)), 0..=12).boxed(),
    }
}

fn case_strategy(stage: Stage, build: Build) -> impl Strategy<Value = Case> {
    (lines_strategy(stage), prop::bool::weighted(0.65), delivery_strategy(), any::<bool>(), prop::bool::weighted(0.2)).prop_map(
        move |(lines, final_newline, dspec, looped, discard)| {
            let mut case = Case { lines, final_newline, delivery: Delivery::File, looped, discard, build };
            let text = case.text();
            case.delivery = resolve_delivery(dspec, &text);
            case
        },
    )
}

fn run_stage(ctx: &mut ShardCtx, name: &str, cases: u32, stage: Stage, build: Build) {
    crate::prop::run(ctx, name, cases, case_strategy(stage, build), |ctx, case| {
        classify(ctx, case);
        let o = check_case(case);
        // Nothing in this domain is unspecified: a discard is always infrastructure trouble
        // (watchdog, spawn failure, temp dir) and counts as inconclusive.
        if let Outcome::Discard(_) = o
            && !ctx.frozen
        {
            ctx.inconclusive += 1;
        }
        o
    });
}

impl Check for C17 {
    fn id(&self) -> &'static str {
        "C17"
    }

    fn rule(&self) -> String {
        "Generated (proptest): an input text of 0..12 lines (stage `short`: every line < 8192 bytes; stage \
         `long-first`: first line >= 8192 bytes; stage `mixed`: any), line lengths from {0, 1, 100, 8191, 8192, \
         8193, 16384, 20000, 70000} and random, ASCII or multi-byte patterns, with or without a final newline, \
         runs of empty lines, never a CR; a delivery plan: regular file as stdin | pipe written with one write | \
         pipe written at generated cut points (uniform, right before/after a newline, inside a multi-byte \
         character, around multiples of 8192) with 0..15 ms pauses | one byte per write; the writer closes the \
         pipe after the last byte. The echo script (straight-line or a jasi loop) calls read_line(\"\") \
         (pieces + 3) times and prints `[line]` and `line.len()`. Oracle: call k returns the k-th newline-separated \
         piece of the text, then empty strings; stdout valid UTF-8; exit status 0, no signal. Even shards drive \
         the dev build of naija, odd shards the release build. Non-trivial: the write plan puts >= 2 lines into \
         one chunk (a newline that is not the last byte of its chunk), or cuts a line, or the text has a line of \
         >= 8192 bytes (it does not fit the initial 8 KiB buffer with its terminator). Distinct by hash of the \
         canonical case (line specs, final newline, delivery plan, script form, build)."
            .into()
    }

    fn assumptions(&self) -> Vec<String> {
        vec![
            "the line terminator is LF; input containing CR is not generated (whether CR belongs to the terminator is undocumented)".into(),
            "input is valid UTF-8 (what read_line does with invalid bytes is unspecified)".into(),
            "`s.len()` counts characters and `shout` prints the string followed by LF (documented)".into(),
            "non-triviality is judged on the write plan; how the kernel actually merges or splits writes is not observable, and the oracle does not depend on it".into(),
            format!("a run that does not finish within {TIMEOUT_S} s is discarded as inconclusive, not failed"),
        ]
    }

    fn plan(&self, _tier: Tier) -> Vec<ShardSpec> {
        // The harness flavour is irrelevant (the subject is the naija binary): all Dbg.
        (0..16).map(|_| ShardSpec { bin: Bin::Dbg }).collect()
    }

    fn shard(&self, ctx: &mut ShardCtx) {
        proc::require_binaries();
        let build = if ctx.shard.is_multiple_of(2) { Build::Debug } else { Build::Release };
        let t = ctx.tier;
        // quick: 38 runs per shard = 608 in total; thorough: 940 per shard = 15 040
        run_stage(ctx, "short", t.pick(120, 1200), Stage::Short, build);
        run_stage(ctx, "long-first", t.pick(50, 500), Stage::LongFirst, build);
        run_stage(ctx, "mixed", t.pick(100, 1000), Stage::Mixed, build);
    }

    fn replay(&self, _ctx: &mut ShardCtx, _stage: &str, input: &J) -> Outcome {
        match Case::from_json(&input["case"]) {
            Some(case) => check_case(&case),
            None => Outcome::Discard("unreadable replay input"),
        }
    }
}
