#!/usr/bin/env bash
# MANIFEST.setup_cmd: build the framework from files on disk only (offline).
set -eu
ROOT="$(cd "$(dirname "${BASH_SOURCE[0]}")" && pwd)"
"$ROOT/build.sh" all
