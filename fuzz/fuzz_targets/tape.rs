//! C01/C02/C03: the bytes are a choice tape for the nsgen program generator; the program is
//! run in-process in all four configurations and compared with the reference interpreter and
//! with each other (same oracles as the proptest checks, without fork isolation: a crash is a
//! libFuzzer crash; artifacts are triaged afterwards through the isolated oracles).
#![no_main]
use libfuzzer_sys::fuzz_target;

fuzz_target!(|data: &[u8]| {
    if data.is_empty() || data.len() > 900 {
        return;
    }
    let profile = ["general", "reclaim", "prune", "scope", "arrays"][usize::from(data[0]) % 5];
    if let Err(msg) = nsverif::fuzzing::tape_case(&data[1..], profile) {
        panic!("{msg}");
    }
});
