//! C07: byte-level libFuzzer target on source text. Oracle inside the target: lex + parse
//! (+ resolve on parser-clean input) return, spans are valid, rendering is valid UTF-8.
#![no_main]
use libfuzzer_sys::fuzz_target;

fuzz_target!(|data: &[u8]| {
    let Ok(text) = std::str::from_utf8(data) else { return };
    if text.len() > 16 * 1024 {
        return;
    }
    if let Err((sig, what)) = nsverif::c07::front_check(text) {
        panic!("C07 oracle: {sig}: {what}");
    }
});
