//! C13: (haystack, needle, replacement) from the input bytes; naive oracles inside the target.
#![no_main]
use libfuzzer_sys::fuzz_target;

fuzz_target!(|data: &[u8]| {
    if let Err(msg) = nsverif::fuzzing::strings_case(data) {
        panic!("{msg}");
    }
});
