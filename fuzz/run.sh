#!/usr/bin/env bash
# Runs one libFuzzer campaign: ./fuzz/run.sh <target> <seconds>
# Artifacts and the grown corpus land under out/fuzz/<target>/; they are triaged by
# `nsverif check <ID> --tier thorough` (stage fuzz-triage) through the isolated strict oracles.
# A campaign is only approximately reproducible (-seed pins the mutation RNG, not the schedule);
# its output is never the verdict.
set -u
ROOT="$(cd "$(dirname "${BASH_SOURCE[0]}")/.." && pwd)"
REPO="${VERIF_REPO:-/repo}"
TARGET="$1"; SECS="${2:-300}"; SEED="${VERIF_SEED:-1}"
export CARGO_NET_OFFLINE=true
cd "$ROOT/fuzz"
[ -f Cargo.lock ] || cp "$ROOT/harness/Cargo.lock" Cargo.lock
cargo +nightly fuzz build --fuzz-dir . "$TARGET" >"$ROOT/out/fuzz-build-$TARGET.log" 2>&1 || { echo "fuzz build failed, see out/fuzz-build-$TARGET.log"; exit 2; }
BIN="$ROOT/fuzz/target/x86_64-unknown-linux-gnu/release/$TARGET"
OUT="$ROOT/out/fuzz/$TARGET"
rm -rf "$OUT"; mkdir -p "$OUT/corpus" "$OUT/empty" "$OUT/artifacts"
# seed corpus: committed seeds + (text target) the repository's own scripts
cp "$ROOT/fuzz/corpus/$TARGET"/* "$OUT/corpus/" 2>/dev/null || true
if [ "$TARGET" = front ]; then
  for f in "$REPO"/examples/*.ns "$REPO"/tests/stress/*.ns; do [ -f "$f" ] && cp "$f" "$OUT/corpus/$(basename "$(dirname "$f")")-$(basename "$f")"; done
fi
# the interpreter measures native stack depth by address arithmetic: ASan's fake stack
# (use-after-return detection) would make that meaningless
export ASAN_OPTIONS="detect_stack_use_after_return=0:${ASAN_OPTIONS:-}"
HALF=$((SECS / 2))
DICT=""; [ -f "$ROOT/fuzz/$TARGET.dict" ] && DICT="-dict=$ROOT/fuzz/$TARGET.dict"
COMMON="-fork=16 -ignore_crashes=1 -ignore_timeouts=1 -ignore_ooms=1 -timeout=20 -rss_limit_mb=4096 -len_control=0 -close_fd_mask=3 -seed=$SEED -artifact_prefix=$OUT/artifacts/ $DICT"
"$BIN" $COMMON -max_total_time=$HALF "$OUT/corpus" >"$OUT/campaign-corpus.log" 2>&1
"$BIN" $COMMON -max_total_time=$((SECS - HALF)) "$OUT/empty" >"$OUT/campaign-empty.log" 2>&1
echo "campaign $TARGET: $(ls "$OUT/artifacts" | wc -l) artifacts, corpus $(ls "$OUT/corpus" | wc -l) + $(ls "$OUT/empty" | wc -l) files"
grep -h "stat::number_of_executed_units\|DONE" "$OUT"/campaign-*.log | tail -4
exit 0
