#!/usr/bin/env bash
# Builds what a property check needs. Cargo's own change detection makes this a
# rebuild from /repo's current working tree (path dependency / --manifest-path).
set -eu
ROOT="$(cd "$(dirname "${BASH_SOURCE[0]}")" && pwd)"
REPO="${VERIF_REPO:-/repo}"
export CARGO_NET_OFFLINE=true
ID="${1:-all}"
cd "$ROOT/harness"
# The harness lock file is seeded from the repository's so that every crate version is in the offline cache.
[ -f Cargo.lock ] || cp "$REPO/Cargo.lock" Cargo.lock
export CARGO_TARGET_DIR="$ROOT/target/harness"
cargo build --offline --bins 2>&1
case "$ID" in
  C11|C12|C13|C14|all) cargo build --offline --release --bins 2>&1 ;;
esac
case "$ID" in
  C07|C08|C14|C17|all)
    cd "$REPO"
    CARGO_TARGET_DIR="$ROOT/target/naija" cargo build --offline --bin naija 2>&1
    ;;
esac
case "$ID" in
  C08|C14|C17|all)
    cd "$REPO"
    CARGO_TARGET_DIR="$ROOT/target/naija" cargo build --offline --release --bin naija 2>&1
    ;;
esac
